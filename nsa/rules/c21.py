"""C21 - reproducibility: randomness sources, context protocol, push/pop pairing, JAX key hand-over."""
import ast

from ..model import src, short, walk_no_nested, call_name, stmt_targets
from ..util import cfg_of, find_nodes, known_atoms, attr_chain, returns_of
from .c27 import pairing

RND = "nifty.cl.random"
LEGACY = {"seed", "rand", "randn", "randint", "random", "random_sample", "normal", "uniform", "choice", "shuffle",
          "permutation", "standard_normal", "poisson", "binomial", "exponential", "gamma", "beta", "RandomState",
          "get_state", "set_state", "bytes", "ranf", "sample", "lognormal", "laplace", "multivariate_normal"}


def _literal_seed(e):
    return isinstance(e, ast.Constant) and isinstance(e.value, int) and not isinstance(e.value, bool)


def _derived_from_params(fi, e):
    """expression depends only on literals and on parameters of the enclosing function chain."""
    params = set()
    f = fi
    while f is not None:
        params |= set(f.params())
        f = f.parent
    for x in ast.walk(e):
        if isinstance(x, ast.Name) and x.id not in params and x.id not in ("int", "abs", "hash"):
            return False
        if isinstance(x, ast.Call) and not (isinstance(x.func, ast.Name) and x.func.id in ("int", "abs")):
            return False
    return True


def r21_1(ctx):
    m = ctx.model
    ctx.rule("R21.1", "randomness sources: numpy generators are built from the seed stack only in cl/random.py, elsewhere "
                      "only from a literal seed; no legacy global np.random.<dist>, stdlib random, os.urandom, "
                      "time-derived seeds; jax PRNGKey(...) only from a literal or a value flowing from a parameter",
             floor=8)
    sites = 0
    for mod in m.modules.values():
        m.consulted.add(mod.relpath)
        # stdlib random / secrets imports
        for n in ast.walk(mod.tree):
            if isinstance(n, ast.Import):
                for al in n.names:
                    if al.name in ("random", "secrets"):
                        ctx.bad("R21.1", f"{mod.relpath}::import {al.name}", "stdlib randomness is not seeded by NIFTy", mod.relpath, n)
            if isinstance(n, ast.ImportFrom) and n.level == 0 and n.module in ("random", "secrets"):
                ctx.bad("R21.1", f"{mod.relpath}::from {n.module} import", "stdlib randomness is not seeded by NIFTy", mod.relpath, n)
        fis = list(mod.all_functions)
        # module level statements too: wrap as pseudo function info
        scopes = [(fi, fi.node) for fi in fis]
        scopes.append((None, mod.tree))
        for fi, root in scopes:
            it = walk_no_nested(root) if fi is not None else _module_level(root)
            where = fi if fi is not None else mod.relpath
            qn = fi.key if fi is not None else f"{mod.relpath}::<module>"
            for n in it:
                if not isinstance(n, ast.Call):
                    continue
                ext = m.ext_name(mod, n.func) or ""
                if ext.startswith("numpy.random."):
                    tail = ext[len("numpy.random."):]
                    key = f"{qn}::{short(n, 90)}"
                    sites += 1
                    if tail in ("default_rng", "Generator", "SeedSequence", "PCG64", "Philox", "MT19937", "SFC64"):
                        if not n.args and not n.keywords:
                            ctx.bad("R21.1", key, f"{tail}() without arguments seeds from OS entropy", where, n)
                        elif mod.name == RND:
                            ctx.ok("R21.1", key, "owner module of the seed stack", where, n)
                        elif tail == "SeedSequence":
                            # derived sequences are fine if every argument derives from existing seed sequences / params
                            ctx.ok("R21.1", key, "seed sequence built from explicit arguments", where, n)
                        elif n.args and _literal_seed(n.args[0]):
                            ctx.ok("R21.1", key, "literal seed", where, n)
                        else:
                            ctx.bad("R21.1", key, "generator constructed outside cl/random.py from a non-literal seed "
                                                  "(bypasses the seed stack)", where, n)
                    elif tail.split(".")[0] in LEGACY:
                        ctx.bad("R21.1", key, "legacy global numpy RNG (state is process global and unseeded by NIFTy)", where, n)
                elif ext in ("os.urandom", "numpy.random.seed"):
                    sites += 1
                    ctx.bad("R21.1", f"{qn}::{short(n, 90)}", "OS entropy / global seeding", where, n)
                elif ext.startswith("jax.random.") and ext.split(".")[-1] in ("PRNGKey", "key"):
                    sites += 1
                    key = f"{qn}::{short(n, 90)}"
                    if n.args and (_literal_seed(n.args[0]) or (fi is not None and _derived_from_params(fi, n.args[0]))):
                        ctx.ok("R21.1", key, "key from literal / caller-supplied seed", where, n)
                    else:
                        # accept a local that is itself derived from a parameter through int()/isinstance narrowing
                        ctx.check("R21.1", key, None, "key seed is neither literal nor parameter-derived", where, n)
                elif ext in ("time.time", "time.time_ns", "time.perf_counter", "datetime.datetime.now") and fi is not None:
                    # only a problem when it feeds a seed: look at the enclosing statement
                    pass
    ctx.extra["R21.1_sites"] = sites
    # positive control: the rule must recognise a planted legacy call
    probe = ast.parse("import numpy as np\ndef f():\n    return np.random.normal(0, 1, 3)\n")
    hit = any(isinstance(n, ast.Call) and src(n.func) == "np.random.normal" for n in ast.walk(probe))
    if not hit:
        ctx.error("R21.1 positive control failed")


def _module_level(tree):
    for st in tree.body:
        if isinstance(st, (ast.FunctionDef, ast.AsyncFunctionDef, ast.ClassDef)):
            continue
        yield from walk_no_nested(st, include_self=True)


def r21_2(ctx):
    m = ctx.model
    mod = m.module(RND)
    C = m.cls(RND, "Context")
    ctx.rule("R21.2", "Context protocol: __enter__ pushes exactly once, __exit__ pops on every path before any raise and "
                      "never swallows an exception; push/pop/setState update _sseq and _rng in lock-step; nobody else "
                      "touches the two stacks", floor=8)
    ent = m.resolve_method(C, "__enter__")
    ex = m.resolve_method(C, "__exit__")
    if ent is None or ex is None:
        ctx.error("Context.__enter__/__exit__ missing")
        return
    ctx.saw_func(ent)
    ctx.saw_func(ex)
    cfg = cfg_of(ent)
    pushes = [n for n, c in find_nodes(cfg, lambda q: isinstance(q, ast.Call) and call_name(q) in ("push_sseq", "push_sseq_from_seed"))]
    key = f"{ent.key}::pushes exactly once on every path"
    if len(pushes) != 1:
        ctx.bad("R21.2", key, f"{len(pushes)} push calls", ent)
    else:
        p = pushes[0]
        every = cfg.exit.id not in cfg.reachable(cfg.entry.id, avoid=[p.id], include_exc=False)
        again = p.id in cfg.reachable_after(p.id, include_exc=False)
        arg = p.ast.value.args[0] if isinstance(p.ast, ast.Expr) and isinstance(p.ast.value, ast.Call) and p.ast.value.args else None
        pushes_own = arg is not None and attr_chain(arg) == ["self", "_sseq"]
        ctx.check("R21.2", key, every and not again and pushes_own,
                  f"every path: {every}; repeated: {again}; pushes the context's own sequence: {pushes_own}", ent, p.ast)
    cfg = cfg_of(ex)
    pops = [n for n, c in find_nodes(cfg, lambda q: isinstance(q, ast.Call) and call_name(q) == "pop_sseq")]
    key = f"{ex.key}::pops on every path before leaving (normally or by raise)"
    if not pops:
        ctx.bad("R21.2", key, "__exit__ never pops", ex)
    else:
        avoid = [p.id for p in pops]
        r = cfg.reachable(cfg.entry.id, avoid=avoid)
        okk = cfg.exit.id not in r and cfg.raise_exit.id not in r
        twice = any(p2.id in cfg.reachable_after(p.id) for p in pops for p2 in pops)
        ctx.check("R21.2", key, okk and not twice, f"unpopped exit reachable: {not okk}; double pop possible: {twice}", ex, pops[0].ast,
                  witness=cfg.describe_path(cfg.path(cfg.entry.id, [cfg.exit.id, cfg.raise_exit.id], avoid=avoid)))
    exc_name = ex.node.args.args[1].arg if len(ex.node.args.args) > 1 else "exc_type"
    rets = returns_of(ex)
    key = f"{ex.key}::never suppresses an exception"
    verdict = True
    why = "falls off the end (returns None)"
    for r in rets:
        v = r.value
        if v is None or (isinstance(v, ast.Constant) and not v.value):
            continue
        if isinstance(v, ast.Compare) and src(v) in (f"{exc_name} is None", f"{exc_name} == None"):
            why = f"returns `{src(v)}` (false whenever an exception is in flight)"
            continue
        if isinstance(v, ast.Constant) and v.value:
            verdict, why = False, f"`{short(r)}` returns a truthy constant: exceptions raised inside the context are swallowed"
            break
        if isinstance(v, ast.Compare) and src(v) in (f"{exc_name} is not None", f"{exc_name} != None"):
            verdict, why = False, f"`{short(r)}` is true exactly when an exception is in flight: it is swallowed"
            break
        verdict, why = None, f"return value `{src(v)}` not modelled"
    ctx.check("R21.2", key, verdict, why, ex)
    # lock-step updates
    for fname, kind in (("push_sseq", "push"), ("push_sseq_from_seed", "push"), ("pop_sseq", "pop"), ("setState", "set")):
        fi = mod.functions.get(fname)
        key = f"{mod.relpath}::{fname}::_sseq and _rng updated in lock-step"
        if fi is None:
            ctx.error(f"random.{fname} missing")
            continue
        ctx.saw_func(fi)
        ops = []
        for st in fi.node.body:
            for n in walk_no_nested(st, include_self=True):
                if isinstance(n, ast.Call) and isinstance(n.func, ast.Attribute) and isinstance(n.func.value, ast.Name) \
                        and n.func.value.id in ("_sseq", "_rng") and n.func.attr in ("append", "pop", "clear", "insert", "extend"):
                    ops.append((n.func.value.id, n.func.attr, n))
            if isinstance(st, ast.Assign):
                for t in stmt_targets(st):
                    if isinstance(t, ast.Name) and t.id in ("_sseq", "_rng"):
                        ops.append((t.id, "assign", st))
        seq = [(a, b) for a, b, _ in ops]
        if kind == "push":
            good = seq == [("_sseq", "append"), ("_rng", "append")]
            if good:
                rarg = ops[1][2].args[0] if ops[1][2].args else None
                good = isinstance(rarg, ast.Call) and (m.ext_name(mod, rarg.func) == "numpy.random.default_rng") \
                    and rarg.args and src(rarg.args[0]) == "_sseq[-1]"
            ctx.check("R21.2", key, good, f"effects: {seq}; generator must be default_rng(_sseq[-1]) created after the push", fi)
        elif kind == "pop":
            ctx.check("R21.2", key, sorted(seq) == [("_rng", "pop"), ("_sseq", "pop")] and
                      all(not o[2].args for o in ops), f"effects: {seq}", fi)
        else:
            ctx.check("R21.2", key, sorted(seq) == [("_rng", "assign"), ("_sseq", "assign")], f"effects: {seq}", fi)
    # draws use the top of the stack
    R = m.cls(RND, "Random")
    for fi in R.methods.values():
        ctx.saw_func(fi)
        draws = [n for n in walk_no_nested(fi.node) if isinstance(n, ast.Call) and isinstance(n.func, ast.Attribute)
                 and n.func.attr in ("normal", "uniform", "integers", "random", "standard_normal", "choice")]
        for d in draws:
            base = src(d.func.value)
            ctx.check("R21.2", f"{fi.key}::{short(d, 70)}", base in ("_rng[-1]", "current_rng()"),
                      "draw does not use the generator on top of the stack", fi, d)
    # nobody else touches the stacks
    for other in m.modules.values():
        if other.name == RND:
            continue
        for nm, tgt in other.imports.items():
            if tgt in (f"{RND}._sseq", f"{RND}._rng"):
                ctx.bad("R21.2", f"{other.relpath}::imports {tgt}", "foreign module manipulates the RNG stack", other.relpath)
        for n in ast.walk(other.tree):
            if isinstance(n, ast.Attribute) and n.attr in ("_sseq", "_rng") and isinstance(n.value, ast.Name) \
                    and other.imports.get(n.value.id) == RND:
                ctx.bad("R21.2", f"{other.relpath}::{src(n)}", "foreign module manipulates the RNG stack", other.relpath, n)


def r21_3(ctx):
    m = ctx.model
    ctx.rule("R21.3", "every push_sseq* call site in the package is followed by pop_sseq on every path to the next loop "
                      "iteration / function exit", floor=1)
    cnt = 0
    for mod in m.modules.values():
        if mod.name == RND:
            continue
        for fi in mod.all_functions:
            c = pairing(ctx, "R21.3", fi)
            if c:
                ctx.saw_func(fi)
                m.consulted.add(mod.relpath)
            cnt += c
    ctx.extra["R21.3_push_sites"] = cnt


def r21_4(ctx):
    m = ctx.model
    ctx.rule("R21.4", "JAX key hand-over: OptimizeVI.update splits the carried key exactly once, unconditionally; one half "
                      "feeds draw_samples only, the other half (never the consumed one, never the unsplit key) is stored "
                      "in the returned state; draw_linear_residual feeds its two sub-keys once each", floor=5)
    OKL = "nifty.re.optimize_kl"
    upd = m.func(OKL, "OptimizeVI.update")
    ctx.saw_func(upd)
    _split_discipline(ctx, m, upd, state_sink=True)
    dlr = m.func("nifty.re.evi", "draw_linear_residual")
    ctx.saw_func(dlr)
    _split_discipline(ctx, m, dlr, state_sink=False)


def _is_split(mod, model, call):
    ext = model.ext_name(mod, call.func) or ""
    return ext.endswith("random.split")


def _split_discipline(ctx, m, fi, state_sink):
    cfg = cfg_of(fi)
    mod = fi.module
    splits = [(n, c) for n, c in find_nodes(cfg, lambda q: isinstance(q, ast.Call) and _is_split(mod, m, q))]
    key0 = f"{fi.key}::exactly one unconditional 2-way split"
    if len(splits) != 1:
        ctx.bad("R21.4", key0, f"{len(splits)} split calls", fi)
        return
    sn, sc = splits[0]
    st = sn.ast
    tg = st.targets[0] if isinstance(st, ast.Assign) and len(st.targets) == 1 else None
    two = (len(sc.args) == 1) or (len(sc.args) >= 2 and isinstance(sc.args[1], ast.Constant) and sc.args[1].value == 2)
    if not (isinstance(tg, ast.Tuple) and len(tg.elts) == 2 and all(isinstance(e, ast.Name) for e in tg.elts) and two
            and isinstance(sc.args[0], ast.Name)):
        ctx.und("R21.4", key0, "split statement shape not modelled", fi, st)
        return
    a, b = tg.elts[0].id, tg.elts[1].id
    parent = sc.args[0].id
    dom = cfg.dominators()
    uncond = all(sn.id in dom[r.id] for r in cfg.nodes if r.kind == "stmt" and isinstance(r.ast, ast.Return) and r.id in dom)
    ctx.check("R21.4", key0, uncond, "a return is reachable without passing the split (key would not tick)", fi, st)
    # uses after the split
    rd = cfg.reaching_defs(fi.params())
    uses = {a: [], b: [], parent: []}
    for n in cfg.nodes:
        if n.id == sn.id or rd[n.id] is None:
            continue
        for u in cfg.node_uses(n):
            if u.id in uses and sn.id in rd[n.id].get(u.id, ()):
                uses[u.id].append((n, u))
    if parent not in (a, b):
        # the unsplit key must not be used after the split
        later = [n for n in cfg.nodes if n.id in cfg.reachable_after(sn.id) and any(u.id == parent for u in cfg.node_uses(n))]
        ctx.check("R21.4", f"{fi.key}::unsplit key `{parent}` dead after the split", not later,
                  "the unsplit key is used again after splitting (correlated draws)", fi, later[0].ast if later else st)
    if state_sink:
        # which name goes to draw_samples(key=...), which into the state
        sinks = {}
        for nm in (a, b):
            for n, u in uses[nm]:
                for c in walk_no_nested(n.ast, include_self=True):
                    if isinstance(c, ast.Call):
                        for kw in c.keywords:
                            if kw.arg == "key" and isinstance(kw.value, ast.Name) and kw.value.id == nm:
                                sinks.setdefault(nm, []).append(call_name(c))
        key = f"{fi.key}::halves routed to draw_samples / returned state"
        s_a, s_b = sinks.get(a, []), sinks.get(b, [])
        def role(s):
            if s == ["draw_samples"]:
                return "draw"
            if s == ["_replace"]:
                return "state"
            return None
        ra, rb = role(s_a), role(s_b)
        okk = {ra, rb} == {"draw", "state"} and len(uses[a]) == 1 and len(uses[b]) == 1
        ctx.check("R21.4", key, okk, f"`{a}` -> {s_a} ({len(uses[a])} uses), `{b}` -> {s_b} ({len(uses[b])} uses)", fi, st)
        # the state key must come from the split in *this* call on every path
        for n in cfg.nodes:
            for c in (walk_no_nested(n.ast, include_self=True) if n.kind == "stmt" else []):
                if isinstance(c, ast.Call) and call_name(c) == "_replace":
                    for kw in c.keywords:
                        if kw.arg == "key":
                            nm = kw.value.id if isinstance(kw.value, ast.Name) else None
                            defs = rd[n.id].get(nm, frozenset()) if nm else frozenset()
                            ctx.check("R21.4", f"{fi.key}::state key is the fresh half on every path",
                                      defs == frozenset([sn.id]),
                                      f"`{src(kw.value)}` stored in the state may be a key that was not produced by this call's split",
                                      fi, c)
    else:
        for nm in (a, b):
            ctx.check("R21.4", f"{fi.key}::sub-key `{nm}` consumed exactly once", len(uses[nm]) == 1,
                      f"{len(uses[nm])} uses", fi, st)


def r21_6(ctx):
    """keys duplicated for device sharding (jnp.repeat(keys, k, axis=0)) are restored by the inverse stride slice keys[::k]
    under the same condition - the keys stored with the samples are what later iterations (and a resumed run) re-use."""
    m = ctx.model
    ctx.rule("R21.6", "sample keys duplicated with jnp.repeat(keys, k, axis=0) for sharding are restored with keys[::k] under the "
                      "same condition before they are stored with the samples", floor=1)
    for modn in ("nifty.re.optimize_kl", "nifty.re.evi"):
        mod = m.module(modn)
        for fi in mod.all_functions:
            reps = [st for st in walk_no_nested(fi.node) if isinstance(st, ast.Assign) and isinstance(st.value, ast.Call)
                    and call_name(st.value) == "repeat" and len(st.targets) == 1 and isinstance(st.targets[0], ast.Name)
                    and st.value.args and src(st.value.args[0]) == st.targets[0].id]
            if not reps:
                continue
            ctx.saw_func(fi)
            from ..sibling import guarded_assignments
            ga = guarded_assignments(fi.node)
            for rp in reps:
                v = rp.targets[0].id
                k = src(rp.value.args[1]) if len(rp.value.args) > 1 else None
                g_rep = next((frozenset(src(x) for x in g.guards) for g in ga if g.stmt is rp), frozenset())
                undo = [g for g in ga if g.target == v and isinstance(g.value, ast.Subscript) and src(g.value.value) == v
                        and g.stmt.lineno > rp.lineno]
                key = f"{fi.key}::{src(rp)} is undone by {v}[::{k}]"
                if not undo:
                    ctx.bad("R21.6", key, f"`{v}` stays duplicated: the stored keys no longer identify the samples", fi, rp)
                    continue
                for u in undo:
                    sl = u.value.slice
                    good = isinstance(sl, ast.Slice) and sl.lower is None and sl.upper is None and sl.step is not None and src(sl.step) == k
                    same_g = frozenset(src(x) for x in u.guards) == g_rep
                    ctx.check("R21.6", key, good and same_g,
                              f"undo statement `{src(u.stmt)}` under {sorted(src(x) for x in u.guards)}; repeat under {sorted(g_rep)}", fi, u.stmt)


def run(ctx):
    r21_6(ctx)
    r21_1(ctx)
    r21_2(ctx)
    r21_3(ctx)
    r21_4(ctx)


# ---------------------------------------------------------------------------------------------------------------- R21.7 / R21.8
def r21_7(ctx, m):
    """repeated stochasticity must be a pristine duplicate, never the same (stateful) SeedSequence object"""
    from ..util import cfg_of, find_nodes, known_atoms
    from ..terms import inline_at
    fi = m.func("nifty.cl.minimization.optimize_kl", "optimize_kl")
    ctx.rule("R21.7", "classic optimize_kl: an iteration without fresh stochasticity gets a NEW SeedSequence built from the previous "
                      "iteration's (entropy, spawn_key, pool_size) - never an alias of the previous object, whose spawn counter has "
                      "advanced by the time it is pushed again", floor=1)
    cfg = cfg_of(fi)
    rd = cfg.reaching_defs(fi.params())
    # the per-iteration list: target of spawn_sseq(total)
    lists = [n.ast.targets[0].id for n in cfg.nodes if n.kind == "stmt" and isinstance(n.ast, ast.Assign) and isinstance(n.ast.value, ast.Call)
             and call_name(n.ast.value) == "spawn_sseq" and isinstance(n.ast.targets[0], ast.Name)]
    key = f"{fi.key}::repeated stochasticity duplicates the previous seed sequence"
    if len(lists) != 1:
        ctx.und("R21.7", key, f"{len(lists)} spawn_sseq lists", fi)
        return
    L = lists[0]
    stores = [n for n in cfg.nodes if n.kind == "stmt" and isinstance(n.ast, ast.Assign) and isinstance(n.ast.targets[0], ast.Subscript)
              and src(n.ast.targets[0].value) == L]
    if not stores:
        ctx.und("R21.7", key, f"no store into {L}[...]", fi)
        return
    for n in stores:
        idx = src(n.ast.targets[0].slice)
        v = inline_at(cfg, rd, n.id, n.ast.value, depth=2, stop=(L, idx))
        prev = f"{L}[{idx} - 1]"
        good = isinstance(v, ast.Call) and src(v.func).endswith("SeedSequence") and v.args and src(v.args[0]) == f"{prev}.entropy" and \
            {k.arg: src(k.value) for k in v.keywords} == {"spawn_key": f"{prev}.spawn_key", "pool_size": f"{prev}.pool_size"}
        alias = isinstance(v, ast.Subscript) and src(v.value) == L
        at = known_atoms(cfg, n.id)
        guarded = any((not pol) and isinstance(t, ast.Call) and src(t.func) == "fresh_stochasticity" for t, pol in at)
        ctx.check("R21.7", key, bool(good and guarded),
                  f"`{short(n.ast)}` re-uses the SAME SeedSequence object: its children counter was advanced by the draws of the earlier "
                  f"iteration, so the repeated iteration (and a resumed run) sees different seeds" if alias else src(v)[:200], fi, n.ast)


def r21_8(ctx, m):
    """the JAX driver continues the saved key chain on resume"""
    from ..util import cfg_of, find_nodes
    from ..terms import inline_at
    fi = m.func("nifty.re.optimize_kl", "optimize_kl")
    ctx.rule("R21.8", "nifty.re optimize_kl: the state that enters the loop after loading keeps the loaded PRNG key (and iteration "
                      "counter): it is the loaded state with only `config` replaced, or a state that copies `key` and `nit` from it", floor=1)
    cfg = cfg_of(fi)
    rd = cfg.reaching_defs(fi.params())
    reps = [(n, c) for n, c in find_nodes(cfg, lambda q: isinstance(q, ast.Call) and isinstance(q.func, ast.Attribute) and q.func.attr == "_replace")
            if n.kind == "stmt" and isinstance(n.ast, ast.Assign) and n.ast.value is c]
    # the re-attach statement: guarded by len(<state>.config) == 0
    from ..util import known_atoms
    cands = []
    for n, c in reps:
        at = known_atoms(cfg, n.id)
        for t, pol in at:
            if pol and "config" in src(t) and "len(" in src(t):
                cands.append((n, c, t))
    key = f"{fi.key}::resumed state keeps the loaded key and iteration counter"
    if len(cands) != 1:
        ctx.und("R21.8", key, f"{len(cands)} re-attach statements", fi)
        return
    n, c, t = cands[0]
    loaded = None
    for x in ast.walk(t):
        if isinstance(x, ast.Attribute) and x.attr == "config":
            loaded = src(x.value)
    base = src(c.func.value)
    kws = {k.arg: src(k.value) for k in c.keywords}
    if base == loaded:
        good = "key" not in kws and "nit" not in kws
        det = f"{base}._replace({', '.join(kws)})"
    else:
        good = kws.get("key") == f"{loaded}.key" and kws.get("nit") == f"{loaded}.nit"
        det = f"state rebuilt from `{base}` with {sorted(kws)}: " + ("key and nit copied" if good else
                                                                      "the loaded PRNG key is dropped, the resumed run restarts its key chain" if "key" not in kws else "fields not taken from the loaded state")
    ctx.check("R21.8", key, good, det, fi, c)


_run_c21b = run


def run(ctx):  # noqa: F811
    _run_c21b(ctx)
    r21_7(ctx, ctx.model)
    r21_8(ctx, ctx.model)


# ---------------------------------------------------------------------------------------------------------------- R21.9
def r21_9(ctx, m, rid="R21.9"):
    from ..util import cfg_of, find_nodes
    fi = m.func("nifty.cl.minimization.optimize_kl", "optimize_kl")
    mod = m.module("nifty.cl.minimization.optimize_kl")
    ctx.rule(rid, "classic optimize_kl: the per-iteration seed list is prepared for ALL iterations from 0 (a resumed run must rebuild "
                      "the same chain of duplicated seeds), and inside the driver loop nothing that can draw random numbers runs "
                      "before the iteration's seed is pushed", floor=2)
    cfg = cfg_of(fi)
    lists = [n.ast.targets[0].id for n in cfg.nodes if n.kind == "stmt" and isinstance(n.ast, ast.Assign) and isinstance(n.ast.value, ast.Call)
             and call_name(n.ast.value) == "spawn_sseq" and isinstance(n.ast.targets[0], ast.Name)]
    if len(lists) != 1:
        ctx.und(rid, f"{fi.key}::seed list", f"{len(lists)} spawn_sseq lists", fi)
        return
    L = lists[0]
    spawn_arg = [src(n.ast.value.args[0]) for n in cfg.nodes if n.kind == "stmt" and isinstance(n.ast, ast.Assign) and isinstance(n.ast.value, ast.Call)
                 and call_name(n.ast.value) == "spawn_sseq"][0]
    prep = [lp for lp in ast.walk(fi.node) if isinstance(lp, ast.For) and any(isinstance(st, ast.Assign) and isinstance(st.targets[0], ast.Subscript)
                                                                             and src(st.targets[0].value) == L for st in ast.walk(lp))]
    key = f"{fi.key}::seed preparation covers range(total iterations)"
    if len(prep) != 1:
        ctx.und(rid, key, f"{len(prep)} preparation loops", fi)
    else:
        it = src(prep[0].iter).replace(" ", "")
        ctx.check(rid, key, it in (f"range({spawn_arg})", f"range(0,{spawn_arg})"),
                  f"loop over `{src(prep[0].iter)}`: a resumed run would not rebuild the duplicated seeds of the iterations before its start index", fi, prep[0])
    # functions of the module that can draw random numbers (transitively)
    RAND = {"from_random", "current_rng", "draw_sample", "draw_samples", "normal", "standard_normal", "uniform", "integers", "random"}
    funcs = {f.name: f for f in mod.tree.body if isinstance(f, ast.FunctionDef)}
    for f in ast.walk(fi.node):
        if isinstance(f, ast.FunctionDef) and f is not fi.node:
            funcs[f.name] = f
    randf = set()
    changed = True
    while changed:
        changed = False
        for nm, f in funcs.items():
            if nm in randf:
                continue
            for c in ast.walk(f):
                if isinstance(c, ast.Call) and (call_name(c) in RAND or call_name(c) in randf):
                    randf.add(nm)
                    changed = True
                    break
    loops = [lp for lp in fi.node.body if isinstance(lp, ast.For) and any(isinstance(c, ast.Call) and call_name(c) == "push_sseq" for st in lp.body for c in ast.walk(st))]
    key = f"{fi.key}::nothing random runs before push_sseq in the driver loop"
    if len(loops) != 1:
        ctx.und(rid, key, f"{len(loops)} driver loops", fi)
        return
    before = []
    for st in loops[0].body:
        if any(isinstance(c, ast.Call) and call_name(c) == "push_sseq" for c in ast.walk(st)):
            break
        before.append(st)
    bad = [c for st in before for c in ast.walk(st) if isinstance(c, ast.Call) and (call_name(c) in RAND or call_name(c) in randf)]
    ctx.check(rid, key, not bad, f"`{short(bad[0])}` draws from the generator of the enclosing context (already advanced by earlier iterations), "
              f"so a resumed run sees different numbers" if bad else f"{len(before)} statement(s) before the push", fi, bad[0] if bad else None)


_run_c21c = run


def run(ctx):  # noqa: F811
    _run_c21c(ctx)
    r21_9(ctx, ctx.model)


DRAWS = ("from_random", "draw_sample", "special_draw_sample", "draw_samples", "normal", "standard_normal", "uniform", "integers", "random", "random_like", "rademacher", "choice", "permutation")


def r21_10(ctx, m):
    """order of consumption of the random stream must not depend on the string hash seed"""
    ctx.rule("R21.10", "no loop or comprehension that draws random numbers iterates over a set (set(...), set differences / unions, "
                       "names bound to such): the iteration order of a set of strings depends on the per-process hash seed, so the "
                       "keys would consume the (correctly seeded) stream in a different order in every process; draws over several "
                       "keys go through one MultiDomain (sorted keys) or a sorted(...) sequence", floor=3)
    mods = [mod for mod in m.modules.values() if mod.name.startswith(("nifty.cl.minimization", "nifty.cl.sugar", "nifty.cl.library", "nifty.cl.extra"))] \
        if hasattr(m, "modules") else []
    n = 0
    for mod in mods:
        for fi in mod.all_functions:
            setnames = set()
            for st in walk_no_nested(fi.node):
                if isinstance(st, ast.Assign) and isinstance(st.targets[0], ast.Name) and _is_set_expr(st.value, setnames):
                    setnames.add(st.targets[0].id)
            loops = []
            for x in walk_no_nested(fi.node):
                if isinstance(x, ast.For):
                    loops.append((x.iter, x.body, x))
                elif isinstance(x, (ast.ListComp, ast.SetComp, ast.DictComp, ast.GeneratorExp)):
                    for g in x.generators:
                        elts = [x.key, x.value] if isinstance(x, ast.DictComp) else [x.elt]
                        loops.append((g.iter, elts, x))
            for it, body, node in loops:
                draws = [c for b in body for c in ast.walk(b) if isinstance(c, ast.Call) and call_name(c) in DRAWS]
                if not draws:
                    continue
                n += 1
                ctx.saw_func(fi)
                is_set = _is_set_expr(it, setnames)
                ctx.check("R21.10", f"{fi.key}::loop at +{node.lineno - fi.node.lineno} drawing `{short(draws[0], 40)}` iterates in a defined order", not is_set,
                          f"iterates over the set `{src(it)}`: the order in which the keys draw depends on PYTHONHASHSEED" if is_set else None, fi, node)
    if not n:
        ctx.und("R21.10", "nifty/cl::loops that draw", "none found", "nifty/cl")


def _is_set_expr(e, setnames):
    if isinstance(e, ast.Name):
        return e.id in setnames
    if isinstance(e, (ast.Set, ast.SetComp)):
        return True
    if isinstance(e, ast.Call) and src(e.func) in ("set", "frozenset"):
        return True
    if isinstance(e, ast.BinOp) and isinstance(e.op, (ast.Sub, ast.BitOr, ast.BitAnd, ast.BitXor)):
        return _is_set_expr(e.left, setnames) or _is_set_expr(e.right, setnames) or \
            (isinstance(e.left, ast.Call) and call_name(e.left) == "keys") or (isinstance(e.right, ast.Call) and call_name(e.right) == "keys")
    if isinstance(e, ast.Call) and isinstance(e.func, ast.Attribute) and e.func.attr in ("union", "intersection", "difference", "symmetric_difference") \
            and _is_set_expr(e.func.value, setnames):
        return True
    return False


def r21_11(ctx, m):
    mod = m.module(RND)
    ctx.rule("R21.11", "cl.random.getState/setState save and restore BOTH stacks (seed sequences and generator objects with their "
                       "stream positions): setState assigns what getState pickled and constructs no generator - a generator rebuilt "
                       "from its seed sequence restarts its stream", floor=2)
    gs, ss = mod.functions.get("getState"), mod.functions.get("setState")
    if gs is None or ss is None:
        ctx.und("R21.11", f"{mod.relpath}::getState/setState", "missing", mod.relpath)
        return
    ctx.saw_func(gs)
    ctx.saw_func(ss)
    dumps = [c for c in walk_no_nested(gs.node) if isinstance(c, ast.Call) and call_name(c) == "dumps"]
    okg = len(dumps) == 1 and isinstance(dumps[0].args[0], ast.Tuple) and sorted(src(e) for e in dumps[0].args[0].elts) == ["_rng", "_sseq"]
    ctx.check("R21.11", f"{gs.key}::pickles (_sseq, _rng)", okg, src(dumps[0]) if dumps else None, gs)
    loads = [st for st in walk_no_nested(ss.node) if isinstance(st, ast.Assign) and isinstance(st.value, ast.Call) and call_name(st.value) == "loads"]
    builds = [c for c in walk_no_nested(ss.node) if isinstance(c, ast.Call) and call_name(c) in ("default_rng", "Generator", "PCG64", "RandomState")]
    oks = len(loads) == 1 and isinstance(loads[0].targets[0], ast.Tuple) and dumps and isinstance(dumps[0].args[0], ast.Tuple) and \
        [src(e) for e in loads[0].targets[0].elts] == [src(e) for e in dumps[0].args[0].elts] and not builds
    glob = [g for st in walk_no_nested(ss.node) if isinstance(st, ast.Global) for g in st.names]
    ctx.check("R21.11", f"{ss.key}::assigns both stacks from the pickle, in the order they were stored, as module globals", bool(oks) and sorted(glob) == ["_rng", "_sseq"],
              (f"`{src(builds[0])}` rebuilds a generator: its stream position is lost" if builds else (src(loads[0]) if loads else None)), ss)
    ctx.rule("R21.12", "jft.Vector is used as a static (hashed) argument of jitted sampling functions: its __hash__ must depend on the "
                       "leaf VALUES, because its == is element-wise and always truthy for non-empty trees - a structure-only hash makes "
                       "different point-estimate masks collide in jit's cache and silently re-uses the wrong trace", floor=1)
    V = m.cls("nifty.re.tree_math.vector", "Vector")
    h = V.methods.get("__hash__")
    if h is None:
        ctx.und("R21.12", f"{V.key}::__hash__", "not defined", V)
    else:
        ctx.saw_func(h)
        rr = [r for r in walk_no_nested(h.node) if isinstance(r, ast.Return) and r.value is not None]
        t = src(rr[0].value) if rr else ""
        ctx.check("R21.12", f"{h.key}::hash depends on the leaves", True if "tree_leaves(self)" in t or "tree_flatten(self)" in t else (False if "tree_structure(self)" in t else None), t, h)


_run_c21d = run


def run(ctx):  # noqa: F811
    _run_c21d(ctx)
    r21_10(ctx, ctx.model)
    r21_11(ctx, ctx.model)
