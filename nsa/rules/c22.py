"""C22 - independence of the number of MPI tasks: SPMD structure (collectives unconditional in the rank),
deterministic reducer, seeding by global index."""
import ast

from ..model import src, short, walk_no_nested, call_name
from ..taint import Taint
from ..util import cfg_of, find_nodes, known_atoms, guards

MODS = ["nifty.cl.minimization.sample_list", "nifty.cl.minimization.kl_energies", "nifty.cl.minimization.energy_adapter",
        "nifty.cl.minimization.optimize_kl", "nifty.cl.utilities"]
COMM_METHODS = {"allgather", "allreduce", "bcast", "Bcast", "Barrier", "gather", "scatter", "Allreduce", "Allgather", "reduce", "Reduce"}
P2P = {"send", "Send", "recv", "Recv"}
RANK_ATTRS = {"MPI_master", "local_indices", "n_local_samples", "_n_local_samples"}
RANK_CALLS = {"Get_rank", "_MPI_master"}
RANK_TEXTS = {"self.MPI_master", "self.local_indices", "self.n_local_samples", "get_MPI_params_from_comm(comm)[1]",
              "get_MPI_params_from_comm(comm)[2]", "utilities.get_MPI_params_from_comm(comm)[2]", "utilities.get_MPI_params_from_comm(comm)[1]"}


NOT_RECEIVERS = {"pickle", "np", "numpy", "json", "h5py", "os", "plt", "logger", "self._controller", "controller"}


def is_coll_call(c, coll):
    """coll = (function names, method names).  Bare-name calls match module-level functions and class constructors; attribute
    calls match methods (unless the receiver is a well-known foreign module) and module functions called through a module."""
    fnames, mnames = coll
    if isinstance(c.func, ast.Attribute):
        if c.func.attr in COMM_METHODS and "comm" in src(c.func.value).lower():
            return True
        recv = src(c.func.value)
        if recv in NOT_RECEIVERS:
            return False
        if c.func.attr in mnames:
            return True
        return recv in ("utilities", "random") and c.func.attr in fnames
    if isinstance(c.func, ast.Name):
        return c.func.id in fnames
    return False


def collective_functions(model):
    """(function names, method names) of functions in the modules that (transitively) perform a collective."""
    funcs = []
    for mn in MODS:
        mod = model.module(mn)
        funcs += mod.all_functions
    fnames, mnames = set(), set()

    def mark(fi):
        if fi.cls is not None and fi.parent is None:
            if fi.name == "__init__":
                before = len(fnames)
                fnames.add(fi.cls.name)
                for sub in model.subclasses(fi.cls):
                    init = model.resolve_method(sub, "__init__")
                    fnames.add(sub.name)
                return len(fnames) != before
            if fi.name in mnames:
                return False
            mnames.add(fi.name)
            return True
        if fi.name in fnames:
            return False
        fnames.add(fi.name)
        return True
    changed = True
    while changed:
        changed = False
        for fi in funcs:
            for c in walk_no_nested(fi.node):
                if isinstance(c, ast.Call) and is_coll_call(c, (fnames, mnames)):
                    if mark(fi):
                        changed = True
                    break
    mnames -= {"make"}
    return (fnames, mnames)


def coll_sequence(node, coll):
    """Ordered list of collective callee names in a statement list / node."""
    out = []
    for st in (node if isinstance(node, list) else [node]):
        for c in ast.walk(st):
            if isinstance(c, ast.Call):
                cn = call_name(c)
                if is_coll_call(c, coll):
                    out.append((getattr(c, "lineno", 0), getattr(c, "col_offset", 0), cn))
    return [x[2] for x in sorted(out)]


def run(ctx):
    m = ctx.model
    coll = collective_functions(m)
    ctx.extra["collective_functions"] = {"functions": sorted(coll[0]), "methods": sorted(coll[1])}
    ctx.rule("R22.1", "collectives are unconditional in the rank: no collective (direct or through a callee that performs one) is "
                      "control-dependent on a rank-tainted condition unless both arms perform the same sequence of collectives; "
                      "loops containing collectives have rank-independent bounds", floor=25)
    n_sites = 0
    for mn in MODS:
        mod = m.module(mn)
        for fi in mod.all_functions:
            if fi.name in ("allreduce_sum", "_send", "_recv"):
                continue  # the pairing protocol of C23
            calls = [c for c in walk_no_nested(fi.node) if isinstance(c, ast.Call) and is_coll_call(c, coll)]
            if not calls:
                continue
            ctx.saw_func(fi)
            cfg = cfg_of(fi)
            tn = Taint(cfg, fi.params(), rank_calls=RANK_CALLS | {"Get_rank"}, tainted_exprs=RANK_TEXTS)
            pm = {}
            for p in ast.walk(fi.node):
                for ch in ast.iter_child_nodes(p):
                    pm[ch] = p
            for n, c in find_nodes(cfg, lambda q: any(q is x for x in calls)):
                n_sites += 1
                cn = call_name(c)
                key = f"{fi.key}::{short(c, 60)}"
                bad_guards = []
                for tnode in cfg.nodes:
                    if tnode.kind == "test" and any(tt is tnode.ast for tt, pol in guards(cfg, n.id)) and tn.expr_tainted(tnode.ast, tnode.id):
                        bad_guards.append(tnode)
                # loop bounds
                bad_loops = []
                cur = c
                while cur in pm:
                    cur = pm[cur]
                    if isinstance(cur, ast.For):
                        hn = [x for x in cfg.nodes if x.kind == "for" and x.first and x.ast is cur]
                        if hn and tn.expr_tainted(cur.iter, hn[0].id):
                            bad_loops.append(cur)
                    if isinstance(cur, (ast.ListComp, ast.GeneratorExp)):
                        for g in cur.generators:
                            if tn.expr_tainted(g.iter, n.id):
                                bad_loops.append(cur)
                if not bad_guards and not bad_loops:
                    ctx.ok("R22.1", key, None, fi, c)
                    continue
                # branch symmetry: the innermost tainted if has the same collective sequence in both arms
                sym = True
                why = []
                for tnode in bad_guards:
                    ifs = [x for x in ast.walk(fi.node) if isinstance(x, ast.If) and x.test is tnode.ast]
                    if not ifs:
                        sym = False
                        why.append(f"rank-dependent condition `{src(tnode.ast)}`")
                        continue
                    a, b = coll_sequence(ifs[0].body, coll), coll_sequence(ifs[0].orelse, coll)
                    if a != b:
                        sym = False
                        why.append(f"under `{src(tnode.ast)}` the arms perform {a} vs {b}")
                for lp in bad_loops:
                    sym = False
                    it = src(lp.iter) if isinstance(lp, ast.For) else src(lp.generators[0].iter)
                    why.append(f"loop bound `{it}` depends on the rank")
                ctx.check("R22.1", key, sym, "; ".join(why) if why else "both arms of the rank-dependent branch perform the same collectives",
                          fi, c)
    ctx.extra["collective_call_sites"] = n_sites

    # ------------------------------------------------------------------ R22.2
    ctx.rule("R22.2", "sums across tasks go through the deterministic reducer utilities.allreduce_sum: no comm.allreduce/reduce on "
                      "numeric data and no python sum over gathered values outside it", floor=3)
    for mod in m.modules.values():
        if not mod.name.startswith("nifty.cl"):
            continue
        for fi in mod.all_functions:
            for c in walk_no_nested(fi.node):
                if not isinstance(c, ast.Call):
                    continue
                if isinstance(c.func, ast.Attribute) and c.func.attr in ("allreduce", "reduce", "Allreduce", "Reduce") \
                        and "comm" in src(c.func.value).lower():
                    ok_ = fi.name == "allreduce_sum" and mod.name == "nifty.cl.utilities" and "type(" in src(c)
                    ctx.check("R22.2", f"{fi.key}::{short(c, 60)}", ok_,
                              "MPI's own reduction has an implementation- and task-count-dependent summation order", fi, c)
                if isinstance(c.func, ast.Name) and c.func.id in ("sum", "my_sum") and c.args and any(
                        isinstance(x, ast.Call) and call_name(x) in ("allgather", "gather") for x in ast.walk(c.args[0])):
                    ctx.bad("R22.2", f"{fi.key}::{short(c, 60)}", "values gathered from the tasks are added in task order: the "
                            "association depends on how the samples are partitioned", fi, c)
    # the averaging entry points use allreduce_sum and divide by the global count
    SLB = m.cls("nifty.cl.minimization.sample_list", "SampleListBase")
    for name in ("average", "_average_2tuple"):
        fi = SLB.methods[name]
        ctx.saw_func(fi)
        rets = [r for r in walk_no_nested(fi.node) if isinstance(r, ast.Return)]
        txt = src(rets[-1].value) if rets else ""
        ctx.check("R22.2", f"{fi.key}::average = allreduce_sum(local results) / n_samples (global)",
                  "allreduce_sum(" in txt and "/ n" in txt and "n = self.n_samples" in src(fi.node), txt, fi)
    for modn, fn in (("nifty.cl.minimization.kl_energies", None), ("nifty.cl.minimization.energy_adapter", None)):
        mod = m.module(modn)
        for fi in mod.all_functions:
            for c in walk_no_nested(fi.node):
                if isinstance(c, ast.Call) and call_name(c) == "allreduce_sum":
                    ctx.ok("R22.2", f"{fi.key}::{short(c, 60)}", "deterministic reducer", fi, c)

    # ------------------------------------------------------------------ R22.3
    ctx.rule("R22.3", "seeding by global index: spawn_sseq receives a rank-independent count; every draw inside a per-sample loop "
                      "over range(*shareRange(N, ntask, rank)) happens inside `with random.Context(sseq[i])` with i the loop "
                      "(global) index; mirrored pairs share the duplicated seed", floor=4)
    sites = [("nifty.cl.minimization.kl_energies", "draw_samples"), ("nifty.cl.minimization.energy_adapter", "StochasticEnergyAdapter.make")]
    for modn, qn in sites:
        fi = m.func(modn, qn)
        ctx.saw_func(fi)
        cfg = cfg_of(fi)
        tn = Taint(cfg, fi.params(), rank_calls={"Get_rank"}, tainted_exprs=RANK_TEXTS)
        sp = [(n, c) for n, c in find_nodes(cfg, lambda q: isinstance(q, ast.Call) and call_name(q) == "spawn_sseq")]
        for n, c in sp:
            ctx.check("R22.3", f"{fi.key}::{short(c)} receives a rank-independent count",
                      not tn.expr_tainted(c.args[0], n.id) and not any(t is not None and tn.expr_tainted(t, n.id) for t, pol in known_atoms(cfg, n.id)),
                      None, fi, c)
        loops = [x for x in walk_no_nested(fi.node) if isinstance(x, ast.For) and "shareRange" in src(x.iter)]
        key = f"{fi.key}::per-sample loop draws inside Context(sseq[global index])"
        if len(loops) != 1:
            ctx.und("R22.3", key, f"{len(loops)} shareRange loops", fi)
            continue
        lp = loops[0]
        iv = src(lp.target)
        withs = [w for w in lp.body if isinstance(w, ast.With)]
        okw = len(withs) == 1 and any(call_name(it.context_expr) == "Context" and it.context_expr.args
                                       and src(it.context_expr.args[0]).endswith(f"[{iv}]") for it in withs[0].items
                                       if isinstance(it.context_expr, ast.Call))
        # every draw (from_random / draw_sample / special_draw_sample) of the loop is inside that with
        draws = [c for c in ast.walk(lp) if isinstance(c, ast.Call) and call_name(c) in ("from_random", "draw_sample", "special_draw_sample")]
        inside = all(any(c is x for x in ast.walk(withs[0])) for c in draws) if withs else False
        # the shareRange total is the length of the (possibly duplicated) seed list
        seedlist = src(withs[0].items[0].context_expr.args[0]).split("[")[0] if okw else None
        tot = None
        for c in ast.walk(lp.iter):
            if isinstance(c, ast.Call) and call_name(c) == "shareRange":
                tot = src(c.args[0])
        ctx.check("R22.3", key, okw and inside and bool(draws), f"loop over {src(lp.iter)}, contexts {[src(w.items[0].context_expr) for w in withs]}, draws {len(draws)}", fi, lp)
        ctx.check("R22.3", f"{fi.key}::loop range covers the global sample count",
                  tot in (f"len({seedlist})", "n_samples") and (tot != "n_samples" or any("spawn_sseq(n_samples)" in src(x) for x in walk_no_nested(fi.node))), f"shareRange({tot}, ...)", fi, lp)
    ds = m.func("nifty.cl.minimization.kl_energies", "draw_samples")
    dup = any(isinstance(n, ast.ListComp) and isinstance(n.elt, ast.BinOp) and isinstance(n.elt.op, ast.Mult)
              and isinstance(n.elt.left, ast.List) and len(n.elt.left.elts) == 1 and isinstance(n.elt.right, ast.Constant) and n.elt.right.value == 2
              and src(n.elt.left.elts[0]) == src(n.generators[0].target) for n in ast.walk(ds.node))
    lp = [x for x in walk_no_nested(ds.node) if isinstance(x, ast.For) and "shareRange" in src(x.iter)]
    negdef = redraw = False
    if len(lp) == 1:
        iv = src(lp[0].target)
        negname = None
        for st in ast.walk(lp[0]):
            if isinstance(st, ast.Assign) and isinstance(st.value, ast.BoolOp) and isinstance(st.value.op, ast.And) \
                    and src(st.value.values[0]) == "mirror_samples" and src(st.value.values[1]) in (f"{iv} % 2 != 0", f"{iv} % 2 == 1"):
                negdef = True
                negname = src(st.targets[0])
        for st in ast.walk(lp[0]):
            if isinstance(st, ast.If) and isinstance(st.test, ast.BoolOp) and isinstance(st.test.op, ast.Or) and negname \
                    and src(st.test.values[0]) == f"not {negname}" and src(st.test.values[1]).endswith(" is None"):
                redraw = True
    ctx.check("R22.3", f"{ds.key}::mirrored pairs share one seed (each seed duplicated in place; odd positions negate; a task whose share "
                       "starts at a mirrored position re-draws under the shared seed)", dup and negdef and redraw,
              f"duplication {dup}, negation on odd global index {negdef}, re-draw when the partner is on another task {redraw}", ds)


_run_c22 = run


def run(ctx):  # noqa: F811
    _run_c22(ctx)
    m = ctx.model
    # the deterministic reducer itself must keep the partition-independent tree (premises checked for C23)
    from ..report import Ctx
    from .c23 import run as run23
    sub = Ctx("C23", quiet=True)
    sub.model = m
    run23(sub)
    for o in sub.obs:
        if o.rule == "R23.4" and ("slots entering the pairing loop" in o.key or "global slot counts" in o.key):
            ctx.ob("R22.2", o.key, o.verdict, o.detail, None, None, o.witness).loc = o.loc
    # serial and MPI path of the MAP branch build the same energy (per-iteration options threaded)
    from .c27 import r27_7
    okl = m.func("nifty.cl.minimization.optimize_kl", "optimize_kl")
    r27_7(ctx, m, okl, rule="R22.4")


# ---------------------------------------------------------------------------------------------------------------- R22.5 / R22.6
def r22_5(ctx, m):
    fi = m.func("nifty.cl.minimization.kl_energies", "draw_samples")
    ctx.saw_func(fi)
    ctx.rule("R22.5", "draw_samples: the task-local result lists are write-only inside the per-sample loop: what is computed for sample i "
                      "(start position, energy, residual) never reads how many or which samples this task has already produced - that "
                      "depends on the partition of the samples over the tasks", floor=2)
    loops = [lp for lp in walk_no_nested(fi.node) if isinstance(lp, ast.For) and "shareRange" in src(lp.iter)]
    if len(loops) != 1:
        ctx.und("R22.5", f"{fi.key}::per-sample loop", f"{len(loops)} loops over shareRange", fi)
        return
    lp = loops[0]
    acc = set()
    for c in ast.walk(lp):
        if isinstance(c, ast.Call) and isinstance(c.func, ast.Attribute) and c.func.attr in ("append", "extend") and isinstance(c.func.value, ast.Name):
            acc.add(c.func.value.id)
    # only lists that leave the function
    rets = " ".join(src(r.value) for r in walk_no_nested(fi.node) if isinstance(r, ast.Return) and r.value is not None)
    acc = {a for a in acc if a in rets}
    if not acc:
        ctx.und("R22.5", f"{fi.key}::task-local result lists", "none found", fi)
        return
    for a in sorted(acc):
        reads = []
        for x in ast.walk(lp):
            if isinstance(x, ast.Name) and x.id == a and isinstance(x.ctx, ast.Load):
                reads.append(x)
        # loads that are the receiver of .append/.extend are fine
        recv = {id(c.func.value) for c in ast.walk(lp) if isinstance(c, ast.Call) and isinstance(c.func, ast.Attribute) and c.func.attr in ("append", "extend")}
        bad = [x for x in reads if id(x) not in recv]
        ctx.check("R22.5", f"{fi.key}::`{a}` is only appended to inside the loop", not bad,
                  f"line {bad[0].lineno}: the loop reads `{a}` (its content depends on which samples this task holds)" if bad else None, fi, bad[0] if bad else None)


_run_c22b = run


def run(ctx):  # noqa: F811
    _run_c22b(ctx)
    r22_5(ctx, ctx.model)
    # a controller shared by all samples of a task must start every minimisation from a clean state (shared with C14)
    from .c14 import r14_5
    r14_5(ctx, ctx.model, rid="R22.6")


def r22_7(ctx, m):
    from ..util import cfg_of, known_atoms
    ctx.rule("R22.7", "distributed sample lists stay distributed: every ResidualSampleList(...) / SampleList(...) constructed in the MPI "
                      "modules receives a communicator (4th positional argument / comm=), except under a guard that the communicator "
                      "is None - a list rebuilt without it holds only the rank-local samples and every rank sees a different list", floor=4)
    n = 0
    for modn in ("nifty.cl.minimization.kl_energies", "nifty.cl.minimization.sample_list", "nifty.cl.minimization.optimize_kl"):
        mod = m.module(modn)
        for fi in mod.all_functions:
            calls = [c for c in walk_no_nested(fi.node) if isinstance(c, ast.Call) and src(c.func) in ("ResidualSampleList", "SampleList")]
            if not calls:
                continue
            ctx.saw_func(fi)
            cfg = cfg_of(fi)
            for c in calls:
                n += 1
                nm = src(c.func)
                pos = 3 if nm == "ResidualSampleList" else 1
                has = any(k.arg == "comm" for k in c.keywords) or len(c.args) > pos
                nodes = [nd for nd in cfg.nodes if nd.kind == "stmt" and nd.ast is not None and any(x is c for x in ast.walk(nd.ast))]
                serial = False
                if nodes:
                    serial = any(pol and "comm" in src(t) and src(t).endswith("is None") for t, pol in known_atoms(cfg, nodes[0].id))
                ctx.check("R22.7", f"{fi.key}::`{short(c, 60)}` keeps the communicator", has or serial,
                          None if (has or serial) else "no communicator: the new list is local to the task", fi, c)
    if not n:
        ctx.und("R22.7", "nifty/cl/minimization::sample list constructions", "none found", "nifty/cl/minimization")
    # the global index of a task's first sample (shared with C26)
    from .c26 import r26_4
    r26_4(ctx, m, rid="R22.8")


_run_c22c = run


def run(ctx):  # noqa: F811
    _run_c22c(ctx)
    r22_7(ctx, ctx.model)


# ---------------------------------------------------------------------------------------------------------------- R22.9
def r22_9(ctx, m, rid="R22.9"):
    """shareRange is a partition of range(nwork) into consecutive ranges - decided on terms, by cases"""
    from .c03 import _load_sympy
    sp = _load_sympy()
    fi = m.func("nifty.cl.utilities", "shareRange")
    ctx.rule(rid, "utilities.shareRange(nwork, nshares, k) -> (lo, hi): the shares tile range(nwork) - lo(0) = 0, hi(k) = lo(k+1) for "
                  "every k, hi(nshares-1) = nwork - read from the source as integer terms (floor division, remainder, min, int(cond), "
                  "conditional expressions) and decided by the case split k < remainder / k >= remainder with sympy as normaliser; "
                  "which samples a task draws, saves and loads hangs on it", floor=3)
    if sp is None:
        ctx.und(rid, f"{fi.key}::partition", "sympy not importable", fi)
        return
    ctx.saw_func(fi)
    pn = fi.params()
    if len(pn) != 3:
        ctx.und(rid, f"{fi.key}::partition", "signature changed", fi)
        return
    W, N, K = sp.Symbol("q", integer=True, nonnegative=True), sp.Symbol("n", integer=True, positive=True), sp.Symbol("k", integer=True, nonnegative=True)
    # nwork = q*n + a with 0 <= a < n: floor division and remainder become exact terms
    a = sp.Symbol("a", integer=True, nonnegative=True)
    base = {pn[0]: W * N + a, pn[1]: N}

    class Unmodelled(Exception):
        pass

    def tr(e, env):
        if isinstance(e, ast.Constant) and isinstance(e.value, int):
            return sp.Integer(e.value)
        if isinstance(e, ast.Name):
            if e.id in env:
                return env[e.id]
            raise Unmodelled(e.id)
        if isinstance(e, ast.BinOp):
            nw, ns = src(e.left), src(e.right)
            if isinstance(e.op, ast.FloorDiv) and nw == pn[0] and ns == pn[1]:
                return W
            if isinstance(e.op, ast.Mod) and nw == pn[0] and ns == pn[1]:
                return a
            l, r = tr(e.left, env), tr(e.right, env)
            ops = {ast.Add: l + r, ast.Sub: l - r, ast.Mult: l * r}
            if type(e.op) in ops:
                return ops[type(e.op)]
            raise Unmodelled(src(e))
        if isinstance(e, ast.Call):
            f = src(e.func)
            if f == "min" and len(e.args) == 2:
                return sp.Min(tr(e.args[0], env), tr(e.args[1], env))
            if f == "max" and len(e.args) == 2:
                return sp.Max(tr(e.args[0], env), tr(e.args[1], env))
            if f in ("int", "bool") and len(e.args) == 1:
                return sp.Piecewise((1, cond(e.args[0], env)), (0, True))
            raise Unmodelled(src(e))
        if isinstance(e, ast.IfExp):
            return sp.Piecewise((tr(e.body, env), cond(e.test, env)), (tr(e.orelse, env), True))
        if isinstance(e, ast.Compare) and len(e.ops) == 1:
            return sp.Piecewise((1, cond(e, env)), (0, True))
        raise Unmodelled(src(e))

    def cond(e, env):
        if isinstance(e, ast.Compare) and len(e.ops) == 1:
            l, r = tr(e.left, env), tr(e.comparators[0], env)
            ops = {ast.Lt: sp.Lt, ast.LtE: sp.Le, ast.Gt: sp.Gt, ast.GtE: sp.Ge, ast.Eq: sp.Eq, ast.NotEq: sp.Ne}
            if type(e.ops[0]) in ops:
                return ops[type(e.ops[0])](l, r)
        raise Unmodelled(src(e))

    def lohi(kval):
        env = dict(base)
        env[pn[2]] = kval
        for st in fi.node.body:
            if isinstance(st, ast.Expr):
                continue
            if isinstance(st, ast.Assign) and len(st.targets) == 1:
                t = st.targets[0]
                if isinstance(t, ast.Name):
                    env[t.id] = tr(st.value, env)
                    continue
                if isinstance(t, ast.Tuple) and len(t.elts) == 2 and isinstance(st.value, ast.Call) and src(st.value.func) == "divmod" \
                        and [src(z) for z in st.value.args] == [pn[0], pn[1]]:
                    env[t.elts[0].id], env[t.elts[1].id] = W, a
                    continue
                raise Unmodelled(src(st))
            if isinstance(st, ast.Return) and isinstance(st.value, ast.Tuple) and len(st.value.elts) == 2:
                return tr(st.value.elts[0], env), tr(st.value.elts[1], env)
            raise Unmodelled(src(st))
        raise Unmodelled("no return")

    t = sp.Symbol("t", integer=True, nonnegative=True)

    fresh = [0]

    def cases(e, depth=0):
        """values of e over a case split of its Piecewise conditions (conditions `s <= 0` / `s < 1` / `s >= 1` / `s > 0` on
        non-negative integer symbols are resolved by s = 0 resp. s = 1 + s'); None if a condition is not of that kind"""
        e = sp.simplify(sp.piecewise_fold(e))
        pws = list(e.atoms(sp.Piecewise))
        if not pws:
            return [e]
        if depth > 6:
            return None
        pw = pws[0]
        c = pw.args[0][1]
        sym = None
        if isinstance(c, (sp.Le, sp.Lt, sp.Ge, sp.Gt, sp.Eq, sp.Ne)):
            fs = [x for x in c.free_symbols if x.is_nonnegative]
            if len(fs) == 1 and sp.simplify(c.subs(fs[0], 0)) in (sp.true, sp.false) :
                sym = fs[0]
        if sym is None:
            return None
        fresh[0] += 1
        s2 = sp.Symbol(f"{sym.name}_{fresh[0]}", integer=True, nonnegative=True)
        out = []
        for sub in (0, 1 + s2):
            r = cases(e.subs(sym, sub), depth + 1)
            if r is None:
                return None
            out += r
        return out

    def zero(e):
        cs = cases(e)
        if cs is None:
            return None
        if all(c == 0 for c in cs):
            return True
        return False
    try:
        obligations = []
        # case A: k = a - 1 - t  (k < a; needs a >= 1 + t): write a = k + 1 + t
        # case B: k = a + t      (k >= a)
        for name, sub_a, kk in (("k < remainder", K + 1 + t, K), ("k >= remainder", None, None)):
            if sub_a is not None:
                lo0, hi0 = lohi(K)
                lo1, _ = lohi(K + 1)
                d = (lo1 - hi0).subs(a, sub_a)
            else:
                lo0, hi0 = lohi(a + t)
                lo1, _ = lohi(a + t + 1)
                d = lo1 - hi0
            obligations.append((f"hi(k) == lo(k+1) for {name}", zero(d), f"lo(k+1) - hi(k) = {sp.simplify(sp.piecewise_fold(d))}"))
        lo_first, _ = lohi(sp.Integer(0))
        obligations.append(("lo(0) == 0", zero(lo_first), f"lo(0) = {sp.simplify(sp.piecewise_fold(lo_first))}"))
        # last share: k = n - 1 >= a because a < n: write n = a + 1 + t
        _, hi_last = lohi(N - 1)
        d = (hi_last - (W * N + a)).subs(N, a + 1 + t)
        obligations.append(("hi(nshares-1) == nwork", zero(d), f"hi(n-1) - nwork = {sp.simplify(sp.piecewise_fold(d))}"))
        for nm, ok_, det in obligations:
            ctx.check(rid, f"{fi.key}::{nm}", ok_, det, fi)
    except Unmodelled as ex:
        ctx.und(rid, f"{fi.key}::partition", f"term not modelled: {ex}", fi)


_run_c22d = run


def run(ctx):  # noqa: F811
    _run_c22d(ctx)
    r22_9(ctx, ctx.model)


# ---------------------------------------------------------------------------------------------------------------- R22.10
def r22_10(ctx, m, rid="R22.10"):
    """a communicator handed to a callee lands in the callee's `comm` parameter"""
    ctx.rule(rid, "MPI modules of nifty.cl.minimization: wherever a call passes the communicator (an expression `comm`, `self._comm`, "
                  "`comm(i)`) to a library function or constructor that HAS a parameter named comm, it is bound to that parameter "
                  "(resolved by position or keyword against the callee's signature) - a communicator in another slot (a truthy "
                  "object where a flag is expected) silently changes what is computed and leaves the result undistributed", floor=10)
    mods = [mod for mod in m.modules.values() if mod.name.startswith("nifty.cl.minimization")]
    # callable table: plain functions, classes (-> __init__), Class.method for static/class methods
    table = {}
    for mod in m.modules.values():
        if not mod.name.startswith("nifty.cl."):
            continue
        for fn_name, fi in mod.functions.items():
            table.setdefault(fn_name, []).append((fi, 0))
        for cn, c in mod.classes.items():
            if "__init__" in c.methods:
                table.setdefault(cn, []).append((c.methods["__init__"], 1))
            for mn_, mf in c.methods.items():
                deco = [src(d) for d in mf.node.decorator_list]
                skip = 0 if "staticmethod" in deco else 1
                table.setdefault(f"{cn}.{mn_}", []).append((mf, skip))
    n = 0
    for mod in mods:
        for fi in mod.all_functions:
            for c in walk_no_nested(fi.node):
                if not isinstance(c, ast.Call):
                    continue
                cname = src(c.func)
                cands = table.get(cname) or table.get(cname.split(".")[-1] if cname.count(".") == 0 else cname)
                if not cands or len(cands) != 1:
                    continue
                callee, skip = cands[0]
                params = callee.params()[skip:]
                if "comm" not in params:
                    continue
                binds = []   # (param name, arg expr)
                ok_bind = True
                for i, a in enumerate(c.args):
                    if isinstance(a, ast.Starred) or i >= len(params):
                        ok_bind = False
                        break
                    binds.append((params[i], a))
                for k in c.keywords:
                    if k.arg is None:
                        ok_bind = False
                        break
                    binds.append((k.arg, k.value))
                if not ok_bind:
                    continue

                def is_comm(e):
                    t = src(e)
                    return t in ("comm", "self._comm", "self.comm") or (isinstance(e, ast.Call) and src(e.func) == "comm")
                comm_args = [(p, a) for p, a in binds if is_comm(a)]
                if not comm_args:
                    continue
                n += 1
                ctx.saw_func(fi)
                wrong = [(p, src(a)) for p, a in comm_args if p != "comm"]
                ctx.check(rid, f"{fi.key}::`{short(c, 50)}` binds the communicator to `comm`", not wrong,
                          f"`{wrong[0][1]}` is bound to parameter `{wrong[0][0]}` of {callee.qualname}" if wrong else "", fi, c)
    if not n:
        ctx.und(rid, "nifty.cl.minimization::communicator arguments", "no resolvable call passes a communicator", "nifty/cl/minimization")


_run_c22e = run


def run(ctx):  # noqa: F811
    _run_c22e(ctx)
    r22_10(ctx, ctx.model)
