"""C23 - distributed summation: premises P1-P4 of the deadlock-freedom / partition-independence argument."""
import ast

from ..cfg import Atoms
from ..model import src, short, walk_no_nested, call_name, stmt_targets
from ..util import cfg_of, find_nodes, known_atoms, guards

MOD = "nifty.cl.utilities"
COLLECTIVES = {"allgather", "allreduce", "bcast", "Bcast", "Allreduce", "Allgather", "gather", "scatter", "Barrier",
               "_bcast", "reduce"}
RANK_SOURCES = {"Get_rank"}


def rank_taint(fi, seeds, collective_clean=True):
    """Flow-insensitive taint closure over simple assignments.  Results of collectives are uniform (clean)."""
    tainted = set(seeds)
    changed = True
    assigns = []
    for st in walk_no_nested(fi.node):
        if isinstance(st, (ast.Assign, ast.AugAssign, ast.AnnAssign)) and getattr(st, "value", None) is not None:
            assigns.append((st, [t for t in stmt_targets(st)], st.value))
        elif isinstance(st, (ast.For,)):
            assigns.append((st, [t for t in stmt_targets(st)], st.iter))
    while changed:
        changed = False
        for st, tg, val in assigns:
            if _tainted_expr(val, tainted, collective_clean):
                for t in tg:
                    nm = t.id if isinstance(t, ast.Name) else (t.value.id if isinstance(t, ast.Subscript) and isinstance(t.value, ast.Name) else None)
                    if nm and nm not in tainted:
                        tainted.add(nm)
                        changed = True
    return tainted


def _tainted_expr(e, tainted, collective_clean=True):
    if isinstance(e, ast.Call):
        nm = call_name(e)
        if nm in RANK_SOURCES:
            return True
        if collective_clean and nm in COLLECTIVES:
            return False
    if isinstance(e, ast.Name):
        return e.id in tainted
    if isinstance(e, (ast.ListComp, ast.GeneratorExp, ast.SetComp, ast.DictComp)):
        bound = set()
        for g in e.generators:
            if _tainted_expr(g.iter, tainted - bound, collective_clean):
                return True
            for t in ast.walk(g.target):
                if isinstance(t, ast.Name):
                    bound.add(t.id)
        inner = tainted - bound
        parts = [e.key, e.value] if isinstance(e, ast.DictComp) else [e.elt]
        return any(_tainted_expr(p, inner, collective_clean) for p in parts) or \
            any(_tainted_expr(c, inner, collective_clean) for g in e.generators for c in g.ifs)
    return any(_tainted_expr(c, tainted, collective_clean) for c in ast.iter_child_nodes(e))


def _role_guard(test, rankname):
    """rank == X  (X arbitrary) -> text of X, else None"""
    if isinstance(test, ast.Compare) and len(test.ops) == 1 and isinstance(test.ops[0], ast.Eq):
        l, r = test.left, test.comparators[0]
        if isinstance(l, ast.Name) and l.id == rankname:
            return r
        if isinstance(r, ast.Name) and r.id == rankname:
            return l
    return None


def run(ctx):
    m = ctx.model
    ars = m.func(MOD, "allreduce_sum")
    snd = m.func(MOD, "_send")
    rcv = m.func(MOD, "_recv")
    bc = m.func(MOD, "_bcast")
    for f in (ars, snd, rcv, bc):
        ctx.saw_func(f)
    cfg = cfg_of(ars)
    at = Atoms(ars.node)
    dis = at.disabled_edges(cfg, {"comm": "truthy"})  # multi-task case: comm is not None
    # rank variable
    rankname = None
    for st in walk_no_nested(ars.node):
        if isinstance(st, ast.Assign) and isinstance(st.value, ast.Call) and call_name(st.value) == "Get_rank":
            rankname = st.targets[0].id
        # ntask, rank, master = get_MPI_params_from_comm(comm)
        if isinstance(st, ast.Assign) and isinstance(st.value, ast.Call) and call_name(st.value) == "get_MPI_params_from_comm" \
                and isinstance(st.targets[0], ast.Tuple) and len(st.targets[0].elts) == 3 and isinstance(st.targets[0].elts[1], ast.Name):
            rankname = st.targets[0].elts[1].id
    if rankname is None:
        ctx.error("allreduce_sum: rank = comm.Get_rank() not found")
        return
    params = ars.params()
    # P1 -------------------------------------------------------------------------------------------
    ctx.rule("R23.1", "P1: every task executes the same sequence of pair steps: loop bounds and conditions of the pairing "
                      "loop are not tainted by the task rank / local data (collective results are uniform); the rank occurs "
                      "only in the role-selecting guards", floor=4)
    reach = cfg.reachable(cfg.entry.id, disabled=dis)
    # names defined only in the single-process branch are irrelevant: taint over statements reachable with comm set
    seeds = {rankname, params[0]}
    live_stmts = {id(cfg.nodes[i].ast) for i in reach if cfg.nodes[i].ast is not None}

    class _F:  # restricted view for rank_taint
        node = ars.node
    tainted = set(seeds)
    changed = True
    while changed:
        changed = False
        for i in sorted(reach):
            n = cfg.nodes[i]
            if n.kind == "stmt" and isinstance(n.ast, (ast.Assign, ast.AugAssign)):
                if _tainted_expr(n.ast.value, tainted):
                    for t in stmt_targets(n.ast):
                        nm = t.id if isinstance(t, ast.Name) else (
                            t.value.id if isinstance(t, ast.Subscript) and isinstance(t.value, ast.Name) else None)
                        if nm and nm not in tainted:
                            tainted.add(nm)
                            changed = True
    ctx.extra["rank_tainted_names"] = sorted(tainted)
    loop_tests = []
    whiles = [n for n in cfg.nodes if n.kind == "test" and n.loop is not None and n.id in reach]
    if not whiles:
        ctx.error("allreduce_sum: pairing while-loop not found")
        return
    W = whiles[0]
    inside = set()
    for x in ast.walk(W.loop):
        inside.add(id(x))
    role_guards = []
    for i in sorted(reach):
        n = cfg.nodes[i]
        if n.ast is None or id(n.ast) not in inside and n is not W:
            continue
        if n.kind == "test":
            rg = _role_guard(n.ast, rankname)
            key = f"{ars.key}::condition `{src(n.ast)}`"
            if rg is not None:
                ok_ = not _tainted_expr(rg, tainted)
                role_guards.append((n, rg))
                ctx.check("R23.1", key, ok_, "role guard compares the rank with a rank-dependent value", ars, n.ast)
            else:
                ctx.check("R23.1", key, not _tainted_expr(n.ast, tainted),
                          "a condition of the pairing loop depends on the task rank or on local data: tasks would disagree "
                          "on the sequence of pair steps", ars, n.ast)
        elif n.kind == "for" and n.first:
            ctx.check("R23.1", f"{ars.key}::loop bound `{src(n.ast.iter)}`", not _tainted_expr(n.ast.iter, tainted),
                      "loop bound depends on the task rank or on local data", ars, n.ast)
    # updates of loop-steering variables are rank independent too
    for i in sorted(reach):
        n = cfg.nodes[i]
        if n.kind == "stmt" and isinstance(n.ast, (ast.Assign, ast.AugAssign)) and n.ast is not None and id(n.ast) in inside:
            for t in stmt_targets(n.ast):
                if isinstance(t, ast.Name) and t.id in {x.id for x in ast.walk(W.ast) if isinstance(x, ast.Name)}:
                    g = [src(tt) for tt, pol in known_atoms(cfg, n.id, dis) if _tainted_expr(tt, tainted)]
                    ctx.check("R23.1", f"{ars.key}::update `{n.text()}` of the loop variable is unconditional in the rank",
                              not g and not _tainted_expr(n.ast.value, tainted), f"guarded by {g}", ars, n.ast)

    # collectives inside allreduce_sum are unconditional in the rank
    for n, c in find_nodes(cfg, lambda q: isinstance(q, ast.Call) and call_name(q) in COLLECTIVES):
        if n.id not in reach:
            continue
        g = [src(t) for t, pol in known_atoms(cfg, n.id, dis) if _tainted_expr(t, tainted)]
        ctx.check("R23.1", f"{ars.key}::collective `{short(c, 50)}` is unconditional in the rank", not g,
                  f"collective guarded by rank-dependent condition {g}: tasks that skip it leave the others blocked", ars, c)

    # P2 -------------------------------------------------------------------------------------------
    ctx.rule("R23.2", "P2: send and receive of one pair step address each other: receive guard rank==A with source B, send "
                      "guard rank==B with dest A, the two roles are mutually exclusive, the local branch is taken iff A==B", floor=4)
    recvs = [(n, c) for n, c in find_nodes(cfg, lambda q: isinstance(q, ast.Call) and call_name(q) == "_recv") if n.id in reach]
    sends = [(n, c) for n, c in find_nodes(cfg, lambda q: isinstance(q, ast.Call) and call_name(q) == "_send") if n.id in reach]
    if len(recvs) != 1 or len(sends) != 1:
        ctx.bad("R23.2", f"{ars.key}::one send and one receive per pair step", f"{len(sends)} sends, {len(recvs)} receives", ars)
        return
    (rn, rc), (sn, sc) = recvs[0], sends[0]

    def kwarg(c, name, pos):
        for kw in c.keywords:
            if kw.arg == name:
                return kw.value
        return c.args[pos] if len(c.args) > pos else None
    r_atoms = known_atoms(cfg, rn.id, dis)
    s_atoms = known_atoms(cfg, sn.id, dis)
    A = [(_role_guard(t, rankname)) for t, pol in r_atoms if pol and _role_guard(t, rankname) is not None]
    Bp = [(_role_guard(t, rankname)) for t, pol in s_atoms if pol and _role_guard(t, rankname) is not None]
    Aneg = [(_role_guard(t, rankname)) for t, pol in s_atoms if not pol and _role_guard(t, rankname) is not None]
    src_e = kwarg(rc, "source", 1)
    dst_e = kwarg(sc, "dest", 2)
    if len(A) != 1 or len(Bp) != 1 or src_e is None or dst_e is None:
        ctx.und("R23.2", f"{ars.key}::role guards", f"guards not recognised: recv under {[src(a) for a in A]}, send under {[src(b) for b in Bp]}", ars)
    else:
        a, b = src(A[0]), src(Bp[0])
        ctx.check("R23.2", f"{ars.key}::receiver (rank == {a}) receives from the sender's rank", src(src_e) == b,
                  f"source is `{src(src_e)}`, sender is selected by rank == {b}", ars, rc)
        ctx.check("R23.2", f"{ars.key}::sender (rank == {b}) sends to the receiver's rank", src(dst_e) == a,
                  f"dest is `{src(dst_e)}`, receiver is selected by rank == {a}", ars, sc)
        ctx.check("R23.2", f"{ars.key}::roles are mutually exclusive", any(src(x) == a for x in Aneg),
                  "the send is not in the else-branch of the receiver guard", ars, sc)
        # local branch: A == B
        loc = [(t, pol) for t, pol in r_atoms if isinstance(t, ast.Compare) and not _role_guard(t, rankname)
               and {src(t.left), src(t.comparators[0])} == {a, b}]
        ctx.check("R23.2", f"{ars.key}::communication happens exactly when the partners live on different tasks",
                  len(loc) == 1 and loc[0][1] is False and isinstance(loc[0][0].ops[0], ast.Eq),
                  f"guards of the receive: {[('' if p else 'not ') + src(t) for t, p in r_atoms]}", ars, rc)
        # the object sent is the partner's slot and the receive is added into the receiver's slot
        idx_a = A[0].slice if isinstance(A[0], ast.Subscript) else None
        idx_b = Bp[0].slice if isinstance(Bp[0], ast.Subscript) else None
        sent = sc.args[1] if len(sc.args) > 1 else None
        ctx.check("R23.2", f"{ars.key}::the value sent is the partner slot",
                  sent is not None and isinstance(sent, ast.Subscript) and idx_b is not None and src(sent.slice) == src(idx_b),
                  f"sends `{src(sent)}`, partner index `{src(idx_b)}`", ars, sc)

    # P3 -------------------------------------------------------------------------------------------
    ctx.rule("R23.3", "P3: the message sub-protocols of _send and _recv match element by element for every type branch; "
                      "_bcast performs its collectives unconditionally in the rank", floor=5)
    ps, pr = _protocol(snd, "send"), _protocol(rcv, "recv")
    ctx.extra["send_protocol"] = {k: v for k, v in ps}
    ctx.extra["recv_protocol"] = {k: v for k, v in pr}
    ks, kr = [k for k, _ in ps], [k for k, _ in pr]
    ctx.check("R23.3", f"{MOD}::_send/_recv branch on the same types in the same order", ks == kr, f"{ks} vs {kr}", snd)
    mp = {"send": "recv", "Send": "Recv", "_send": "_recv"}
    for (k, a_), (k2, b_) in zip(ps, pr):
        conv = [_conv(x, mp) for x in a_]
        ctx.check("R23.3", f"{MOD}::_send/_recv protocol for `{k}`", conv == b_ and k == k2, f"send side {a_} vs receive side {b_}", snd)
    # every point-to-point call names its peer: the receive must come from the pairing partner, not from whoever sends first
    for fi, kinds, peer in ((snd, ("send", "Send"), "dest"), (rcv, ("recv", "Recv"), "source")):
        pp = fi.params()
        pname = peer if peer in pp else None
        for c in [c for c in ast.walk(fi.node) if isinstance(c, ast.Call) and isinstance(c.func, ast.Attribute) and c.func.attr in kinds
                  and src(c.func.value) == pp[0]]:
            named = any(kw.arg == peer and src(kw.value) == pname for kw in c.keywords) or \
                any(isinstance(a, ast.Name) and a.id == pname for a in c.args)
            ctx.check("R23.3", f"{fi.key}::`{short(c, 50)}` addresses the pairing partner (`{peer}`)", named and pname is not None,
                      f"the {peer} is not passed: a receive from any source takes whichever message arrives first, so the value that is "
                      "added depends on the schedule" if peer == "source" else f"the {peer} is not passed", fi, c)
        for c in [c for c in ast.walk(fi.node) if isinstance(c, ast.Call) and call_name(c) == fi.name]:
            a = [src(x) for x in c.args] + [f"{k.arg}={src(k.value)}" for k in c.keywords]
            ctx.check("R23.3", f"{fi.key}::nested `{short(c, 50)}` keeps communicator and partner",
                      a[0] == pp[0] and (pname in a or f"{peer}={pname}" in a), str(a), fi, c)
    # _bcast: collectives not guarded by rank-dependent conditions
    bcfg = cfg_of(bc)
    from ..taint import Taint
    bt = Taint(bcfg, bc.params(), clean_calls={"bcast", "Bcast", "_bcast"})
    for n, c in find_nodes(bcfg, lambda q: isinstance(q, ast.Call) and call_name(q) in ("bcast", "Bcast", "_bcast")):
        g = []
        for tn in bcfg.nodes:
            if tn.kind == "test" and any(tt is tn.ast for tt, pol in guards(bcfg, n.id)) and bt.expr_tainted(tn.ast, tn.id):
                g.append(src(tn.ast))
        ctx.check("R23.3", f"{bc.key}::`{short(c, 60)}` is unconditional in the rank", not g,
                  f"collective guarded by rank-dependent condition {g}", bc, c)
        root = [kw.value for kw in c.keywords if kw.arg == "root"] or ([c.args[-1]] if c.args else [])
        ctx.check("R23.3", f"{bc.key}::`{short(c, 60)}` uses the caller's root", bool(root) and src(root[0]) == "root", None, bc, c)

    # P4 -------------------------------------------------------------------------------------------
    ctx.rule("R23.4", "P4: accumulator on the left / partner on the right in both additions, partner slot cleared after "
                      "use, result taken from slot 0 and broadcast from its owner; the same loop serves comm=None", floor=5)
    adds = [n for n in cfg.nodes if n.id in reach and n.kind == "stmt" and isinstance(n.ast, ast.Assign)
            and isinstance(n.ast.value, ast.BinOp) and isinstance(n.ast.value.op, ast.Add) and id(n.ast) in inside]
    ctx.check("R23.4", f"{ars.key}::two additions (local and remote partner)", len(adds) == 2, f"found {len(adds)}", ars)
    for n in adds:
        tgt = src(n.ast.targets[0])
        ops = [n.ast.value.left, n.ast.value.right]
        acc = [o for o in ops if src(o) == tgt]
        other = [o for o in ops if src(o) != tgt]
        partner_ok = len(other) == 1 and (
            (isinstance(other[0], ast.Call) and call_name(other[0]) == "_recv") or
            (isinstance(other[0], ast.Subscript) and src(other[0].value) == "vals" and 'A' in dir() and len(Bp) == 1
             and isinstance(Bp[0], ast.Subscript) and src(other[0].slice) == src(Bp[0].slice)))
        ctx.check("R23.4", f"{ars.key}::`{n.text()}` adds the partner value to the accumulator slot", len(acc) == 1 and partner_ok,
                  "the addition does not combine the accumulator slot with the partner's value", ars, n.ast)
        if 'A' in dir() and len(A) == 1 and isinstance(A[0], ast.Subscript):
            ctx.check("R23.4", f"{ars.key}::`{n.text()}` accumulates into the receiver's slot", tgt == f"vals[{src(A[0].slice)}]",
                      f"target `{tgt}`, receiver slot index `{src(A[0].slice)}`", ars, n.ast)
    clears = [n for n in cfg.nodes if n.id in reach and n.kind == "stmt" and isinstance(n.ast, ast.Assign)
              and isinstance(n.ast.value, ast.Constant) and n.ast.value.value is None and src(n.ast.targets[0]).startswith("vals[")]
    ctx.check("R23.4", f"{ars.key}::partner slot cleared after local add and after send", len(clears) == 2, f"found {len(clears)}", ars)
    rets = [n for n in cfg.nodes if n.kind == "stmt" and isinstance(n.ast, ast.Return)]
    for r in rets:
        v = r.ast.value
        if isinstance(v, ast.Call) and call_name(v) == "_bcast":
            ctx.check("R23.4", f"{ars.key}::result is slot 0 broadcast from its owner",
                      len(v.args) >= 2 and isinstance(v.args[1], ast.Subscript) and src(v.args[1].slice) == "0" and any(
                          kw.arg == "root" and isinstance(kw.value, ast.Subscript) and src(kw.value.slice) == "0"
                          and 'A' in dir() and len(A) == 1 and isinstance(A[0], ast.Subscript) and src(kw.value.value) == src(A[0].value)
                          for kw in v.keywords),
                      src(v), ars, r.ast)
        else:
            ctx.check("R23.4", f"{ars.key}::single-process result is slot 0", isinstance(v, ast.Subscript) and src(v.slice) == "0", src(v), ars, r.ast)
    # slot layout: the list entering the pairing loop is exactly the local summands padded with None at the global positions;
    # nothing is pre-reduced locally (that would change the summation tree for some partitions)
    rdv = cfg.reaching_defs(ars.params(), disabled=dis)
    REDUCERS = {"allreduce_sum", "sum", "my_sum", "reduce", "fsum", "add"}

    def classify_vals_def(e):
        """'raw' | 'pad' | 'reduced' | None"""
        if isinstance(e, ast.Call) and isinstance(e.func, ast.Name) and e.func.id in ("list", "tuple") and len(e.args) == 1 \
                and isinstance(e.args[0], ast.Name) and e.args[0].id == ars.params()[0]:
            return "raw"
        if any(isinstance(c, ast.Call) and call_name(c) in REDUCERS for c in ast.walk(e)):
            return "reduced"
        parts = []

        def flat(x):
            if isinstance(x, ast.BinOp) and isinstance(x.op, ast.Add):
                flat(x.left)
                flat(x.right)
            else:
                parts.append(x)
        flat(e)
        if len(parts) >= 2 and all((isinstance(p_, ast.Name) and p_.id == "vals") or
                                   (isinstance(p_, ast.BinOp) and isinstance(p_.op, ast.Mult) and src(p_.left) == "[None]") for p_ in parts) \
                and sum(isinstance(p_, ast.Name) for p_ in parts) == 1:
            return "pad"
        return None
    verdict, forms = True, []
    todo = [(W.id, "vals")]
    visited = set()
    while todo:
        nid, nm = todo.pop()
        for d in (rdv[nid] or {}).get(nm, frozenset()):
            if d in visited:
                continue
            visited.add(d)
            dn = cfg.nodes[d]
            if dn.kind != "stmt" or not isinstance(dn.ast, ast.Assign) or not isinstance(dn.ast.targets[0], ast.Name):
                continue
            k = classify_vals_def(dn.ast.value)
            forms.append((src(dn.ast.value)[:60], k))
            if k == "reduced":
                verdict = False
            elif k is None and verdict:
                verdict = None
            elif k == "pad":
                todo.append((d, "vals"))
    ctx.check("R23.4", f"{ars.key}::slots entering the pairing loop are the raw local summands at their global positions", verdict if forms else None,
              f"definitions of vals reaching the loop: {forms}: a local pre-reduction changes the summation tree (and with it the rounding) "
              "for the partitions it applies to", ars)
    cnt_defs = [n for n in cfg.nodes if n.id in reach and n.kind == "stmt" and isinstance(n.ast, ast.Assign)
                and any(isinstance(t, ast.Name) and t.id == "nobj_list" for t in n.ast.targets)]
    cv = True
    for n in cnt_defs:
        if any(isinstance(c, ast.Call) and call_name(c) == "allgather" for c in ast.walk(n.ast.value)):
            continue
        cv = None if isinstance(n.ast.value, ast.Name) and cv else False
    ctx.check("R23.4", f"{ars.key}::global slot counts come from the allgather of the local counts only", cv if cnt_defs else None,
              str([src(n.ast.value) for n in cnt_defs]), ars)
    # one loop for both cases: the while loop is reachable with comm None as well
    dis0 = at.disabled_edges(cfg, {"comm": "none"})
    ctx.check("R23.4", f"{ars.key}::the same pairing loop serves comm=None", W.id in cfg.reachable(cfg.entry.id, disabled=dis0), None, ars)


def _conv(x, mp):
    if isinstance(x, list):
        return [_conv(y, mp) for y in x]
    head, _, rest = x.partition("(")
    return mp.get(head, head) + ("(" + rest if rest else "")


def _protocol(fi, kind):
    """[(branch key, [op sequence])] where branch key is the type tested by `dtype is T`."""
    out = []

    def seq(body):
        s = []
        for st in body:
            if isinstance(st, ast.For):
                inner = seq(st.body)
                if inner:
                    s.append(["loop"] + inner)
                continue
            if isinstance(st, (ast.If,)):
                continue
            for c in [x for x in walk_no_nested(st, include_self=True) if isinstance(x, ast.Call)]:
                nm = call_name(c)
                if nm in ("send", "recv", "Send", "Recv"):
                    s.append(nm)
                elif nm in ("_send", "_recv"):
                    # type argument
                    targ = None
                    for kw in c.keywords:
                        if kw.arg == "dtype":
                            targ = kw.value
                    if targ is None and c.args:
                        targ = c.args[-1]
                    t = src(targ)
                    t = "<dyn>" if t not in ("tuple", "Field", "MultiField") else t
                    s.append(f"{nm}({t})")
        # order calls by position
        return s

    def branch(stmts, prefix_default=True):
        i = 0
        for st in stmts:
            if isinstance(st, ast.If) and isinstance(st.test, ast.Compare) and isinstance(st.test.ops[0], ast.Is):
                cur = st
                while True:
                    out.append((src(cur.test.comparators[0]), seq(cur.body)))
                    if len(cur.orelse) == 1 and isinstance(cur.orelse[0], ast.If):
                        cur = cur.orelse[0]
                    else:
                        if cur.orelse:
                            out.append(("<else>", seq(cur.orelse)))
                        break
        # default: trailing statements after the last type chain
        is_chain = [isinstance(st, ast.If) and isinstance(st.test, ast.Compare) and isinstance(st.test.ops[0], ast.Is) for st in stmts]
        last = max([i for i, f in enumerate(is_chain) if f], default=-1)
        tail = list(stmts[last + 1:]) if last >= 0 else []
        out.append(("<default>", seq(tail)))
    branch(fi.node.body)
    # several chains may test the same type (e.g. a coercion block before the protocol block): merge them in order
    merged, pos = [], {}
    for k, v in out:
        if k in pos:
            merged[pos[k]] = (k, merged[pos[k]][1] + v)
        else:
            pos[k] = len(merged)
            merged.append((k, v))
    return merged


# ---------------------------------------------------------------------------------------------------------------- R23.5 / R23.6
def r23_5(ctx, m):
    from ..util import cfg_of, find_nodes, known_atoms
    from ..terms import inline_at
    UT_ = "nifty.cl.utilities"
    mod = m.module(UT_)
    ctx.rule("R23.5", "raw-array payloads: in the ndarray branch of _send the object handed to comm.Send is C-contiguous on every path "
                      "(np.ascontiguousarray, or a bypass guarded by a C-contiguity test; the receiver allocates a C-ordered buffer) and "
                      "the payload is coerced to an array before its type is asserted (partial sums of 0-d arrays are numpy scalars)", floor=2)
    sd = mod.functions.get("_send")
    if sd is None:
        ctx.error("_send missing")
        return
    ctx.saw_func(sd)
    cfg = cfg_of(sd)
    rd = cfg.reaching_defs(sd.params())
    on = sd.params()[1]
    dn = sd.params()[3] if len(sd.params()) > 3 else "dtype"
    sends = [(n, c) for n, c in find_nodes(cfg, lambda q: isinstance(q, ast.Call) and isinstance(q.func, ast.Attribute) and q.func.attr == "Send")]
    key = f"{sd.key}::buffer given to comm.Send is C-contiguous on every path"
    if len(sends) != 1 or not sends[0][1].args:
        ctx.und("R23.5", key, f"{len(sends)} raw Send calls", sd)
    else:
        n, c = sends[0]
        arg = c.args[0]
        verdict, det = True, []
        defs = sorted((rd.get(n.id) or {}).get(arg.id, ())) if isinstance(arg, ast.Name) else []
        if not defs:
            verdict = None
        for d in defs:
            dnode = cfg.nodes[d]
            if dnode.kind == "stmt" and isinstance(dnode.ast, ast.Assign):
                v = dnode.ast.value
                contig = any(isinstance(x, ast.Call) and call_name(x) in ("ascontiguousarray",) for x in ast.walk(v)) or \
                    (isinstance(v, ast.Call) and call_name(v) in ("array", "require") and any(k.arg in ("order", "requirements") and "C" in src(k.value) for k in v.keywords))
                coerce_only = isinstance(v, ast.Call) and call_name(v) in ("asarray", "asanyarray") and not contig
                if contig:
                    continue
                if coerce_only:
                    # a later definition must make it contiguous; this one reaching Send directly means a bypass
                    pass
            # this definition (parameter or non-normalising assignment) reaches Send: the path must be guarded by C-contiguity
            at = known_atoms(cfg, n.id)
            # guards that hold on the path from this definition: approximate by the tests dominating the normalising assignment's sibling branch
            guards_ = []
            for t in cfg.nodes:
                if t.kind == "test":
                    for b, lab in cfg.succ[t.id]:
                        # the edge that skips the normalisation
                        pass
            bg = _bypass_guards(cfg, d, n.id, arg.id if isinstance(arg, ast.Name) else None)
            txt = [(src(t).replace(" ", ""), pol) for t, pol in bg]
            ok_guard = bool(bg) and _implies_c_contiguous(bg)
            if not ok_guard:
                verdict = False
                det.append(f"the value bound at `{short(dnode.ast) if dnode.ast is not None else 'entry'}` reaches comm.Send without np.ascontiguousarray"
                           + (f" (bypass guarded by {[('' if p else 'not ') + s_ for s_, p in txt]}; only C-contiguity justifies it)" if txt else ""))
        ctx.check("R23.5", key, verdict, "; ".join(det) or None, sd, c)
    # coercion before the assertion
    asserts = [n for n in cfg.nodes if n.kind in ("stmt", "test") and isinstance(n.ast, ast.Assert) and "isinstance" in src(n.ast.test)]
    key = f"{sd.key}::array payload is coerced before its type is asserted"
    if not asserts:
        ctx.ok("R23.5", key, "no type assertion", sd)
    else:
        a = asserts[0]
        # on the path dtype is np.ndarray: a definition `obj = np.asarray(obj)` must reach the assertion
        defs = (rd.get(a.id) or {}).get(on, frozenset())
        coerced = any(cfg.nodes[d].kind == "stmt" and isinstance(cfg.nodes[d].ast, ast.Assign) and isinstance(cfg.nodes[d].ast.value, ast.Call)
                      and call_name(cfg.nodes[d].ast.value) in ("asarray", "ascontiguousarray", "asanyarray", "atleast_1d") and
                      any(pol and src(t).replace(" ", "") in (f"{dn}isnp.ndarray", f"{dn}==np.ndarray") for t, pol in known_atoms(cfg, d)) for d in defs)
        ctx.check("R23.5", key, coerced, None if coerced else f"`{short(a.ast)}` sees the raw partial sum: np.array(1.) + np.array(2.) is a numpy scalar, "
                  f"not an ndarray, so the task raises and its partner waits forever", sd, a.ast)


def _implies_c_contiguous(guards_):
    """do the guards (test, polarity) that hold on the bypass path imply C-contiguity?  truth table over the flag atoms"""
    import itertools
    atoms = {}

    def ev(t, val):
        if isinstance(t, ast.UnaryOp) and isinstance(t.op, ast.Not):
            return not ev(t.operand, val)
        if isinstance(t, ast.BoolOp):
            vs = [ev(x, val) for x in t.values]
            return all(vs) if isinstance(t.op, ast.And) else any(vs)
        k = src(t).replace(" ", "")
        if k.endswith(".flags.c_contiguous") or k.endswith("flags['C_CONTIGUOUS']") or k.endswith('flags["C_CONTIGUOUS"]'):
            return val["C"]
        if k.endswith(".flags.f_contiguous") or k.endswith("flags['F_CONTIGUOUS']") or k.endswith('flags["F_CONTIGUOUS"]'):
            return val["F"]
        if k.endswith(".flags.forc"):
            return val["C"] or val["F"]
        if k.endswith(".flags.fnc"):
            return val["F"] and not val["C"]
        if k.endswith(".flags.contiguous"):
            return val["C"]
        atoms.setdefault(k, len(atoms))
        return val.get(k, False)
    # collect free atoms first
    for t, pol in guards_:
        ev(t, {"C": False, "F": False})
    free = sorted(atoms)
    for bits in itertools.product([False, True], repeat=2 + len(free)):
        val = {"C": bits[0], "F": bits[1]}
        val.update({k: b for k, b in zip(free, bits[2:])})
        if all(ev(t, val) == pol for t, pol in guards_) and not val["C"]:
            return False
    return True


def _bypass_guards(cfg, def_id, use_id, name):
    """tests (with polarity) on some path from the definition to the use that does not pass another definition of `name`"""
    out = []
    redef = [x.id for x in cfg.nodes if name in (cfg.node_defs(x) or ()) and x.id != def_id]
    reach = cfg.reachable(def_id, avoid=redef, include_exc=False) if def_id != cfg.entry.id else cfg.reachable(cfg.entry.id, avoid=redef, include_exc=False)
    for t in cfg.nodes:
        if t.kind != "test" or t.id not in reach:
            continue
        for b, lab in cfg.succ[t.id]:
            if lab in ("T", "F") and b not in redef:
                r2 = cfg.reachable(b, avoid=redef, include_exc=False)
                if use_id in r2:
                    # does the other edge lead into a redefinition before the use?
                    others = [bb for bb, ll in cfg.succ[t.id] if ll != lab]
                    if any(use_id not in cfg.reachable(bb, avoid=redef, include_exc=False) or bb in redef for bb in others):
                        out.append((t.ast, lab == "T"))
    return out


def r23_6(ctx, m):
    mod = m.module("nifty.cl.utilities")
    ctx.rule("R23.6", "_bcast: the task that provides the payload is the one whose rank equals the root of the collectives "
                      "(master = rank == root), every collective of the function uses that root, and the result is returned by all", floor=2)
    bc = mod.functions.get("_bcast")
    if bc is None:
        ctx.error("_bcast missing")
        return
    ctx.saw_func(bc)
    cn, on, rn = bc.params()[:3]
    # the flag that selects `obj` over None
    flags = set()
    for x in ast.walk(bc.node):
        if isinstance(x, ast.IfExp) and isinstance(x.test, ast.Name):
            flags.add(x.test.id)
    key = f"{bc.key}::payload provider is the task with rank == root"
    if len(flags) != 1:
        ctx.und("R23.6", key, f"selector flags {sorted(flags)}", bc)
    else:
        fl = flags.pop()
        defs = [st for st in walk_no_nested(bc.node) if isinstance(st, ast.Assign) and any(isinstance(t, ast.Name) and t.id == fl for t in
                                                                                         (st.targets[0].elts if isinstance(st.targets[0], ast.Tuple) else st.targets))]
        okk = len(defs) == 1 and src(defs[0].value).replace(" ", "") in (f"{cn}.Get_rank()=={rn}", f"{rn}=={cn}.Get_rank()")
        ctx.check("R23.6", key, okk, src(defs[0]) if defs else None, bc, defs[0] if defs else None)
    colls = [c for c in ast.walk(bc.node) if isinstance(c, ast.Call) and isinstance(c.func, ast.Attribute) and c.func.attr in ("bcast", "Bcast") and src(c.func.value) == cn]
    rec = [c for c in ast.walk(bc.node) if isinstance(c, ast.Call) and call_name(c) == "_bcast"]
    okk = bool(colls) and all(any(k.arg == "root" and src(k.value) == rn for k in c.keywords) for c in colls) and \
        all(len(c.args) == 3 and src(c.args[0]) == cn and src(c.args[2]) == rn for c in rec)
    ctx.check("R23.6", f"{bc.key}::every collective and recursive call uses the same root", okk, f"{len(colls)} collectives, {len(rec)} recursive calls", bc)


def r23_7(ctx, m):
    mod = m.module("nifty.cl.utilities")
    bc = mod.functions.get("_bcast")
    ctx.rule("R23.7", "_bcast, raw-array branch: the buffer the root hands to comm.Bcast is C-contiguous (np.ascontiguousarray), because "
                      "every receiver allocates a C-ordered buffer of the announced shape", floor=1)
    if bc is None:
        ctx.error("_bcast missing")
        return
    calls = [c for c in ast.walk(bc.node) if isinstance(c, ast.Call) and isinstance(c.func, ast.Attribute) and c.func.attr == "Bcast"]
    key = f"{bc.key}::root buffer of comm.Bcast is C-contiguous"
    if len(calls) != 1 or not isinstance(calls[0].args[0], ast.Name):
        ctx.und("R23.7", key, f"{len(calls)} raw Bcast calls", bc)
        return
    bn = calls[0].args[0].id
    defs = [st for st in walk_no_nested(bc.node) if isinstance(st, ast.Assign) and any(isinstance(t, ast.Name) and t.id == bn for t in st.targets)]
    if len(defs) != 1:
        ctx.und("R23.7", key, f"{len(defs)} definitions of `{bn}`", bc)
        return
    v = defs[0].value
    root_expr = v.body if isinstance(v, ast.IfExp) else v
    if isinstance(v, ast.IfExp) and isinstance(v.test, ast.UnaryOp):
        root_expr = v.orelse
    good = any(isinstance(x, ast.Call) and call_name(x) == "ascontiguousarray" for x in ast.walk(root_expr))
    ctx.check("R23.7", key, good, f"root sends `{src(root_expr)}`" + ("" if good else ": a Fortran-ordered array is transmitted in memory order and read "
                                                                         "back as C order by the receivers"), bc, defs[0])


_run_c23b = run


def run(ctx):  # noqa: F811
    _run_c23b(ctx)
    r23_5(ctx, ctx.model)
    r23_6(ctx, ctx.model)
    r23_7(ctx, ctx.model)


def r23_8(ctx, m):
    from ..util import cfg_of, known_atoms
    ctx.rule("R23.8", "_send may assert the type of its payload only for the kinds whose wire format depends on it (ndarray, Field, "
                      "MultiField): partial sums of Python scalars change their type (bool + bool -> int), and an assertion that "
                      "fails on the sending task leaves its partner waiting for ever", floor=1)
    fi = m.func(MOD, "_send")
    ctx.saw_func(fi)
    cfg = cfg_of(fi)
    dt = fi.params()[3] if len(fi.params()) > 3 else "dtype"
    asserts = [n for n in cfg.nodes if n.kind == "stmt" and isinstance(n.ast, ast.Assert) and "isinstance" in src(n.ast.test) and dt in src(n.ast.test)]
    key = f"{fi.key}::type assertion only for type-specific wire formats"
    if not asserts:
        ctx.ok("R23.8", key, "no type assertion on the payload", fi)
        return
    for n in asserts:
        atoms = known_atoms(cfg, n.id)
        guarded = any(pol and dt in src(t) and (" in " in src(t) or " is " in src(t)) for t, pol in atoms)
        ctx.check("R23.8", key, guarded, f"`{src(n.ast)}` is reached for every payload type (guards {[src(t) for t, p in atoms]}): a partial sum whose "
                                         "Python type differs from the summands' (True + True) raises on the sender only", fi, n.ast)
    ctx.rule("R23.10", "the slot layout of the distributed sum is the ACTUAL one: the owner map and the [lo, hi) ranges are built from the "
                       "gathered per-task counts (comm.allgather(len(vals)) and their running sums), never from the balanced "
                       "partition of the total (shareRange) - the summands may be distributed in any order-preserving way", floor=1)
    ar0 = m.func(MOD, "allreduce_sum")
    t0 = src(ar0.node).replace(" ", "")
    gathered = "comm.allgather(len(vals))" in t0
    balanced = "shareRange(" in t0
    if balanced:
        ctx.bad("R23.10", f"{ar0.key}::layout from the gathered counts", "the ranges come from shareRange(total, ntask, t): only right for the balanced layout; "
                "for partitions like (1, 3) the owner map and the padding are wrong (TypeError / IndexError / hang)", ar0)
    else:
        ctx.check("R23.10", f"{ar0.key}::layout from the gathered counts", True if gathered else None, None, ar0)
    ctx.rule("R23.9", "allreduce_sum with a single summand in total, or none on some tasks: every task still reaches the final "
                      "broadcast from the owner of slot 0 - no early return between the preamble and `_bcast` in the MPI path", floor=1)
    ar = m.func(MOD, "allreduce_sum")
    ctx.saw_func(ar)
    cfg = cfg_of(ar)
    rets = [n for n in cfg.nodes if n.kind == "stmt" and isinstance(n.ast, ast.Return)]
    bad = []
    for n in rets:
        t = src(n.ast.value) if n.ast.value is not None else ""
        atoms = known_atoms(cfg, n.id)
        serial = any(pol and src(a) == "comm is None" for a, pol in atoms)
        if not serial and "_bcast(" not in t:
            bad.append(n)
    ctx.check("R23.9", f"{ar.key}::every return of the MPI path is the broadcast of slot 0", not bad,
              f"`{short(bad[0].ast, 60)}` (line {bad[0].ast.lineno}) returns without the broadcast: tasks that do not own the value return their padding" if bad else None,
              ar, bad[0].ast if bad else None)


_run_c23c = run


def run(ctx):  # noqa: F811
    _run_c23c(ctx)
    r23_8(ctx, ctx.model)
