"""C24 - the JAX VI driver's resume file is replaced atomically and carries the whole loop state."""
import ast

from ..fsfx import effects, with_exit_nodes
from ..model import src, short, walk_no_nested, call_name, stmt_targets
from ..terms import inline_at, same
from ..util import cfg_of, find_nodes, known_atoms

MOD = "nifty.re.optimize_kl"


def alts_of(e):
    """Alternatives of a conditional path expression (IfExp split; None dropped)."""
    out = []

    def rec(x):
        if isinstance(x, ast.IfExp):
            rec(x.body)
            rec(x.orelse)
        elif not (isinstance(x, ast.Constant) and x.value is None):
            out.append(x)
    rec(e)
    return out


def atomic_protocol(ctx, rule, model, fi, cfg, rd, protected, label):
    """Generic temp-file + os.replace protocol check.
    protected: list of inlined path expressions that a reader opens."""
    effs = effects(model, fi, cfg)
    dom = cfg.dominators()

    def inl(e, nid):
        return inline_at(cfg, rd, nid, e)

    def is_prot(e, nid):
        ts = {src(x) for x in alts_of(inl(e, nid))}
        return any(src(p) in ts for p in protected)

    n_ok = 0
    writes = [e for e in effs if e.kind == "open_w"]
    for e in writes:
        if e.path is None:
            continue
        if is_prot(e.path, e.node.id) and e.mode != "a":
            ctx.bad(rule, f"{fi.key}::{short(e.call)}", f"{label} is opened for writing in place (mode {e.mode!r}): a crash "
                    "during the write leaves a truncated file that the resume branch then reads", fi, e.call)
        elif is_prot(e.path, e.node.id):
            ctx.bad(rule, f"{fi.key}::{short(e.call)}", f"{label} is appended to in place", fi, e.call)
    for e in effs:
        if e.kind == "remove" and e.path is not None and is_prot(e.path, e.node.id):
            ctx.bad(rule, f"{fi.key}::{short(e.call)}", f"{label} is removed before its replacement is complete", fi, e.call)
    commits = [e for e in effs if e.kind == "replace" and is_prot(e.path, e.node.id)]
    for r in commits:
        sp = src(inl(r.extra, r.node.id))
        srcs = [w for w in writes if w.path is not None and src(inl(w.path, w.node.id)) == sp]
        if is_prot(r.extra, r.node.id):
            srcs = []
        key = f"{fi.key}::{short(r.call)}"
        if not srcs:
            ctx.bad(rule, key, f"os.replace source `{sp}` is never written by this function", fi, r.call)
            continue
        good = False
        for w in srcs:
            if w.node.kind == "with":
                xs = with_exit_nodes(cfg, w.node.ast)
                # the normal with-exit (the one that is the successor of the body) must dominate the replace
                if any(x.id in dom.get(r.node.id, ()) for x in xs):
                    good = True
            elif w.node.id in dom.get(r.node.id, ()):
                # file object without `with`: require an explicit close() dominating the replace
                closes = [n for n, c in find_nodes(cfg, lambda q: isinstance(q, ast.Call) and call_name(q) == "close")]
                if any(c.id in dom[r.node.id] for c in closes):
                    good = True
        ctx.check(rule, key, good, "the temporary file is not completely written and closed before it is renamed", fi, r.call)
        # a leftover temporary file of a killed run must not matter: the mode has to create-or-truncate
        for w in srcs:
            if w.mode is not None and ("x" in w.mode or "a" in w.mode or "+" in w.mode and "w" not in w.mode):
                ctx.bad(rule, f"{key}::temporary file is created or truncated whatever a killed run left behind",
                        f"`{short(w.call)}` opens the temporary file with mode {w.mode!r}: "
                        + ("a leftover file makes every later checkpoint raise FileExistsError" if "x" in w.mode else
                           "a leftover partial file is kept and extended"), fi, w.call)
            elif w.mode is not None:
                ctx.ok(rule, f"{key}::temporary file is created or truncated whatever a killed run left behind", f"mode {w.mode!r}", fi, w.call)
        if good:
            n_ok += 1
        # tmp name differs from final name
        ctx.check(rule, f"{key}::temporary differs from final path", sp != src(inl(r.path, r.node.id)), None, fi, r.call)
    return writes, commits, effs


def run(ctx):
    m = ctx.model
    fi = m.func(MOD, "optimize_kl")
    ctx.saw_func(fi)
    cfg = cfg_of(fi)
    rd = cfg.reaching_defs(fi.params())
    effs = effects(m, fi, cfg)

    # ---- reader
    loads = [e for e in effs if e.kind == "load"]
    opens_r = [e for e in effs if e.kind == "open_r"]
    if not loads or not opens_r:
        ctx.error("resume reader (open(...,'rb') + pickle.load) not found in re.optimize_kl")
        return
    rd_paths = []
    for o in opens_r:
        p = inline_at(cfg, rd, o.node.id, o.path)
        # resume_fn = resume if <explicit path given> else last_fn  -> both alternatives
        alts = alts_of(p)
        rd_paths += alts
    # the file the driver itself maintains is the one built from odir
    own = [p for p in rd_paths if any(isinstance(x, ast.Name) and x.id == "odir" for x in ast.walk(p))]
    if not own:
        ctx.error("could not identify the resume file path built from `odir`")
        return
    ctx.extra["resume_read_paths"] = [src(p) for p in rd_paths]

    ctx.rule("R24.1", "the state file read by resume is never opened for writing in place; it is produced by writing a "
                      "temporary file, closing it and os.replace()-ing it onto the final name", floor=2)
    writes, commits, _ = atomic_protocol(ctx, "R24.1", m, fi, cfg, rd, own, "the resume state file")
    key = f"{fi.key}::state file is committed by os.replace"
    dumps = [e for e in effs if e.kind == "dump"]
    if not dumps:
        ctx.error("no pickle.dump in re.optimize_kl")
        return
    if not commits:
        # is there any write to the protected path at all?
        ctx.bad("R24.1", key, "no os.replace onto the resume file: the state is either never saved or saved in place", fi, dumps[0].call)
    else:
        ctx.ok("R24.1", key, None, fi, commits[0].call)
        # every iteration that dumps also commits: from the dump, the next loop head / exit is not reachable avoiding replace
        for d in dumps:
            reach = cfg.reachable_after(d.node.id, avoid=[c.node.id for c in commits], include_exc=False)
            heads = [n.id for n in cfg.nodes if n.kind == "for" and not n.first]
            esc = (set(heads) | {cfg.exit.id}) & reach
            ctx.check("R24.1", f"{fi.key}::{short(d.call)}::dump is followed by the commit on every path", not esc,
                      "a path from the dump reaches the next iteration/exit without renaming the temporary file", fi, d.call)
        # dump goes into the handle of the temporary file
        for d in dumps:
            wn = [w for w in writes if w.node.kind == "with" and any(
                isinstance(it.optional_vars, ast.Name) and d.path is not None and it.optional_vars.id == src(d.path)
                for it in w.node.ast.items)]
            inside = any(d.call in list(ast.walk(w.node.ast)) for w in wn)
            ctx.check("R24.1", f"{fi.key}::{short(d.call)}::dump targets the temporary file's handle", inside, None, fi, d.call)

    # ---- R24.2 writer / reader agreement
    ctx.rule("R24.2", "writer and reader agree: same path expression, pickled tuple arity/order equals the unpacking on "
                      "load, the config stripped at write time is re-attached after loading", floor=3)
    ld = loads[0]
    ld_stmt = ld.node.ast
    # the load statement `a, b = pickle.load(f)`
    tg = None
    for st in ast.walk(fi.node):
        if isinstance(st, ast.Assign) and any(c is ld.call for c in ast.walk(st.value)):
            tg = st.targets[0]
    d = dumps[0]
    dumped = d.extra
    key = f"{fi.key}::dumped tuple matches load targets"
    if isinstance(tg, ast.Tuple) and isinstance(dumped, ast.Tuple):
        def base(e):
            while isinstance(e, (ast.Call, ast.Attribute)):
                e = e.func if isinstance(e, ast.Call) else e.value
            return e.id if isinstance(e, ast.Name) else None
        a = [base(e) for e in dumped.elts]
        b = [t.id if isinstance(t, ast.Name) else None for t in tg.elts]
        ctx.check("R24.2", key, a == b and None not in a, f"dumped {a} vs loaded into {b}", fi, d.call)
    else:
        ctx.und("R24.2", key, "dump/load shapes not modelled", fi, d.call)
        a = []
    # commit destination == reader path
    if commits:
        cps = {src(x) for x in alts_of(inline_at(cfg, rd, commits[0].node.id, commits[0].path))}
        cp = sorted(cps)
        ctx.check("R24.2", f"{fi.key}::commit destination is the path the reader opens", any(src(p) in cps for p in own),
                  f"writer: {cp}; reader: {[src(p) for p in own]}", fi, commits[0].call)
    # stripped fields re-attached
    stripped = []
    if isinstance(dumped, ast.Tuple):
        for e in dumped.elts:
            if isinstance(e, ast.Call) and call_name(e) == "_replace":
                for kw in e.keywords:
                    stripped.append((src(e.func.value), kw.arg))
    for obj, fld in stripped:
        key = f"{fi.key}::stripped field {obj}.{fld} is re-attached before the loop"
        loops = [n for n in cfg.nodes if n.kind == "for" and n.first and any(c is d.call for c in ast.walk(n.ast))]
        reatt = [n for n in cfg.nodes if n.kind == "stmt" and isinstance(n.ast, ast.Assign)
                 and isinstance(n.ast.value, ast.Call) and call_name(n.ast.value) == "_replace"
                 and any(kw.arg == fld for kw in n.ast.value.keywords)
                 and any(isinstance(t, ast.Name) and t.id == obj for t in n.ast.targets)]
        if not loops:
            ctx.und("R24.2", key, "main loop not found", fi)
            continue
        # all paths from the load to the loop on which the field is empty pass the re-attachment:
        ok_ = False
        for r_ in reatt:
            at = known_atoms(cfg, r_.id)
            if any(fld in src(t) and "len(" in src(t) and "== 0" in src(t) and pol for t, pol in at) or not at:
                ok_ = True
        dom = cfg.dominators()
        ctx.check("R24.2", key, ok_ and bool(reatt), "state loaded from disk keeps the stripped (empty) field", fi,
                  reatt[0].ast if reatt else d.call)

    # ---- R24.3 persisted state covers the loop-carried state, same generation
    ctx.rule("R24.3", "every variable assigned in the driver loop and live across iterations / returned is part of the "
                      "dumped tuple, all dumped components stem from the same update of this iteration, and the loop "
                      "start index is read from the (possibly loaded) state", floor=3)
    loops = [n for n in cfg.nodes if n.kind == "for" and n.first and any(c is d.call for c in ast.walk(n.ast))]
    if not loops:
        ctx.error("driver loop containing the dump not found")
        return
    loop = loops[0].ast
    assigned_in_loop = set()
    for st in walk_no_nested(loop):
        if isinstance(st, (ast.Assign, ast.AugAssign, ast.AnnAssign)):
            for t in stmt_targets(st):
                if isinstance(t, ast.Name):
                    assigned_in_loop.add(t.id)
    # live across iterations: used in the loop before (re)definition, or used after the loop
    head2 = [n for n in cfg.nodes if n.kind == "for" and not n.first and n.ast is loop][0]
    carried = set()
    uses_by_node = {n.id: {u.id for u in cfg.node_uses(n)} for n in cfg.nodes}
    for v in assigned_in_loop:
        defs_v = {k.id for k in cfg.nodes if v in cfg.node_defs(k)}
        reach = cfg.reachable(head2.id, avoid=defs_v)
        frontier = {dn for dn in defs_v if any(a_ in reach for a_, _ in cfg.pred[dn])}
        if any(v in uses_by_node[k] for k in reach | frontier):
            carried.add(v)  # live at the loop head (next iteration) or after the loop
    noise = {"msg", "f", "i"}
    carried -= noise
    ctx.extra["loop_carried"] = sorted(carried)
    for v in sorted(carried):
        ctx.check("R24.3", f"{fi.key}::loop-carried `{v}` is persisted", v in a,
                  f"`{v}` is carried from one iteration to the next (or returned) but is not in the dumped tuple {a}", fi, d.call)
    # same generation: reaching definitions of the dumped names at the dump are the same single update statement
    gens = set()
    for nm in a:
        defs = rd[d.node.id].get(nm, frozenset())
        gens.add(defs)
    ctx.check("R24.3", f"{fi.key}::dumped components come from one update of the current iteration",
              len(gens) == 1 and all(len(g) == 1 and _inside(cfg.nodes[next(iter(g))].ast, loop) for g in gens),
              f"reaching definitions: {[sorted(cfg.nodes[x].text()[:50] for x in g) for g in gens]}", fi, d.call)
    it = loop.iter
    uses_state = any(isinstance(x, ast.Attribute) and isinstance(x.value, ast.Name) and x.value.id in a for x in ast.walk(it))
    ctx.check("R24.3", f"{fi.key}::loop start index comes from the persisted state", uses_state,
              f"loop iterates over `{src(it)}`", fi, loop)


def _inside(node, container):
    return any(x is node for x in ast.walk(container))


def r24_4(ctx, m):
    """in-process state that depends on the iteration is not part of the checkpoint"""
    C = m.cls(MOD, "OptimizeVI")
    ctx.saw_class(C)
    ctx.rule("R24.4", "the driver object keeps no iteration-dependent state outside the checkpoint: methods of OptimizeVI other than "
                      "__init__ do not store values derived from their per-call arguments into instance attributes (a resumed "
                      "process would rebuild them from later arguments than the uninterrupted one); module functions do not keep "
                      "global caches", floor=8)
    mod = m.module(MOD)
    for name, fi in sorted(C.methods.items()):
        if name == "__init__":
            continue
        ctx.saw_func(fi)
        cfg = cfg_of(fi)
        rd = cfg.reaching_defs(fi.params())
        params = set(fi.params()[1:])
        if fi.node.args.vararg:
            params.add(fi.node.args.vararg.arg)
        if fi.node.args.kwarg:
            params.add(fi.node.args.kwarg.arg)
        params |= {a.arg for a in fi.node.args.kwonlyargs}
        bad = None
        for n in cfg.nodes:
            if n.kind != "stmt" or not isinstance(n.ast, (ast.Assign, ast.AugAssign, ast.AnnAssign)):
                continue
            tgts = n.ast.targets if isinstance(n.ast, ast.Assign) else [n.ast.target]
            for t in tgts:
                base = t
                while isinstance(base, ast.Subscript):
                    base = base.value
                if isinstance(base, ast.Attribute) and isinstance(base.value, ast.Name) and base.value.id == "self":
                    val = inline_at(cfg, rd, n.id, n.ast.value, depth=5) if n.ast.value is not None else None
                    names = {x.id for x in ast.walk(val) if isinstance(x, ast.Name)} if val is not None else set()
                    dep = sorted(names & params)
                    if dep:
                        bad = (n.ast, base.attr, dep)
        # mutating calls on attributes: self.X.append(...), self.X.update(...)
        for nn, c in find_nodes(cfg, lambda q: isinstance(q, ast.Call) and isinstance(q.func, ast.Attribute) and q.func.attr in
                                ("append", "extend", "update", "setdefault", "add", "insert", "pop", "clear")
                                and isinstance(q.func.value, ast.Attribute) and isinstance(q.func.value.value, ast.Name) and q.func.value.value.id == "self"):
            bad = bad or (c, c.func.value.attr, ["<mutating call>"])
        ctx.check("R24.4", f"{fi.key}::keeps no per-call state on the instance", bad is None,
                  None if bad is None else f"`{short(bad[0])}` stores a value derived from {bad[2]} in self.{bad[1]}; it survives into later "
                  f"iterations of this process but is not written to the state file", fi, bad[0] if bad else None)
    globs = [n for n in ast.walk(mod.tree) if isinstance(n, (ast.Global, ast.Nonlocal))]
    caches = [d for f in ast.walk(mod.tree) if isinstance(f, ast.FunctionDef) for d in f.decorator_list if "cache" in src(d)]
    ctx.check("R24.4", f"{mod.relpath}::no global / memoised state in the driver module", not globs and not caches,
              "; ".join(short(x) for x in globs + caches) or None, mod.relpath)


_run_c24b = run


def run(ctx):  # noqa: F811
    _run_c24b(ctx)
    r24_4(ctx, ctx.model)


def r24_5(ctx, m):
    from ..util import cfg_of, find_nodes
    fi = m.func(MOD, "optimize_kl")
    ctx.saw_func(fi)
    cfg = cfg_of(fi)
    loads = [n for n, c in find_nodes(cfg, lambda q: isinstance(q, ast.Call) and src(q.func) == "pickle.load")]
    ctx.rule("R24.5", "resume ignores `position_or_samples` in favour of the saved state (documented): no statement reachable from the "
                      "un-pickling of the checkpoint reads that argument - a resumed run called with the same arguments as the original "
                      "one (a position OR a Samples object) must not depend on which of the two it was", floor=1)
    key = f"{fi.key}::no read of position_or_samples after the checkpoint was loaded"
    if len(loads) != 1:
        ctx.und("R24.5", key, f"{len(loads)} pickle.load sites", fi)
        return
    ld = loads[0]
    reach = cfg.reachable_after(ld.id, include_exc=False)
    # statements of the resume branch only: nodes dominated by the load (the non-resume path does not pass the load)
    dom = cfg.dominators()
    reads = []
    for nid in sorted(reach):
        n = cfg.nodes[nid]
        if n.ast is None or ld.id not in dom.get(nid, ()):
            continue
        roots = [n.ast] if n.kind in ("stmt", "test") else []
        for r in roots:
            for x in ast.walk(r) if not isinstance(r, (ast.FunctionDef,)) else []:
                if isinstance(x, ast.Name) and x.id == "position_or_samples" and isinstance(x.ctx, ast.Load):
                    reads.append((n, x))
    ctx.check("R24.5", key, not reads, f"`{short(reads[0][0].ast, 90)}` reads the argument on the resume path" if reads else None, fi, reads[0][0].ast if reads else None)
    ctx.rule("R24.6", "every return of optimize_kl that is reachable after loading a checkpoint has passed the statement that "
                      "re-attaches the configuration stripped at write time (`_replace(config=<fresh config>)`): a resumed run returns "
                      "the same state object as an uninterrupted one, also when nothing is left to do", floor=1)
    reatt = [n for n, c in find_nodes(cfg, lambda q: isinstance(q, ast.Call) and call_name(q) == "_replace" and any(k.arg == "config" and src(k.value) not in ("{}", "dict()") for k in q.keywords))
             if ld.id in dom.get(n.id, ()) or n.id in reach]
    rets = [n for n in cfg.nodes if n.kind == "stmt" and isinstance(n.ast, ast.Return) and n.id in reach]
    key = f"{fi.key}::config re-attached before every return on the resume path"
    if not reatt or not rets:
        ctx.und("R24.6", key, f"{len(reatt)} re-attachments, {len(rets)} returns", fi)
    else:
        ra = {n.id for n in reatt}
        # the re-attachment may sit under "the loaded config is empty" (the writer stores {}): passing that test is as good
        for n in cfg.nodes:
            if n.kind == "test" and n.ast is not None and "config" in src(n.ast):
                import re as _re
                t_ = src(n.ast).replace(" ", "")
                names_ = {src(r_.ast.targets[0]) for r_ in reatt if isinstance(r_.ast, ast.Assign)}
                for nm_ in names_:
                    if t_ in (f"len({nm_}.config)==0", f"not{nm_}.config", f"{nm_}.config=={{}}", f"0==len({nm_}.config)"):
                        ra.add(n.id)
        bad = [r for r in rets if r.id in cfg.reachable_after(ld.id, avoid=ra, include_exc=False)]
        ctx.check("R24.6", key, not bad, f"`{short(bad[0].ast, 60)}` (line {bad[0].ast.lineno}) is reachable from the load without passing `{short(reatt[0].ast, 60)}`" if bad else None,
                  fi, bad[0].ast if bad else reatt[0].ast)
    ctx.rule("R24.7", "the objects inside the checkpoint (Samples, OptimizeVIState) are pickled attribute by attribute: a custom "
                      "__getstate__/__reduce__ maps every stored name to the attribute of the same name (a derived quantity such as "
                      "position + residuals stored under the residuals' name corrupts every loaded state)", floor=2)
    for modn, cn in (("nifty.re.evi", "Samples"), (MOD, "OptimizeVIState")):
        C = m.cls(modn, cn, required=False)
        if C is None:
            ctx.und("R24.7", f"{modn}::{cn}", "class missing", modn)
            continue
        ctx.saw_class(C)
        custom = [n_ for n_ in ("__getstate__", "__reduce__", "__reduce_ex__", "__setstate__") if n_ in C.methods]
        key = f"{C.key}::pickled state is the attribute dictionary"
        if not custom:
            ctx.ok("R24.7", key, "default pickling", C)
            continue
        gs = C.methods.get("__getstate__")
        if gs is None:
            ctx.und("R24.7", key, f"custom {custom} not modelled", C)
            continue
        ctx.saw_func(gs)
        loc = {src(st.targets[0]): st.value for st in walk_no_nested(gs.node) if isinstance(st, ast.Assign) and isinstance(st.targets[0], ast.Name)}
        pairs = []
        for d in ast.walk(gs.node):
            if isinstance(d, ast.Call) and src(d.func) == "dict":
                pairs += [(k.arg, k.value) for k in d.keywords if k.arg]
            elif isinstance(d, ast.Dict):
                pairs += [(k.value, v) for k, v in zip(d.keys, d.values) if isinstance(k, ast.Constant)]
        badp = []
        for k, v in pairs:
            e = v
            seen = 0
            while isinstance(e, ast.Name) and e.id in loc and seen < 4:
                e = loc[e.id]
                seen += 1
            if isinstance(e, ast.IfExp):
                alts = [e.body, e.orelse]
            else:
                alts = [e]
            for a in alts:
                if src(a) in ("None",):
                    continue
                if src(a) != f"self.{k}":
                    badp.append((k, src(a)))
        if not pairs:
            ctx.und("R24.7", key, "state mapping not found", gs)
        else:
            ctx.check("R24.7", key, not badp, f"`{badp[0][0]}` is stored as `{badp[0][1]}`, not as self.{badp[0][0]}" if badp else None, gs)


_run_c24c = run


def run(ctx):  # noqa: F811
    _run_c24c(ctx)
    r24_5(ctx, ctx.model)
