"""C25 - classic VI driver: resume read set / write set agreement, commit marker last, atomic writes,
no in-place overwrite of committed data."""
import ast

from ..consteval import ConstEval, TOP
from ..fsfx import effects, with_exit_nodes
from ..model import src, short, walk_no_nested, call_name, stmt_targets
from ..terms import inline_at
from ..util import cfg_of, find_nodes, known_atoms, guards
from .c24 import atomic_protocol, alts_of

MOD = "nifty.cl.minimization.optimize_kl"
SL = "nifty.cl.minimization.sample_list"
MARKER = "last_finished_iteration"


def is_atomic_writer(ctx, rule, model, fi):
    """Function of the form f(file_name, ...) that writes `file_name` via a
    temporary file + os.replace and never opens/removes `file_name` itself."""
    cfg = cfg_of(fi)
    rd = cfg.reaching_defs(fi.params())
    p0 = fi.params()[0]
    prot = [ast.Name(id=p0, ctx=ast.Load())]
    before = len([o for o in ctx.obs if o.verdict == "violated"])
    writes, commits, effs = atomic_protocol(ctx, rule, model, fi, cfg, rd, prot, f"`{p0}` (the final file)")
    key = f"{fi.key}::commits `{p0}` by os.replace on every normal path"
    if not commits:
        ctx.bad(rule, key, f"no os.replace onto `{p0}`", fi)
        return False
    avoid = [c.node.id for c in commits]
    # every normal exit after a write passes a commit
    good = True
    for w in writes:
        if cfg.exit.id in cfg.reachable_after(w.node.id, avoid=avoid, include_exc=False):
            good = False
    ctx.check(rule, key, good, "a normal path leaves the function with the temporary file not renamed", fi, commits[0].call)
    after = len([o for o in ctx.obs if o.verdict == "violated"])
    return good and after == before


def tmp_name_template(model, fi):
    """Returns the inlined temp-path expression of an atomic writer (for C26's pattern check)."""
    cfg = cfg_of(fi)
    rd = cfg.reaching_defs(fi.params())
    for e in effects(model, fi, cfg):
        if e.kind == "replace":
            return inline_at(cfg, rd, e.node.id, e.extra)
    return None


def writes_summary(model, mod, fi, depth=0, seen=()):
    """[(kind, detail, call node, via)] of resume-relevant writes performed by fi
    (direct and through same-module helpers): kind in {'values:<name>', 'samples', 'marker', 'random_state'}"""
    out = []
    if depth > 3 or fi.key in seen:
        return out
    for c in [n for n in walk_no_nested(fi.node) if isinstance(n, ast.Call)]:
        nm = call_name(c)
        if nm == "_pickle_save_values" and len(c.args) >= 2:
            a1 = c.args[1]
            out.append((f"values:{a1.value if isinstance(a1, ast.Constant) else src(a1)}", c))
        elif nm == "save" and isinstance(c.func, ast.Attribute) and any(
                "_file_name_by_strategy" in src(a) for a in c.args):
            out.append(("samples", c))
        elif nm == "_save_random_state":
            out.append(("random_state", c))
        elif isinstance(c.func, ast.Name) and c.func.id in mod.functions and c.func.id != fi.name:
            for k, cc in writes_summary(model, mod, mod.functions[c.func.id], depth + 1, seen + (fi.key,)):
                out.append((k, c))
    return out


def run(ctx):
    m = ctx.model
    mod = m.module(MOD)
    slm = m.module(SL)
    okl = m.func(MOD, "optimize_kl")
    ctx.saw_func(okl)
    cfg = cfg_of(okl)
    rd = cfg.reaching_defs(okl.params())
    effs = effects(m, okl, cfg)

    # locate the marker: reader and writer
    def mentions_marker(e, nid):
        t = src(inline_at(cfg, rd, nid, e))
        return MARKER in t

    marker_reads = [e for e in effs if e.kind == "open_r" and e.path is not None and mentions_marker(e.path, e.node.id)]
    if not marker_reads:
        ctx.error("resume branch does not read the commit marker (anchor vanished)")
        return
    # marker writers: direct open_w / replace, or a call passing the marker path to an atomic writer helper
    marker_writes = []
    for e in effs:
        if e.kind in ("open_w", "replace") and e.path is not None and mentions_marker(e.path, e.node.id):
            marker_writes.append((e.node, e.call, "direct"))
    helper_calls = []
    for n, c in find_nodes(cfg, lambda q: isinstance(q, ast.Call) and isinstance(q.func, ast.Name) and q.func.id in mod.functions):
        if c.args and MARKER in src(inline_at(cfg, rd, n.id, c.args[0])):
            helper_calls.append((n, c))
            marker_writes.append((n, c, "helper"))
    if not marker_writes:
        ctx.error("no write of the commit marker found")
        return

    # ---------------------------------------------------------------- R25.1
    ctx.rule("R25.1", "read set / write set: every file the resume branch (and the first resumed iteration) reads is "
                      "written by the iteration the marker names, with the same name template", floor=4)
    # readers
    ldv = m.func(MOD, "_pickle_load_values")
    svv = m.func(MOD, "_pickle_save_values")

    def name_template(fi):
        c = cfg_of(fi)
        r = c.reaching_defs(fi.params())
        # the path finally opened / handed to the writer: collect `file_name` after its last update
        pathname = None
        for c_ in ast.walk(fi.node):
            if isinstance(c_, ast.Call) and call_name(c_) in ("open", "_atomic_write") and c_.args and isinstance(c_.args[0], ast.Name):
                pathname = c_.args[0].id
        stmts = [st for st in fi.node.body if isinstance(st, (ast.Assign, ast.AugAssign))
                 and any(isinstance(t, ast.Name) and t.id == pathname for t in stmt_targets(st))]
        parts = []
        for st in stmts:
            parts.append(("+=" if isinstance(st, ast.AugAssign) else "=") + src(st.value))
        return parts
    ctx.check("R25.1", f"{MOD}::_pickle_save_values/_pickle_load_values build the same file name",
              name_template(ldv) == name_template(svv) and bool(name_template(svv)),
              f"writer {name_template(svv)} vs reader {name_template(ldv)}", svv)
    lrs = m.func(MOD, "_load_random_state")
    srs = m.func(MOD, "_save_random_state")
    ctx.check("R25.1", f"{MOD}::_save_random_state/_load_random_state use the same file name",
              name_template(lrs) == name_template(srs) and bool(name_template(srs)),
              f"writer {name_template(srs)} vs reader {name_template(lrs)}", srs)
    # values read on resume must be written in each iteration with the same literal name
    read_vals = set()
    for fi in mod.all_functions:
        for c in walk_no_nested(fi.node):
            if isinstance(c, ast.Call) and call_name(c) == "_pickle_load_values" and len(c.args) >= 2 \
                    and isinstance(c.args[1], ast.Constant):
                read_vals.add(c.args[1].value)
    loops = [n for n in cfg.nodes if n.kind == "for" and n.first and
             any(isinstance(c, ast.Call) and call_name(c) in ("push_sseq",) for c in ast.walk(n.ast))]
    if not loops:
        ctx.error("main iteration loop of optimize_kl not found")
        return
    loop = loops[0].ast
    head2 = [n for n in cfg.nodes if n.kind == "for" and not n.first and n.ast is loop][0]
    loopvar = loop.target.id if isinstance(loop.target, ast.Name) else None
    # writes inside the loop (direct + through helpers)
    loop_writes = []  # (kind, cfg node, call)
    for n, c in find_nodes(cfg, lambda q: isinstance(q, ast.Call)):
        if not any(x is c for x in ast.walk(loop)):
            continue
        nm = call_name(c)
        if nm == "_pickle_save_values" and len(c.args) >= 2:
            a1 = c.args[1]
            loop_writes.append((f"values:{a1.value if isinstance(a1, ast.Constant) else src(a1)}", n, c))
        elif nm == "save" and isinstance(c.func, ast.Attribute) and any("_file_name_by_strategy" in src(a) for a in c.args):
            loop_writes.append(("samples", n, c))
        elif isinstance(c.func, ast.Name) and c.func.id in mod.functions:
            for k, _ in writes_summary(m, mod, mod.functions[c.func.id]):
                loop_writes.append((k, n, c))
    kinds = {k for k, _, _ in loop_writes}
    for v in sorted(read_vals):
        ctx.check("R25.1", f"{okl.key}::values `{v}` read on resume are written in every iteration",
                  f"values:{v}" in kinds, f"written kinds: {sorted(kinds)}", okl)
    # sample files: reader uses _file_name_by_strategy(last_finished_index) under pickle/; writer the same with iglobal
    rdr = [n for n in cfg.nodes if n.kind == "stmt" and isinstance(n.ast, ast.Assign) and "_file_name_by_strategy" in src(n.ast.value)
           and not any(x is n.ast for x in ast.walk(loop))]
    wr = [c for k, n, c in loop_writes if k == "samples"]
    key = f"{okl.key}::sample files: reader and writer name templates agree"
    if not rdr or not wr:
        ctx.bad("R25.1", key, f"reader found: {bool(rdr)}, writer found: {bool(wr)}", okl)
    else:
        # reader: fname = reduce(join, [output_directory, "pickle", _file_name_by_strategy(idx)])
        # the reader's path: the name handed to ResidualSampleList.load / SampleList.load in the resume branch
        ldname = None
        for c_ in ast.walk(okl.node):
            if isinstance(c_, ast.Call) and src(c_.func) in ("ResidualSampleList.load", "SampleList.load") and c_.args and isinstance(c_.args[0], ast.Name):
                ldname = c_.args[0].id
        rcand = [n for n in cfg.nodes if n.kind == "stmt" and isinstance(n.ast, ast.Assign)
                 and any(isinstance(t, ast.Name) and t.id == ldname for t in n.ast.targets)]
        if not rcand:
            ctx.und("R25.1", key, "reader path variable not found", okl)
            rcand = None
        rnode = rcand[-1] if rcand else None
        rt = _path_segments(inline_at(cfg, rd, rnode.id, rnode.ast.value)) if rnode is not None else None
        wnode = [n for k, n, c in loop_writes if k == "samples"][0]
        wt = _path_segments(inline_at(cfg, rd, wnode.id, wr[0].args[0]))
        norm_r = [s if "_file_name_by_strategy" not in s else "<strategy-name>" for s in (rt or [])]
        norm_w = [s if "_file_name_by_strategy" not in s else "<strategy-name>" for s in (wt or [])]
        if rnode is not None:
            ctx.check("R25.1", key, (norm_r == norm_w) if (rt is not None and wt is not None) else None, f"reader {rt} vs writer {wt}", okl, wr[0])
        # index arguments: reader uses the marker value, writer the loop variable
        widx = [a for x in ast.walk(wr[0]) if isinstance(x, ast.Call) and call_name(x) == "_file_name_by_strategy" for a in x.args]
        ctx.check("R25.1", f"{okl.key}::sample files are named after the iteration being committed",
                  bool(widx) and src(widx[0]) == loopvar, f"writer index `{src(widx[0]) if widx else None}`, loop variable `{loopvar}`", okl, wr[0])

    # ---------------------------------------------------------------- R25.2
    ctx.rule("R25.2", "commit marker last: within an iteration no file of the resume read set is written after the "
                      "marker, and the marker is written on every path that wrote them", floor=3)
    mw_nodes = [n for n, c, how in marker_writes if any(x is c for x in ast.walk(loop))]
    if not mw_nodes:
        ctx.bad("R25.2", f"{okl.key}::marker is written inside the iteration loop", "marker write is outside the loop", okl)
    else:
        mset = [n.id for n in mw_nodes]
        for k, n, c in loop_writes:
            if k == "random_state":
                continue
            relevant = (k == "samples") or (k.startswith("values:") and k.split(":", 1)[1] in read_vals)
            if not relevant:
                continue
            key = f"{okl.key}::`{short(c, 70)}` ({k}) precedes the marker"
            after = any(n.id in cfg.reachable_after(mid, avoid=[head2.id], include_exc=False) for mid in mset)
            ctx.check("R25.2", key, not after,
                      f"{k} is written after the commit marker within the same iteration: a crash in between leaves a "
                      "marker that names files which do not exist yet", okl, c,
                      witness=cfg.describe_path(cfg.path(mset[0], n.id, avoid=[head2.id], include_exc=False, after=True)))
        # the marker carries the loop index
        for n, c, how in marker_writes:
            if not any(x is c for x in ast.walk(loop)):
                continue
            txt = src(n.ast) if n.ast is not None else ""
            ctx.check("R25.2", f"{okl.key}::marker records the index of the finished iteration",
                      loopvar is not None and f"str({loopvar})" in txt, f"marker write: {short(txt, 100)}", okl, c)

    # ---------------------------------------------------------------- R25.3
    ctx.rule("R25.3", "atomic writes: marker, history pickles and sample pickles are written to a temporary file that is "
                      "renamed onto the final name; the final file is never opened for writing or removed first", floor=4)
    atomic_helpers = {}
    for n, c, how in marker_writes:
        if how == "helper":
            h = mod.functions[c.func.id]
            ctx.saw_func(h)
            if h.key not in atomic_helpers:
                atomic_helpers[h.key] = is_atomic_writer(ctx, "R25.3", m, h)
            ctx.check("R25.3", f"{okl.key}::marker is written through an atomic writer", atomic_helpers[h.key],
                      f"{h.qualname} does not follow the temp-file + os.replace protocol", okl, c)
        else:
            e = [e for e in effs if e.call is c][0]
            if e.kind == "open_w":
                ctx.bad("R25.3", f"{okl.key}::{short(c)}", "the commit marker is opened for writing in place: a crash during "
                        "the write leaves an empty/truncated marker and resume fails in int('')", okl, c)
            else:
                ctx.ok("R25.3", f"{okl.key}::{short(c)}", "marker committed by rename", okl, c)
    # _pickle_save_values
    ctx.saw_func(svv)
    _delegates_or_atomic(ctx, m, mod, svv, atomic_helpers)
    std = m.func(SL, "_save_to_disk")
    ctx.saw_func(std)
    ok_std = is_atomic_writer(ctx, "R25.3", m, std)
    # both save() implementations write through _save_to_disk
    for cls in ("ResidualSampleList", "SampleList"):
        fi = m.func(SL, f"{cls}.save")
        ctx.saw_func(fi)
        direct = [e for e in effects(m, fi, cfg_of(fi)) if e.kind in ("open_w", "remove")]
        uses = [c for c in walk_no_nested(fi.node) if isinstance(c, ast.Call) and call_name(c) == "_save_to_disk"]
        ctx.check("R25.3", f"{fi.key}::writes only through _save_to_disk", bool(uses) and not direct,
                  f"direct file effects: {[short(e.call) for e in direct]}", fi)

    # temporary names must not be mistaken for sample files by the reader
    from .c26 import tmp_vs_pattern
    tmp_vs_pattern(ctx, "R25.3", m)
    # random state: (re)written unconditionally (on the master) whenever the run does not resume from a marker
    srs_calls = [(n, c) for n, c in find_nodes(cfg, lambda q: isinstance(q, ast.Call) and call_name(q) == "_save_random_state")]
    key = f"{okl.key}::random state is rewritten whenever no committed iteration is resumed"
    if len(srs_calls) != 1:
        ctx.und("R25.1", key, f"{len(srs_calls)} call sites", okl)
    else:
        n_, c_ = srs_calls[0]
        at = known_atoms(cfg, n_.id)
        # reference point: the marker-existence test that selects the resume branch
        sel = [t_ for t_ in cfg.nodes if t_.kind == "test" and "isfile(lfile)" in src(t_.ast)]
        base = set()
        if sel:
            base = {(src(t), pol) for t, pol in known_atoms(cfg, sel[0].id)}
        def nrm(t, pol):
            while isinstance(t, ast.UnaryOp) and isinstance(t.op, ast.Not):
                t, pol = t.operand, not pol
            return src(t), pol
        base = {nrm(ast.parse(a_, mode="eval").body, b_) for a_, b_ in base}
        selkey = (nrm(sel[0].ast, True)[0], False) if sel else None
        extra = []
        for t, pol in at:
            k = nrm(t, pol)
            if k in base or (k[0].startswith("_MPI_master(") and k[1]) or k == selkey:
                continue
            extra.append(("" if k[1] else "not ") + k[0])
        if not sel:
            extra = None
        ctx.check("R25.1", key, (not extra) if extra is not None else None,
                  f"the state file is kept under {extra}: a truncated or stale nifty_random_state left by an earlier crashed start is "
                  "loaded by a later resume", okl, c_)
    # the mean is the last file ResidualSampleList.save writes (a resumed iteration starts from the mean; samples are redrawn)
    rsave = m.func(SL, "ResidualSampleList.save")
    rcfg = cfg_of(rsave)
    wr = [(n, c) for n, c in find_nodes(rcfg, lambda q: isinstance(q, ast.Call) and call_name(q) == "_save_to_disk")]
    mean_w = [n for n, c in wr if "mean" in src(c.args[0])]
    samp_w = [n for n, c in wr if "mean" not in src(c.args[0])]
    key = f"{rsave.key}::mean file is written after all sample files"
    if len(mean_w) != 1 or not samp_w:
        ctx.und("R25.2", key, f"{len(mean_w)} mean / {len(samp_w)} sample writes", rsave)
    else:
        after = [s_ for s_ in samp_w if s_.id in rcfg.reachable_after(mean_w[0].id, include_exc=False)]
        ctx.check("R25.2", key, not after, "sample files are written after the mean: under save_strategy='latest' a crash while they are "
                  "written leaves the committed marker pointing at the new mean (resume restarts the iteration from the wrong mean)",
                  rsave, mean_w[0].ast)

    # ---------------------------------------------------------------- R25.4
    ctx.rule("R25.4", "no in-place overwrite of committed data: the file names used for samples/mean depend on the "
                      "iteration index under every accepted save_strategy (otherwise iteration k+1 overwrites what the "
                      "marker k still names)", floor=2)
    fns = m.func(MOD, "_file_name_by_strategy")
    ctx.saw_func(fns)
    # accepted strategies from the validation in optimize_kl
    strategies = None
    for n in cfg.nodes:
        if n.kind == "test" and "save_strategy" in src(n.ast):
            for x in ast.walk(n.ast):
                if isinstance(x, ast.Compare) and isinstance(x.comparators[0], (ast.List, ast.Tuple, ast.Set)):
                    strategies = [e.value for e in x.comparators[0].elts if isinstance(e, ast.Constant)]
    if not strategies:
        ctx.error("validated save_strategy values not found")
        return
    wr_sites = [(n, c) for k, n, c in loop_writes if k == "samples"]
    for s_ in strategies:
        dep = _result_depends_on_index(fns, s_)
        for n, c in wr_sites:
            key = f"{okl.key}::sample list saved under _file_name_by_strategy(<iteration>)::save_strategy={s_}"
            if dep is None:
                ctx.und("R25.4", key, "could not evaluate _file_name_by_strategy", okl, c)
            elif dep:
                ctx.ok("R25.4", key, "file name depends on the iteration index", okl, c)
            else:
                ctx.bad("R25.4", key, f"under save_strategy={s_!r} the sample and mean files of iteration k+1 overwrite in place "
                        "the files the committed marker k still names: a crash after the new mean is written but before "
                        "the marker moves makes resume re-run k+1 from the wrong mean (silently different result)", okl, c)


def _delegates_or_atomic(ctx, m, mod, fi, atomic_helpers):
    """fi either is an atomic writer itself or hands its path to one."""
    calls = [c for c in walk_no_nested(fi.node) if isinstance(c, ast.Call) and isinstance(c.func, ast.Name)
             and c.func.id in mod.functions]
    direct = [e for e in effects(m, fi, cfg_of(fi)) if e.kind in ("open_w", "remove", "replace")]
    key = f"{fi.key}::written atomically"
    if direct:
        cfg = cfg_of(fi)
        rd = cfg.reaching_defs(fi.params())
        # treat `file_name` local as the final path
        opens = [e for e in direct if e.kind == "open_w" and e.path is not None and isinstance(e.path, ast.Name)]
        if opens:
            ctx.bad("R25.3", key, "history pickle is opened for writing in place: a crash leaves a truncated pickle that "
                    "resume cannot load", fi, opens[0].call)
        else:
            ctx.und("R25.3", key, "direct file effects not modelled", fi)
        return
    for c in calls:
        h = mod.functions[c.func.id]
        if h.key not in atomic_helpers:
            atomic_helpers[h.key] = is_atomic_writer(ctx, "R25.3", m, h)
        if atomic_helpers[h.key]:
            ctx.ok("R25.3", key, f"delegates to {h.qualname}", fi, c)
            return
    ctx.bad("R25.3", key, "neither atomic itself nor delegating to an atomic writer", fi)


def _path_segments(e):
    """Symbolic evaluation of join()/reduce(join, [...])/'+' on path expressions -> list of segment texts."""
    if isinstance(e, ast.Call) and call_name(e) == "join":
        out = []
        for a in e.args:
            s = _path_segments(a)
            if s is None:
                return None
            out += s
        return out
    if isinstance(e, ast.Call) and call_name(e) == "reduce" and len(e.args) == 2 and src(e.args[0]).endswith("join") \
            and isinstance(e.args[1], (ast.List, ast.Tuple)):
        out = []
        for a in e.args[1].elts:
            s = _path_segments(a)
            if s is None:
                return None
            out += s
        return out
    if isinstance(e, ast.BinOp) and isinstance(e.op, ast.Add):
        l, r = _path_segments(e.left), _path_segments(e.right)
        if l is None or r is None:
            return None
        if l and l[-1].endswith("/'"):  # 'pickle/' + name
            return l[:-1] + [l[-1][:-2] + "'"] + r
        return None
    if isinstance(e, ast.Constant) and isinstance(e.value, str):
        parts = [p for p in e.value.split("/")]
        if e.value.endswith("/"):
            parts = [p for p in parts if p]
            return [repr(p) for p in parts[:-1]] + [repr(parts[-1]) [:-1] + "/'"]
        return [repr(p) for p in parts if p]
    return [src(e)]


def _result_depends_on_index(fns, strategy):
    """Evaluate _file_name_by_strategy(iglobal, strategy) symbolically: does the
    returned string mention the index parameter?"""
    idx = fns.node.args.args[0].arg
    sname = fns.node.args.args[1].arg if len(fns.node.args.args) > 1 else "save_strategy"
    ev = ConstEval({sname: strategy})

    def walk(body):
        for st in body:
            if isinstance(st, ast.If):
                v = ev.try_eval(st.test)
                if v is TOP:
                    return "unknown"
                r = walk(st.body if v else st.orelse)
                if r is not None:
                    return r
            elif isinstance(st, ast.Return):
                return st.value
            elif isinstance(st, ast.Raise):
                return "raise"
            elif isinstance(st, ast.Assign):
                # save_strategy = _save_strategy  (global default): the explicit value is what we enumerate
                continue
        return None
    r = walk(fns.node.body)
    if r in (None, "unknown", "raise") or not isinstance(r, ast.AST):
        return None
    return any(isinstance(x, ast.Name) and x.id == idx for x in ast.walk(r))


_run_c25_base = run


def run(ctx):  # noqa: F811
    _run_c25_base(ctx)
    # a resumed run must see the same seeds as the uninterrupted one (shared with C21)
    from .c21 import r21_9
    r21_9(ctx, ctx.model, rid="R25.5")


def r25_6(ctx, m):
    from ..util import cfg_of
    fi = m.func(MOD, "optimize_kl")
    ctx.saw_func(fi)
    ctx.rule("R25.6", "resume reads the saved state as a fact about the LAST FINISHED iteration: a condition that selects how the saved "
                      "sample list is loaded (residual list vs single point estimate) probes the files of that iteration or evaluates "
                      "options at last_finished_index - never at the index to resume, whose schedule entry may differ (MAP -> sampling)", floor=1)
    n = 0
    for st in walk_no_nested(fi.node):
        if not isinstance(st, ast.If):
            continue
        loads = [c for b in st.body + st.orelse for c in ast.walk(b) if isinstance(c, ast.Call) and call_name(c) in ("load", "load_mean")
                 and isinstance(c.func, ast.Attribute) and "SampleList" in src(c.func.value)]
        if not loads:
            continue
        # only the innermost test that selects between loaders
        if any(isinstance(x, ast.If) and x is not st and any(c in list(ast.walk(x)) for c in loads) for b in st.body + st.orelse for x in ast.walk(b)):
            continue
        n += 1
        t = src(st.test)
        bad = "initial_index" in t
        ctx.check("R25.6", f"{fi.key}::`if {short(st.test, 60)}` selects the loader from facts about the saved iteration", not bad,
                  f"`{t}` evaluates the schedule at the iteration to resume; the files on disk belong to iteration last_finished_index" if bad else None, fi, st)
    if not n:
        ctx.und("R25.6", f"{fi.key}::loader selection", "no test guarding SampleList loads found", fi)


_run_c25c = run


def run(ctx):  # noqa: F811
    _run_c25c(ctx)
    r25_6(ctx, ctx.model)


def r25_7(ctx, m):
    mod = m.module(MOD)
    ctx.rule("R25.7", "the driver never deletes a committed file: no os.remove / unlink / rmtree / shutil.move in optimize_kl.py targets "
                      "anything but a temporary (*.tmp) name - the marker of iteration k-1 still names the files of iteration k-1 "
                      "until the marker of k is committed, whatever 'superseded' them in the meantime", floor=1)
    n = 0
    for fi in mod.all_functions:
        for c in walk_no_nested(fi.node):
            if isinstance(c, ast.Call) and call_name(c) in ("remove", "unlink", "rmtree", "removedirs", "rmdir", "move", "truncate"):
                n += 1
                ctx.saw_func(fi)
                a = src(c.args[0]) if c.args else src(c.func)
                tmp = "tmp" in a.lower()
                ctx.check("R25.7", f"{fi.key}::`{short(c, 60)}` removes a temporary file only", tmp,
                          None if tmp else f"`{a}` is not a temporary name: a crash before the next marker commit leaves the marker pointing at a missing file", fi, c)
    if not n:
        ctx.ok("R25.7", f"{mod.relpath}::no file is ever deleted", "no remove/unlink/rmtree/move call in the module", mod.relpath)


_run_c25d = run


def run(ctx):  # noqa: F811
    _run_c25d(ctx)
    r25_7(ctx, ctx.model)
