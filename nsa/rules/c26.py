"""C26 - sample lists persist faithfully: writer/reader name agreement, stale-sample barrier, index discipline."""
import ast
import re._parser as sre_parse  # regex AST only; no NIFTy code is executed
import re._constants as sre_c

from ..model import src, short, walk_no_nested, call_name
from ..terms import inline_at
from ..util import cfg_of, find_nodes, known_atoms
from .c25 import tmp_name_template

SL = "nifty.cl.minimization.sample_list"


def fstring_parts(js):
    """JoinedStr -> list of ('lit', text) / ('var', source)"""
    out = []
    for v in js.values:
        if isinstance(v, ast.Constant):
            out.append(("lit", v.value))
        elif isinstance(v, ast.FormattedValue):
            out.append(("var", src(v.value)))
    return out


def pattern_parts(e):
    """f-string or concatenation -> list of ('lit', text) / ('var', source); re.escape(x) counts as the variable x"""
    if isinstance(e, ast.JoinedStr):
        return fstring_parts(e)
    if isinstance(e, ast.BinOp) and isinstance(e.op, ast.Add):
        l_, r_ = pattern_parts(e.left), pattern_parts(e.right)
        return None if l_ is None or r_ is None else l_ + r_
    if isinstance(e, ast.Constant) and isinstance(e.value, str):
        return [("lit", e.value)]
    if isinstance(e, ast.Call) and src(e.func) in ("re.escape", "escape") and len(e.args) == 1:
        return [("var", src(e.args[0]))]
    if isinstance(e, ast.Name):
        return [("var", e.id)]
    return None


def run(ctx):
    m = ctx.model
    mod = m.module(SL)
    wfn = m.func(SL, "_sample_file_name")
    rfn = m.func(SL, "SampleListBase._list_local_sample_files")
    ctx.saw_func(wfn)
    ctx.saw_func(rfn)

    ctx.rule("R26.1", "writer/reader name agreement: every name the writer produces ({base}.{i}.pickle) is accepted by the "
                      "reader's regular expression, the index extraction returns the writer's i, the names the reader re-builds "
                      "are the writer's, the mean file and leftover temporary files are rejected", floor=6)
    wret = [r for r in walk_no_nested(wfn.node) if isinstance(r, ast.Return)]
    if len(wret) != 1 or not isinstance(wret[0].value, ast.JoinedStr):
        ctx.error("_sample_file_name no longer returns an f-string")
        return
    wparts = fstring_parts(wret[0].value)
    bparam, iparam = wfn.params()[:2]
    ok_shape = len(wparts) == 4 and wparts[0] == ("var", bparam) and wparts[1] == ("lit", ".") and wparts[2] == ("var", iparam) \
        and wparts[3][0] == "lit" and wparts[3][1].startswith(".") and "." not in wparts[3][1][1:]
    ctx.check("R26.1", f"{wfn.key}::writer template is {{base}}.{{i}}.<ext>", ok_shape, str(wparts), wfn)
    if not ok_shape:
        return
    ext = wparts[3][1][1:]
    # isample must be an int (so that str(i) is a digit string)
    int_guard = any(isinstance(n, ast.If) and src(n.test) == f"not isinstance({iparam}, int)" and any(isinstance(x, ast.Raise) for x in n.body)
                    for n in walk_no_nested(wfn.node))
    ctx.check("R26.1", f"{wfn.key}::index is checked to be an int", int_guard, None, wfn)
    # reader pattern
    matches = [c for c in ast.walk(rfn.node) if isinstance(c, ast.Call) and src(c.func) in ("re.match", "re.fullmatch", "re.search")]
    if len(matches) != 1 or pattern_parts(matches[0].args[0]) is None or isinstance(matches[0].args[0], (ast.Name, ast.Constant)):
        ctx.und("R26.1", f"{rfn.key}::reader pattern", "re.match(<pattern built from the base name>) not found", rfn)
        return
    mcall = matches[0]
    pparts = pattern_parts(mcall.args[0])
    anchored_start = src(mcall.func) in ("re.match", "re.fullmatch")
    anchored_end = src(mcall.func) == "re.fullmatch" or (pparts and pparts[-1][0] == "lit" and pparts[-1][1].endswith("$"))
    key = f"{rfn.key}::pattern accepts every writer name"
    if not (len(pparts) == 2 and pparts[0][0] == "var" and pparts[1][0] == "lit"):
        ctx.und("R26.1", key, f"pattern shape {pparts}", rfn)
        return
    tail_pat = pparts[1][1]
    toks = list(sre_parse.parse(tail_pat))

    def covers_dot(tok):
        op, av = tok
        return op == sre_c.ANY or (op == sre_c.LITERAL and av == ord("."))

    def digit_class(tok):
        """MAX_REPEAT(min<=1, max=inf, [IN digits]) -> set of accepted chars or None"""
        op, av = tok
        if op not in (sre_c.MAX_REPEAT, sre_c.MIN_REPEAT):
            return None
        lo, hi, sub = av
        if lo > 1 or hi != sre_c.MAXREPEAT or len(sub) != 1:
            return None
        sop, sav = sub[0]
        chars = set()
        if sop == sre_c.IN:
            for iop, iav in sav:
                if iop == sre_c.RANGE:
                    chars |= {chr(c) for c in range(iav[0], iav[1] + 1)}
                elif iop == sre_c.LITERAL:
                    chars.add(chr(iav))
                elif iop == sre_c.CATEGORY and iav == sre_c.CATEGORY_DIGIT:
                    chars |= set("0123456789")
                else:
                    return None
            return chars, lo
        return None
    accept = False
    dclass = None
    min_digits = None
    if len(toks) >= 3 and covers_dot(toks[0]):
        dc = digit_class(toks[1])
        if dc is not None:
            dclass, min_digits = dc
            rest = toks[2:]
            want = "." + ext
            lits = []
            okrest = True
            for (op, av), ch in zip(rest, want):
                if ch == "." and covers_dot((op, av)):
                    continue
                if op == sre_c.LITERAL and chr(av) == ch:
                    continue
                okrest = False
            trailing = rest[len(want):]
            okrest = okrest and len(rest) >= len(want) and all(op == sre_c.AT for op, av in trailing)
            accept = set("0123456789") <= dclass and okrest
    ctx.check("R26.1", key, accept and anchored_start, f"pattern `{{base}}{tail_pat}` via {src(mcall.func)}; writer `{{base}}.<digits>.{ext}`", rfn, mcall)
    # the base in the pattern is the writer's base (basename of the same file_name_base)
    ctx.check("R26.1", f"{rfn.key}::pattern is built from the basename of the same file_name_base",
              "os.path.split(os.path.abspath(file_name_base))" in src(rfn.node) and pparts[0][1] == "base_file", pparts[0][1], rfn)
    # mean file rejected: after the dot the pattern needs >= 1 digit and 'm' is not in the class
    ctx.check("R26.1", f"{rfn.key}::the mean file {{base}}.mean.{ext} is not taken for a sample",
              dclass is not None and min_digits == 1 and not (dclass & set("mean")), f"digit class {sorted(dclass) if dclass else None}, min {min_digits}", rfn)
    # index extraction
    ext_ok = any(isinstance(c, ast.Call) and isinstance(c.func, ast.Name) and c.func.id == "int" and c.args and
                 src(c.args[0]).endswith(".split('.')[-2]") for c in ast.walk(rfn.node))
    ctx.check("R26.1", f"{rfn.key}::index = int(name.split('.')[-2]) (extension has no inner dot)", ext_ok and "." not in ext, None, rfn)
    # reconstruction template
    rec = [n for n in ast.walk(rfn.node) if isinstance(n, ast.JoinedStr) and n is not mcall.args[0] and
           any(p == ("lit", "." + ext) for p in fstring_parts(n)) and len(fstring_parts(n)) == 4]
    good = False
    if rec:
        rp = fstring_parts(rec[0])
        good = rp[0] == ("var", "file_name_base") and rp[1] == ("lit", ".") and rp[2][0] == "var" and rp[3] == ("lit", "." + ext)
    ctx.check("R26.1", f"{rfn.key}::re-built names use the writer's template", good, str(fstring_parts(rec[0])) if rec else "not found", rfn)
    tmp_vs_pattern(ctx, "R26.1", m)

    # ------------------------------------------------------------------ R26.2
    ctx.rule("R26.2", "stale-sample barrier: every save() removes/refuses the file of index n_samples (global count) before the "
                      "first sample is written, and the reader takes the longest run of indices starting at 0", floor=4)
    for cls in ("ResidualSampleList", "SampleList"):
        fi = m.func(SL, f"{cls}.save")
        ctx.saw_func(fi)
        cfg = cfg_of(fi)
        ens = [(n, c) for n, c in find_nodes(cfg, lambda q: isinstance(q, ast.Call) and call_name(q) == "_ensure_proper_sample_list_ending")]
        wr = [(n, c) for n, c in find_nodes(cfg, lambda q: isinstance(q, ast.Call) and call_name(q) == "_save_to_disk")]
        key = f"{fi.key}::barrier at index n_samples dominates the first write"
        if len(ens) != 1 or not wr:
            ctx.bad("R26.2", key, f"{len(ens)} barrier call(s), {len(wr)} write(s)", fi)
            continue
        en, ec = ens[0]
        a0 = ec.args[0] if ec.args else None
        good_arg = isinstance(a0, ast.Call) and call_name(a0) == "_sample_file_name" and [src(x) for x in a0.args] == [fi.params()[1], "self.n_samples"]
        dom = cfg.dominators()
        ctx.check("R26.2", key, good_arg and all(en.id in dom[w.id] for w, _ in wr) and src(ec.args[1]) == fi.params()[2] if len(ec.args) > 1 else False,
                  f"barrier call `{short(ec)}`", fi, ec)
    ens_f = m.func(SL, "_ensure_proper_sample_list_ending")
    ctx.saw_func(ens_f)
    body = src(ens_f.node)
    fpar = ens_f.params()[0]
    ctx.check("R26.2", f"{ens_f.key}::removes the next sample on overwrite, refuses otherwise",
              f"pathlib.Path({fpar}).unlink(missing_ok=True)" in body and f"os.path.isfile({fpar})" in body and "raise RuntimeError" in body, None, ens_f)
    cl = m.func(SL, "_consecutive_length")
    ctx.saw_func(cl)
    # recognised shape: guard `0 not in lst` raising, counter from 0, `while True: if c + 1 not in lst: return c + 1; c += 1`
    lst = cl.params()[0]
    shape = None
    whiles = [n for n in walk_no_nested(cl.node) if isinstance(n, ast.While)]
    if len(whiles) == 1 and src(whiles[0].test) == "True":
        ifs = [n for n in whiles[0].body if isinstance(n, ast.If)]
        incs = [n for n in whiles[0].body if isinstance(n, ast.AugAssign) and isinstance(n.op, ast.Add) and src(n.value) == "1"]
        if len(ifs) == 1 and len(incs) == 1 and isinstance(incs[0].target, ast.Name):
            cn = incs[0].target.id
            init0 = any(isinstance(n, ast.Assign) and src(n.targets[0]) == cn and src(n.value) == "0" for n in cl.node.body)
            t_ok = src(ifs[0].test) == f"{cn} + 1 not in {lst}"
            r_ok = len(ifs[0].body) == 1 and isinstance(ifs[0].body[0], ast.Return) and src(ifs[0].body[0].value) == f"{cn} + 1"
            z_ok = any(isinstance(n, ast.If) and src(n.test) == f"0 not in {lst}" and any(isinstance(x, ast.Raise) for x in n.body) for n in cl.node.body)
            shape = init0 and t_ok and r_ok and z_ok
    uses = [c for c in ast.walk(rfn.node) if isinstance(c, ast.Call) and call_name(c) == "_consecutive_length"]
    ctx.check("R26.2", f"{rfn.key}::sample count = longest run of indices starting at 0",
              (shape and len(uses) == 1) if shape is not None else None,
              "_consecutive_length is not the recognised gap scan (not decided)" if shape is None else None, rfn)

    # ------------------------------------------------------------------ R26.3
    ctx.rule("R26.3", "index discipline: each task names its files by the global index and takes the data by the local index; the "
                      "reader partitions the global count with shareRange", floor=3)
    for cls, store in (("ResidualSampleList", ("self._r", "self._n")), ("SampleList", ("self._s",))):
        fi = m.func(SL, f"{cls}.save")
        loops = [n for n in walk_no_nested(fi.node) if isinstance(n, ast.For) and src(n.iter) == "enumerate(self.local_indices)"]
        key = f"{fi.key}::file named by the global index, data taken by the local index"
        if len(loops) != 1 or not isinstance(loops[0].target, ast.Tuple):
            ctx.und("R26.3", key, "loop over enumerate(self.local_indices) not found", fi)
            continue
        li, gi = [src(e) for e in loops[0].target.elts]
        names = [c for c in ast.walk(loops[0]) if isinstance(c, ast.Call) and call_name(c) == "_sample_file_name"]
        data = [s_ for s_ in ast.walk(loops[0]) if isinstance(s_, ast.Subscript) and src(s_.value) in store]
        ctx.check("R26.3", key, len(names) == 1 and src(names[0].args[1]) == gi and bool(data) and all(src(d.slice) == li for d in data),
                  f"name index `{src(names[0].args[1]) if names else None}`, data indices {[src(d) for d in data]}", fi, loops[0])
    rcfg = cfg_of(rfn)
    rrd = rcfg.reaching_defs(rfn.params())
    sr = [(n, c) for n, c in find_nodes(rcfg, lambda q: isinstance(q, ast.Call) and call_name(q) == "shareRange")]
    okk = None
    if len(sr) == 1 and len(sr[0][1].args) == 3 and all(isinstance(a, ast.Name) for a in sr[0][1].args):
        n_, c_ = sr[0]
        def defsrc(nm):
            ds = rrd[n_.id].get(nm, frozenset())
            if len(ds) != 1:
                return None
            dn = rcfg.nodes[next(iter(ds))]
            return src(dn.ast.value) if dn.kind == "stmt" and isinstance(dn.ast, ast.Assign) else None
        a0, a1, a2 = [defsrc(a.id) for a in c_.args]
        okk = a0 is not None and a0.startswith("_consecutive_length(") and a1 is not None and a1 == a2 and a1.startswith("get_MPI_params_from_comm(")
        # positions 0 and 1 of the unpacked (ntask, rank, master)
        tg = [rcfg.nodes[next(iter(rrd[n_.id][c_.args[1].id]))].ast.targets[0]]
        okk = okk and isinstance(tg[0], ast.Tuple) and [src(e) for e in tg[0].elts[:2]] == [c_.args[1].id, c_.args[2].id]
    ctx.check("R26.3", f"{rfn.key}::reader partitions the global count over the tasks", okk, None, rfn)


def tmp_vs_pattern(ctx, rule, m):
    """leftover temporary files of the atomic writer must not look like samples to the reader"""
    rfn = m.func(SL, "SampleListBase._list_local_sample_files")
    std = m.func(SL, "_save_to_disk")
    matches = [c for c in ast.walk(rfn.node) if isinstance(c, ast.Call) and src(c.func) in ("re.match", "re.fullmatch", "re.search")]
    key = f"{std.key}::temporary names are rejected by the reader's pattern"
    if len(matches) != 1 or pattern_parts(matches[0].args[0]) is None or isinstance(matches[0].args[0], (ast.Name, ast.Constant)):
        ctx.und(rule, key, "reader pattern not found", rfn)
        return
    mcall = matches[0]
    pparts = pattern_parts(mcall.args[0])
    anchored_start = src(mcall.func) in ("re.match", "re.fullmatch")
    anchored_end = src(mcall.func) == "re.fullmatch" or (pparts and pparts[-1][0] == "lit" and pparts[-1][1].endswith("$"))
    tmp = tmp_name_template(m, std)
    if tmp is None:
        ctx.und(rule, key, "no os.replace in _save_to_disk", std)
        return
    t = src(tmp)
    prefix = isinstance(tmp, ast.Call) and call_name(tmp) == "join" and len(tmp.args) == 2 and isinstance(tmp.args[1], ast.BinOp) \
        and isinstance(tmp.args[1].left, ast.Constant) and isinstance(tmp.args[1].left.value, str) and tmp.args[1].left.value
    suffix = isinstance(tmp, ast.BinOp) and isinstance(tmp.op, ast.Add) and isinstance(tmp.right, ast.Constant)
    if prefix:
        ctx.check(rule, key, anchored_start, f"temporary `{t}` starts with a literal prefix; reader anchors at the start: {anchored_start}", std)
    elif suffix:
        ctx.check(rule, key, bool(anchored_end),
                  f"temporary `{t}` = final name + suffix: the reader's pattern is not anchored at the end, so a leftover temporary "
                  "file is taken for a sample and int(name.split('.')[-2]) fails on resume", std)
    else:
        ctx.und(rule, key, f"temporary name shape `{t}` not modelled", std)


def r26_4(ctx, m, rid="R26.4"):
    """global index of a task's first sample = number of samples held by the lower ranks"""
    from ..util import cfg_of
    from ..terms import inline_at
    ctx.rule(rid, "_compute_local_indices: a task's samples get the global indices start..start+n_local-1 with start the SUM OF THE "
                      "ACTUAL COUNTS of the lower ranks (allgather of the local counts, prefix up to the own rank) - a start computed "
                      "from the standard partition of the total (shareRange) is only right for lists that happen to be distributed "
                      "that way; serial lists use 0..n_local-1", floor=2)
    fi = m.func(SL, "_compute_local_indices", required=False)
    if fi is None:
        ctx.error("R26.4: _compute_local_indices missing")
        return
    ctx.saw_func(fi)
    nl, comm = fi.params()[:2]
    cfg = cfg_of(fi)
    rd = cfg.reaching_defs(fi.params())
    rets = [n for n in cfg.nodes if n.kind == "stmt" and isinstance(n.ast, ast.Return)]
    for n in rets:
        from ..util import known_atoms
        serial = any(src(t) in (f"{comm} is None",) and pol for t, pol in known_atoms(cfg, n.id))
        v = n.ast.value
        if serial:
            ctx.check(rid, f"{fi.key}::serial: range({nl})", src(v) == f"range({nl})", src(v), fi, n.ast)
            continue
        key = f"{fi.key}::start = sum of the lower ranks' counts"
        if not (isinstance(v, ast.Call) and src(v.func) == "range" and len(v.args) == 2):
            ctx.und(rid, key, f"`{src(v)}` is not range(start, stop)", fi, n.ast)
            continue
        st = inline_at(cfg, rd, n.id, v.args[0], depth=4)
        en = inline_at(cfg, rd, n.id, v.args[1], depth=1)
        t = src(st).replace(" ", "")
        if isinstance(st, ast.Name):  # not a plain assignment (e.g. unpacked from a call): look at the defining statement
            for d in (rd.get(n.id) or {}).get(st.id, ()):
                dn = cfg.nodes[d]
                if dn.kind == "stmt" and dn.ast is not None:
                    t += " <- " + src(dn.ast).replace(" ", "")
        gathered = f"{comm}.allgather({nl})"
        good = t in (f"sum({gathered}[:{comm}.Get_rank()])", f"sum({gathered}[:{comm}.rank])", f"sum({gathered}[0:{comm}.Get_rank()])")
        length_ok = src(v.args[1]).replace(" ", "") in (f"{src(v.args[0])}+{nl}", f"{nl}+{src(v.args[0])}")
        if good:
            ctx.check(rid, key, length_ok, f"range({src(st)}, {src(en)})", fi, n.ast)
        elif "Get_rank()*" in t or "*"+comm+".Get_rank()" in t or ".rank*" in t:
            ctx.bad(rid, key, f"start = {src(st)}: assumes that every lower rank holds as many samples as this one", fi, n.ast)
        elif "shareRange" in t or "allreduce" in t:
            ctx.bad(rid, key, f"start = {src(st)}: derived from the total count, not from the counts the lower ranks actually hold "
                                  "(tasks with a non-standard share write files with gaps / duplicates)", fi, n.ast)
        else:
            ctx.und(rid, key, f"start = {src(st)} not recognised", fi, n.ast)


def r26_5(ctx, m):
    """the load path reads the disk every time"""
    ctx.rule("R26.5", "no memoisation on the load path: the functions that read sample files (load, load_mean, _load_from_disk, "
                      "_list_local_sample_files and what they call inside the module) carry no cache decorator and consult no "
                      "module-level container - save() rewrites these files, a remembered content would be stale", floor=4)
    mod = m.module(SL)
    containers = {src(st.targets[0]) for st in mod.tree.body if isinstance(st, ast.Assign) and isinstance(st.value, (ast.Dict, ast.List, ast.Set))
                  or (isinstance(st, ast.Assign) and isinstance(st.value, ast.Call) and src(st.value.func) in ("dict", "list", "set", "OrderedDict", "collections.OrderedDict"))}
    # call graph inside the module, from the loaders
    funcs = {}
    for fi in mod.all_functions:
        funcs.setdefault(fi.name, []).append(fi)
    work = [fi for fi in mod.all_functions if fi.name in ("load", "load_mean", "_load_from_disk", "_list_local_sample_files")]
    seen = []
    while work:
        fi = work.pop()
        if fi in seen:
            continue
        seen.append(fi)
        for c in ast.walk(fi.node):
            if isinstance(c, ast.Call):
                nm = call_name(c)
                if nm in funcs and nm not in ("save", "__init__"):
                    work.extend(funcs[nm])
    for fi in sorted(seen, key=lambda f: f.key):
        ctx.saw_func(fi)
        decs = [src(d) for d in fi.node.decorator_list]
        cached = [d for d in decs if "cache" in d.lower() or "memo" in d.lower()]
        used = sorted({x.id for x in ast.walk(fi.node) if isinstance(x, ast.Name) and x.id in containers})
        ctx.check("R26.5", f"{fi.key}::reads the disk on every call", not cached and not used,
                  (f"decorated with {cached}" if cached else f"consults the module-level container(s) {used}") +
                  ": a file rewritten by a later save() is served from memory", fi)


def r26_6(ctx, m):
    """statistics are statistics of the operator OUTPUTS"""
    ctx.rule("R26.6", "in SampleListBase the callable `op` is applied to single samples only (the variable of a loop over the local "
                      "samples / a broadcast sample) or handed on as the `op` argument of another method; it is never applied to an "
                      "average or a statistic (mean of op(samples) != op(mean of samples) for non-linear op)", floor=5)
    C = m.cls(SL, "SampleListBase")
    ctx.saw_class(C)
    for name, fi in sorted(C.methods.items()):
        params = fi.params()
        if "op" not in params:
            continue
        ctx.saw_func(fi)
        ops = {"op"}
        for st in ast.walk(fi.node):
            if isinstance(st, ast.Assign) and isinstance(st.value, ast.Call) and call_name(st.value) == "_none_to_id" and src(st.value.args[0]) in ops \
                    and isinstance(st.targets[0], ast.Name):
                ops.add(st.targets[0].id)
        loopvars = set()
        for lp in ast.walk(fi.node):
            if isinstance(lp, (ast.For, ast.comprehension)) and isinstance(lp.target, ast.Name) and "local_iterator" in src(lp.iter):
                loopvars.add(lp.target.id)
        single = set(loopvars)
        for st in ast.walk(fi.node):
            if isinstance(st, ast.Assign) and isinstance(st.targets[0], ast.Name) and "local_item(" in src(st.value):
                single.add(st.targets[0].id)
        for c in ast.walk(fi.node):
            if not isinstance(c, ast.Call):
                continue
            direct = isinstance(c.func, ast.Name) and c.func.id in ops
            wrapped = isinstance(c.func, ast.Call) and call_name(c.func) == "_none_to_id" and c.func.args and src(c.func.args[0]) in ops
            if direct or wrapped:
                key = f"{fi.key}::`{short(c, 60)}` applies op to a single sample"
                if len(c.args) != 1:
                    ctx.und("R26.6", key, "arity", fi, c)
                    continue
                a = c.args[0]
                t = src(a)
                is_single = (isinstance(a, ast.Name) and a.id in single) or \
                    (isinstance(a, ast.Call) and call_name(a) == "_bcast" and a.args and isinstance(a.args[0], ast.Name) and a.args[0].id in single)
                if is_single:
                    ctx.ok("R26.6", key, None, fi, c)
                elif any(w in t for w in (".average(", ".sample_stat(", ".mean", "allreduce_sum(", "sc.")):
                    ctx.bad("R26.6", key, f"op is applied to `{t}`, a statistic of the samples: the exported value is op(mean), not the mean of op", fi, c)
                else:
                    ctx.und("R26.6", key, f"argument `{t}` not recognised as a single sample", fi, c)
            elif isinstance(c.func, ast.Attribute) and src(c.func.value) == "self" and any(isinstance(x, ast.Name) and x.id in ops for a_ in list(c.args) + [k.value for k in c.keywords] for x in ast.walk(a_)):
                callee = C.methods.get(c.func.attr)
                key = f"{fi.key}::`{short(c, 60)}` hands op on"
                ctx.check("R26.6", key, True if callee is not None and "op" in callee.params() else None, f"callee {c.func.attr}", fi, c)


_run_c26 = run


def run(ctx):  # noqa: F811
    _run_c26(ctx)
    r26_4(ctx, ctx.model)
    r26_5(ctx, ctx.model)
    r26_6(ctx, ctx.model)


def r26_7(ctx, m):
    """streaming statistics: one-step induction on terms read from StatCalculator"""
    from .c03 import _load_sympy
    ctx.rule("R26.7", "StatCalculator by induction over the number of added values (terms read from add/mean/var, sympy as normaliser): "
                      "after the first value mean = x and the accumulated spread is 0; if mean_n and var_n are the arithmetic mean "
                      "and unbiased variance of n values, then after add(x) mean_(n+1) = mean_n + (x - mean_n)/(n+1) and "
                      "n var_(n+1) = (n-1) var_n + (x - mean_n)(x - mean_(n+1)) - the exact recurrences of mean and unbiased variance", floor=3)
    sp = _load_sympy()
    C = m.cls("nifty.cl.probing", "StatCalculator", required=False)
    if sp is None or C is None:
        ctx.und("R26.7", "nifty/cl/probing.py::StatCalculator", "sympy or class not available", "nifty/cl/probing.py")
        return
    ctx.saw_class(C)
    add, mean, var = C.methods.get("add"), C.methods.get("mean"), C.methods.get("var")
    if add is None or mean is None or var is None:
        ctx.und("R26.7", f"{C.key}::add/mean/var", "method missing", C)
        return
    for f in (add, mean, var):
        ctx.saw_func(f)
    xname = add.params()[1]
    X = sp.Symbol("x", real=True)

    class NU(Exception):
        pass

    def prop_value(name, state):
        fi = C.methods[name]
        rets = [r for r in walk_no_nested(fi.node) if isinstance(r, ast.Return) and r.value is not None]
        if len(rets) != 1:
            raise NU(f"{name}: {len(rets)} returns")
        loc = {}
        for st in fi.node.body:
            if isinstance(st, ast.Assign) and isinstance(st.targets[0], ast.Name):
                loc[st.targets[0].id] = ev(st.value, state, loc)
        return ev(rets[0].value, state, loc)

    def ev(e, state, loc):
        if isinstance(e, ast.Constant) and isinstance(e.value, (int, float)) and not isinstance(e.value, bool):
            return sp.nsimplify(e.value)
        if isinstance(e, ast.Name):
            if e.id == xname:
                return X
            if e.id in loc:
                return loc[e.id]
            raise NU(e.id)
        if isinstance(e, ast.Attribute) and src(e.value) == "self":
            if e.attr in state:
                return state[e.attr]
            if e.attr in ("mean", "var") and e.attr in C.methods:
                return prop_value(e.attr, state)
            raise NU(src(e))
        if isinstance(e, ast.UnaryOp) and isinstance(e.op, ast.USub):
            return -ev(e.operand, state, loc)
        # the induction is over real values: conjugation and real part are the identity there (R26.11 decides the complex case)
        if isinstance(e, ast.Call) and isinstance(e.func, ast.Attribute) and e.func.attr in ("conjugate", "conj") and not e.args:
            return ev(e.func.value, state, loc)
        if isinstance(e, ast.Attribute) and e.attr == "real" and src(e.value) != "self":
            return ev(e.value, state, loc)
        if isinstance(e, ast.BinOp) and type(e.op) in (ast.Add, ast.Sub, ast.Mult, ast.Div, ast.Pow):
            a, b = ev(e.left, state, loc), ev(e.right, state, loc)
            return {ast.Add: a + b, ast.Sub: a - b, ast.Mult: a * b, ast.Div: a / b, ast.Pow: a ** b}[type(e.op)]
        raise NU(src(e)[:50])

    def run(body, state, loc):
        for st in body:
            if isinstance(st, ast.Expr):
                continue
            if isinstance(st, ast.AugAssign) and isinstance(st.target, ast.Attribute) and src(st.target.value) == "self" and isinstance(st.op, (ast.Add, ast.Sub)):
                cur = state[st.target.attr]
                v = ev(st.value, state, loc)
                state[st.target.attr] = cur + v if isinstance(st.op, ast.Add) else cur - v
            elif isinstance(st, ast.Assign) and len(st.targets) == 1:
                t = st.targets[0]
                v = ev(st.value, state, loc)
                if isinstance(t, ast.Name):
                    loc[t.id] = v
                elif isinstance(t, ast.Attribute) and src(t.value) == "self":
                    state[t.attr] = v
                else:
                    raise NU(src(st)[:50])
            elif isinstance(st, ast.If):
                t = st.test
                if not (isinstance(t, ast.Compare) and len(t.ops) == 1 and isinstance(t.ops[0], (ast.Eq, ast.NotEq, ast.Lt, ast.LtE))):
                    raise NU(f"test {src(t)}")
                a, b = ev(t.left, state, loc), ev(t.comparators[0], state, loc)
                rel = {ast.Eq: sp.Eq, ast.NotEq: sp.Ne, ast.Lt: sp.Lt, ast.LtE: sp.Le}[type(t.ops[0])](a, b)
                rel = sp.simplify(rel)
                if rel == sp.true:
                    run(st.body, state, loc)
                elif rel == sp.false:
                    run(st.orelse, state, loc)
                else:
                    raise NU(f"test {src(t)} undetermined ({rel})")
            else:
                raise NU(src(st)[:50])
    attrs = sorted({t.attr for st in ast.walk(add.node) if isinstance(st, ast.Assign) for t in st.targets
                    if isinstance(t, ast.Attribute) and src(t.value) == "self"})
    key0 = f"{C.key}::first value: mean = x; two values: var = (x-y)^2/2"
    key1 = f"{C.key}::induction step for the mean"
    key2 = f"{C.key}::induction step for the unbiased variance"
    try:
        # base case
        st0 = {"_count": sp.Integer(0)}
        run(add.node.body, st0, {})
        m1 = prop_value("mean", st0)
        # two values: variance of {x, y} must be (x-y)^2/2 -> checked through the step below with n = 1
        Y = sp.Symbol("y", real=True)
        st1 = {k: (v.subs(X, Y) if hasattr(v, "subs") else v) for k, v in st0.items()}
        run(add.node.body, st1, {})
        v2 = sp.simplify(prop_value("var", st1) - (X - Y) ** 2 / 2)
        ctx.check("R26.7", key0, sp.simplify(m1 - X) == 0 and st0["_count"] == 1 and v2 == 0,
                  f"after one add: count = {st0['_count']}, mean = {m1}; after two adds: var - (x-y)^2/2 = {v2}", C, add.node)
        # step
        n = sp.Symbol("n", integer=True, positive=True)
        syms = {a: sp.Symbol(a.strip("_"), real=True) for a in attrs}
        st = dict(syms)
        st["_count"] = n
        MU, V = sp.Symbol("mu", real=True), sp.Symbol("v", real=True)
        mean_n = prop_value("mean", st)
        # the variance needs n >= 2 to be defined; for n = 1 the spread accumulator must be 0: treat (n-1) var_n as the spread
        var_n_times = sp.simplify(prop_value("var", st) * (n - 1))
        sol = sp.solve([sp.Eq(mean_n, MU), sp.Eq(var_n_times, (n - 1) * V)], [syms[a] for a in attrs], dict=True)
        if len(sol) != 1:
            raise NU(f"state not determined by (mean, variance): {len(sol)} solutions")
        st2 = {k: (v.subs(sol[0]) if hasattr(v, "subs") else v) for k, v in st.items()}
        run(add.node.body, st2, {})
        mean_n1 = sp.simplify(prop_value("mean", st2))
        var_n1_times = sp.simplify(prop_value("var", st2) * (st2["_count"] - 1))
        want_m = MU + (X - MU) / (n + 1)
        want_v = (n - 1) * V + (X - MU) * (X - want_m)
        ctx.check("R26.7", key1, sp.simplify(mean_n1 - want_m) == 0 and sp.simplify(st2["_count"] - n - 1) == 0, f"mean' = {mean_n1}", C, add.node)
        ctx.check("R26.7", key2, sp.simplify(var_n1_times - want_v) == 0, f"n var' = {var_n1_times}; expected {sp.simplify(want_v)}", C, add.node)
    except NU as exc:
        for k in (key0, key1, key2):
            ctx.und("R26.7", k, f"not understood: {exc}", C)
    except Exception as exc:  # sympy could not solve / simplify
        for k in (key0, key1, key2):
            ctx.und("R26.7", k, f"normaliser failed: {type(exc).__name__}: {exc}", C)
    # numerically stable form
    ctx.rule("R26.8", "StatCalculator.var is not a difference of accumulated raw moments (sum of squares minus squared sum / n): that "
                      "form loses all significant digits when the common offset of the values is large compared with their scatter; "
                      "the spread is accumulated from products of deviations from the running mean", floor=1)
    rets = [r for r in walk_no_nested(var.node) if isinstance(r, ast.Return) and r.value is not None]
    key = f"{var.key}::no cancellation of raw moments"
    if len(rets) != 1:
        ctx.und("R26.8", key, f"{len(rets)} returns", var)
        return
    loc = {st.targets[0].id: st.value for st in var.node.body if isinstance(st, ast.Assign) and isinstance(st.targets[0], ast.Name)}
    subs_attrs = set()
    for b in ast.walk(rets[0].value):
        if isinstance(b, ast.BinOp) and isinstance(b.op, ast.Sub):
            la = {x.attr for x in ast.walk(b.left) if isinstance(x, ast.Attribute) and src(x.value) == "self" and x.attr != "_count"}
            ra = {x.attr for x in ast.walk(b.right) if isinstance(x, ast.Attribute) and src(x.value) == "self" and x.attr != "_count"}
            if la and ra:
                subs_attrs |= la | ra
    # accumulators that only ever grow by (products of) the raw value
    raw = set()
    for st in ast.walk(add.node):
        if isinstance(st, ast.Assign) and isinstance(st.targets[0], ast.Attribute) and src(st.targets[0].value) == "self":
            a = st.targets[0].attr
            v = st.value
            if isinstance(v, ast.BinOp) and isinstance(v.op, ast.Add) and src(v.left) == f"self.{a}" and \
                    not any(isinstance(x, ast.Name) and x.id != xname for x in ast.walk(v.right)) and \
                    not any(isinstance(x, ast.Attribute) and src(x.value) == "self" for x in ast.walk(v.right)):
                raw.add(a)
    bad = sorted(subs_attrs & raw)
    if len(bad) >= 2:
        ctx.bad("R26.8", key, f"`{src(rets[0].value)}` subtracts the raw-moment accumulators {bad} from each other", var, rets[0])
    else:
        ctx.check("R26.8", key, True if not subs_attrs else None, src(rets[0].value), var, rets[0])


_run_c26b = run


def run(ctx):  # noqa: F811
    _run_c26b(ctx)
    r26_7(ctx, ctx.model)


# ---------------------------------------------------------------------------------------------------------------- R26.9 / R26.10
def r26_10(ctx, m):
    """statistics are computed from the samples in every class of the hierarchy"""
    R = "R26.10"
    ctx.rule(R, "sample statistics (average, sample_stat and their helpers) of every class in sample_list.py are computed from the "
                "samples: no return hands back a stored attribute (the expansion point `self._m` / `self.mean` of a residual list is "
                "NOT the sample average unless the residuals cancel) and every override delegates to the base implementation on all "
                "paths", floor=2)
    mod = m.module("nifty.cl.minimization.sample_list")
    names = ("average", "sample_stat", "_average_2tuple", "_prepare_average")
    n = 0
    for c in mod.classes.values():
        for nm in names:
            fi = c.methods.get(nm)
            if fi is None:
                continue
            ctx.saw_func(fi)
            n += 1
            bad = []
            for r in walk_no_nested(fi.node):
                if isinstance(r, ast.Return) and r.value is not None:
                    t = src(r.value)
                    if t in ("self._m", "self.mean", "self._mean") or (isinstance(r.value, ast.Tuple) and any(src(e) in ("self._m", "self.mean") for e in r.value.elts)):
                        bad.append(f"line {r.lineno}: `return {t}`")
            ctx.check(R, f"{fi.key}::computed from the samples", not bad,
                      "; ".join(bad) + ": the stored expansion point is returned instead of a statistic of the samples" if bad else "", fi)
    if not n:
        ctx.und(R, f"{mod.name}::statistics methods", "none found", mod)


_run_c26c = run


def run(ctx):  # noqa: F811
    _run_c26c(ctx)
    # which files a task reads on load is shareRange(n_samples, ntask, rank) (shared with C22)
    from .c22 import r22_9
    r22_9(ctx, ctx.model, rid="R26.9")
    r26_10(ctx, ctx.model)



# ---------------------------------------------------------------------------------------------------------------- R26.11
def r26_11(ctx, m):
    """variance of complex values is E|x - mean|^2: the accumulated product of the two deviations is Hermitian"""
    R = "R26.11"
    ctx.rule(R, "StatCalculator.add: the spread accumulates conj(x - mean_old) * (x - mean_new) (or a squared modulus) - for complex "
                "samples the plain product is the pseudo-variance, a complex number that is not the unbiased variance of the operator "
                "outputs (and whose square root is exported as the standard deviation)", floor=1)
    C = m.cls("nifty.cl.probing", "StatCalculator", required=False)
    add = C.methods.get("add") if C is not None else None
    if add is None:
        ctx.und(R, "nifty/cl/probing.py::StatCalculator.add", "missing", "nifty/cl/probing.py")
        return
    ctx.saw_func(add)
    xname = add.params()[1]
    deltas = set()
    for st in ast.walk(add.node):
        if isinstance(st, ast.Assign) and len(st.targets) == 1 and isinstance(st.targets[0], ast.Name) and isinstance(st.value, ast.BinOp) \
                and isinstance(st.value.op, ast.Sub) and src(st.value.left) == xname:
            deltas.add(st.targets[0].id)
    key = f"{add.key}::product of the two deviations is Hermitian"
    prods = []
    for z in ast.walk(add.node):
        if isinstance(z, ast.BinOp) and isinstance(z.op, ast.Mult):
            def base(e):
                c = 0
                while isinstance(e, ast.Call) and isinstance(e.func, ast.Attribute) and e.func.attr in ("conjugate", "conj") and not e.args:
                    e = e.func.value
                    c += 1
                return (e.id if isinstance(e, ast.Name) else None), c % 2
            (a, ca), (b, cb) = base(z.left), base(z.right)
            if a in deltas and b in deltas:
                prods.append((z, ca + cb))
    if not prods:
        mod2 = [z for z in ast.walk(add.node) if isinstance(z, ast.Call) and src(z.func) in ("abs", "np.abs") and any(isinstance(q, ast.Name) and q.id in deltas for q in ast.walk(z))]
        ctx.check(R, key, True if mod2 else None, "squared modulus" if mod2 else f"no product of the deviations {sorted(deltas)} found", add)
        return
    for z, nconj in prods:
        ctx.check(R, key, nconj == 1, f"`{src(z)}`" + ("" if nconj == 1 else ": no factor is conjugated - pseudo-variance for complex samples"), add, z)


_run_c26d = run


def run(ctx):  # noqa: F811
    _run_c26d(ctx)
    r26_11(ctx, ctx.model)


# --------------------------------------------------------------------------------------------------------------- R26.12
def r26_12(ctx, m):
    R = "R26.12"
    ctx.rule(R, "regular expressions that select the files of a stored list (sample_list.py): every part of the pattern that comes from a "
                "variable (the file name base chosen by the user) passes through re.escape, and the pattern covers the whole file name "
                "(re.fullmatch, or an explicit end anchor): an unescaped base with '+', '(', '[' finds nothing after save, '.' in it "
                "matches the files of a sibling list, and an open end accepts `x.0.pickle.bak` - load then returns another list or fails",
             floor=1)
    mod = m.module(SL)
    n = 0
    for fi in mod.all_functions:
        for c in walk_no_nested(fi.node):
            if not (isinstance(c, ast.Call) and isinstance(c.func, ast.Attribute) and src(c.func.value) == "re"
                    and c.func.attr in ("match", "fullmatch", "search", "compile", "findall", "finditer", "sub", "split") and c.args):
                continue
            pat = c.args[0]
            # resolve a local name once
            if isinstance(pat, ast.Name):
                defs = [st.value for st in walk_no_nested(fi.node) if isinstance(st, ast.Assign) and any(src(t) == pat.id for t in st.targets)]
                if len(defs) == 1:
                    pat = defs[0]
            dyn, lits = [], []

            def parts(e):
                if isinstance(e, ast.JoinedStr):
                    for v in e.values:
                        if isinstance(v, ast.FormattedValue):
                            dyn.append(v.value)
                        else:
                            parts(v)
                elif isinstance(e, ast.BinOp) and isinstance(e.op, ast.Add):
                    parts(e.left)
                    parts(e.right)
                elif isinstance(e, ast.Constant) and isinstance(e.value, str):
                    lits.append(e.value)
                else:
                    dyn.append(e)
            parts(pat)
            if not dyn:
                continue
            n += 1
            ctx.saw_func(fi)
            raw = [d for d in dyn if not (isinstance(d, ast.Call) and src(d.func) in ("re.escape", "escape"))]
            key = f"{fi.key}::`{short(c, 80)}` escapes its variable parts and matches the whole name"
            whole = c.func.attr == "fullmatch" or (lits and lits[-1].endswith(("$", "\\Z")) and dyn and not isinstance(pat, ast.Name))
            why = []
            if raw:
                why.append(f"`{src(raw[0])}` enters the pattern unescaped")
            if not whole:
                why.append(f"re.{c.func.attr} leaves the end of the name open")
            ctx.check(R, key, not why, "; ".join(why) if why else "escaped, whole-name match", fi, c)
    if not n:
        ctx.und(R, f"{mod.relpath}::patterns built from variables", "none found", mod.relpath)


_run_c26e = run


def run(ctx):  # noqa: F811
    _run_c26e(ctx)
    r26_12(ctx, ctx.model)
