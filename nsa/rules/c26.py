"""C26 - sample lists persist faithfully: writer/reader name agreement, stale-sample barrier, index discipline."""
import ast
import re._parser as sre_parse  # regex AST only; no NIFTy code is executed
import re._constants as sre_c

from ..model import src, short, walk_no_nested, call_name
from ..terms import inline_at
from ..util import cfg_of, find_nodes, known_atoms
from .c25 import tmp_name_template

SL = "nifty.cl.minimization.sample_list"


def fstring_parts(js):
    """JoinedStr -> list of ('lit', text) / ('var', source)"""
    out = []
    for v in js.values:
        if isinstance(v, ast.Constant):
            out.append(("lit", v.value))
        elif isinstance(v, ast.FormattedValue):
            out.append(("var", src(v.value)))
    return out


def run(ctx):
    m = ctx.model
    mod = m.module(SL)
    wfn = m.func(SL, "_sample_file_name")
    rfn = m.func(SL, "SampleListBase._list_local_sample_files")
    ctx.saw_func(wfn)
    ctx.saw_func(rfn)

    ctx.rule("R26.1", "writer/reader name agreement: every name the writer produces ({base}.{i}.pickle) is accepted by the "
                      "reader's regular expression, the index extraction returns the writer's i, the names the reader re-builds "
                      "are the writer's, the mean file and leftover temporary files are rejected", floor=6)
    wret = [r for r in walk_no_nested(wfn.node) if isinstance(r, ast.Return)]
    if len(wret) != 1 or not isinstance(wret[0].value, ast.JoinedStr):
        ctx.error("_sample_file_name no longer returns an f-string")
        return
    wparts = fstring_parts(wret[0].value)
    bparam, iparam = wfn.params()[:2]
    ok_shape = len(wparts) == 4 and wparts[0] == ("var", bparam) and wparts[1] == ("lit", ".") and wparts[2] == ("var", iparam) \
        and wparts[3][0] == "lit" and wparts[3][1].startswith(".") and "." not in wparts[3][1][1:]
    ctx.check("R26.1", f"{wfn.key}::writer template is {{base}}.{{i}}.<ext>", ok_shape, str(wparts), wfn)
    if not ok_shape:
        return
    ext = wparts[3][1][1:]
    # isample must be an int (so that str(i) is a digit string)
    int_guard = any(isinstance(n, ast.If) and src(n.test) == f"not isinstance({iparam}, int)" and any(isinstance(x, ast.Raise) for x in n.body)
                    for n in walk_no_nested(wfn.node))
    ctx.check("R26.1", f"{wfn.key}::index is checked to be an int", int_guard, None, wfn)
    # reader pattern
    matches = [c for c in ast.walk(rfn.node) if isinstance(c, ast.Call) and src(c.func) in ("re.match", "re.fullmatch", "re.search")]
    if len(matches) != 1 or not isinstance(matches[0].args[0], ast.JoinedStr):
        ctx.und("R26.1", f"{rfn.key}::reader pattern", "re.match(f'...') not found", rfn)
        return
    mcall = matches[0]
    pparts = fstring_parts(mcall.args[0])
    anchored_start = src(mcall.func) in ("re.match", "re.fullmatch")
    anchored_end = src(mcall.func) == "re.fullmatch" or (pparts and pparts[-1][0] == "lit" and pparts[-1][1].endswith("$"))
    key = f"{rfn.key}::pattern accepts every writer name"
    if not (len(pparts) == 2 and pparts[0][0] == "var" and pparts[1][0] == "lit"):
        ctx.und("R26.1", key, f"pattern shape {pparts}", rfn)
        return
    tail_pat = pparts[1][1]
    toks = list(sre_parse.parse(tail_pat))

    def covers_dot(tok):
        op, av = tok
        return op == sre_c.ANY or (op == sre_c.LITERAL and av == ord("."))

    def digit_class(tok):
        """MAX_REPEAT(min<=1, max=inf, [IN digits]) -> set of accepted chars or None"""
        op, av = tok
        if op not in (sre_c.MAX_REPEAT, sre_c.MIN_REPEAT):
            return None
        lo, hi, sub = av
        if lo > 1 or hi != sre_c.MAXREPEAT or len(sub) != 1:
            return None
        sop, sav = sub[0]
        chars = set()
        if sop == sre_c.IN:
            for iop, iav in sav:
                if iop == sre_c.RANGE:
                    chars |= {chr(c) for c in range(iav[0], iav[1] + 1)}
                elif iop == sre_c.LITERAL:
                    chars.add(chr(iav))
                elif iop == sre_c.CATEGORY and iav == sre_c.CATEGORY_DIGIT:
                    chars |= set("0123456789")
                else:
                    return None
            return chars, lo
        return None
    accept = False
    dclass = None
    min_digits = None
    if len(toks) >= 3 and covers_dot(toks[0]):
        dc = digit_class(toks[1])
        if dc is not None:
            dclass, min_digits = dc
            rest = toks[2:]
            want = "." + ext
            lits = []
            okrest = True
            for (op, av), ch in zip(rest, want):
                if ch == "." and covers_dot((op, av)):
                    continue
                if op == sre_c.LITERAL and chr(av) == ch:
                    continue
                okrest = False
            trailing = rest[len(want):]
            okrest = okrest and len(rest) >= len(want) and all(op == sre_c.AT for op, av in trailing)
            accept = set("0123456789") <= dclass and okrest
    ctx.check("R26.1", key, accept and anchored_start, f"pattern `{{base}}{tail_pat}` via {src(mcall.func)}; writer `{{base}}.<digits>.{ext}`", rfn, mcall)
    # the base in the pattern is the writer's base (basename of the same file_name_base)
    ctx.check("R26.1", f"{rfn.key}::pattern is built from the basename of the same file_name_base",
              "os.path.split(os.path.abspath(file_name_base))" in src(rfn.node) and pparts[0][1] == "base_file", pparts[0][1], rfn)
    # mean file rejected: after the dot the pattern needs >= 1 digit and 'm' is not in the class
    ctx.check("R26.1", f"{rfn.key}::the mean file {{base}}.mean.{ext} is not taken for a sample",
              dclass is not None and min_digits == 1 and not (dclass & set("mean")), f"digit class {sorted(dclass) if dclass else None}, min {min_digits}", rfn)
    # index extraction
    ext_ok = any(isinstance(c, ast.Call) and isinstance(c.func, ast.Name) and c.func.id == "int" and c.args and
                 src(c.args[0]).endswith(".split('.')[-2]") for c in ast.walk(rfn.node))
    ctx.check("R26.1", f"{rfn.key}::index = int(name.split('.')[-2]) (extension has no inner dot)", ext_ok and "." not in ext, None, rfn)
    # reconstruction template
    rec = [n for n in ast.walk(rfn.node) if isinstance(n, ast.JoinedStr) and n is not mcall.args[0] and
           any(p == ("lit", "." + ext) for p in fstring_parts(n)) and len(fstring_parts(n)) == 4]
    good = False
    if rec:
        rp = fstring_parts(rec[0])
        good = rp[0] == ("var", "file_name_base") and rp[1] == ("lit", ".") and rp[2][0] == "var" and rp[3] == ("lit", "." + ext)
    ctx.check("R26.1", f"{rfn.key}::re-built names use the writer's template", good, str(fstring_parts(rec[0])) if rec else "not found", rfn)
    tmp_vs_pattern(ctx, "R26.1", m)

    # ------------------------------------------------------------------ R26.2
    ctx.rule("R26.2", "stale-sample barrier: every save() removes/refuses the file of index n_samples (global count) before the "
                      "first sample is written, and the reader takes the longest run of indices starting at 0", floor=4)
    for cls in ("ResidualSampleList", "SampleList"):
        fi = m.func(SL, f"{cls}.save")
        ctx.saw_func(fi)
        cfg = cfg_of(fi)
        ens = [(n, c) for n, c in find_nodes(cfg, lambda q: isinstance(q, ast.Call) and call_name(q) == "_ensure_proper_sample_list_ending")]
        wr = [(n, c) for n, c in find_nodes(cfg, lambda q: isinstance(q, ast.Call) and call_name(q) == "_save_to_disk")]
        key = f"{fi.key}::barrier at index n_samples dominates the first write"
        if len(ens) != 1 or not wr:
            ctx.bad("R26.2", key, f"{len(ens)} barrier call(s), {len(wr)} write(s)", fi)
            continue
        en, ec = ens[0]
        a0 = ec.args[0] if ec.args else None
        good_arg = isinstance(a0, ast.Call) and call_name(a0) == "_sample_file_name" and [src(x) for x in a0.args] == [fi.params()[1], "self.n_samples"]
        dom = cfg.dominators()
        ctx.check("R26.2", key, good_arg and all(en.id in dom[w.id] for w, _ in wr) and src(ec.args[1]) == fi.params()[2] if len(ec.args) > 1 else False,
                  f"barrier call `{short(ec)}`", fi, ec)
    ens_f = m.func(SL, "_ensure_proper_sample_list_ending")
    ctx.saw_func(ens_f)
    body = src(ens_f.node)
    fpar = ens_f.params()[0]
    ctx.check("R26.2", f"{ens_f.key}::removes the next sample on overwrite, refuses otherwise",
              f"pathlib.Path({fpar}).unlink(missing_ok=True)" in body and f"os.path.isfile({fpar})" in body and "raise RuntimeError" in body, None, ens_f)
    cl = m.func(SL, "_consecutive_length")
    ctx.saw_func(cl)
    # recognised shape: guard `0 not in lst` raising, counter from 0, `while True: if c + 1 not in lst: return c + 1; c += 1`
    lst = cl.params()[0]
    shape = None
    whiles = [n for n in walk_no_nested(cl.node) if isinstance(n, ast.While)]
    if len(whiles) == 1 and src(whiles[0].test) == "True":
        ifs = [n for n in whiles[0].body if isinstance(n, ast.If)]
        incs = [n for n in whiles[0].body if isinstance(n, ast.AugAssign) and isinstance(n.op, ast.Add) and src(n.value) == "1"]
        if len(ifs) == 1 and len(incs) == 1 and isinstance(incs[0].target, ast.Name):
            cn = incs[0].target.id
            init0 = any(isinstance(n, ast.Assign) and src(n.targets[0]) == cn and src(n.value) == "0" for n in cl.node.body)
            t_ok = src(ifs[0].test) == f"{cn} + 1 not in {lst}"
            r_ok = len(ifs[0].body) == 1 and isinstance(ifs[0].body[0], ast.Return) and src(ifs[0].body[0].value) == f"{cn} + 1"
            z_ok = any(isinstance(n, ast.If) and src(n.test) == f"0 not in {lst}" and any(isinstance(x, ast.Raise) for x in n.body) for n in cl.node.body)
            shape = init0 and t_ok and r_ok and z_ok
    uses = [c for c in ast.walk(rfn.node) if isinstance(c, ast.Call) and call_name(c) == "_consecutive_length"]
    ctx.check("R26.2", f"{rfn.key}::sample count = longest run of indices starting at 0",
              (shape and len(uses) == 1) if shape is not None else None,
              "_consecutive_length is not the recognised gap scan (not decided)" if shape is None else None, rfn)

    # ------------------------------------------------------------------ R26.3
    ctx.rule("R26.3", "index discipline: each task names its files by the global index and takes the data by the local index; the "
                      "reader partitions the global count with shareRange", floor=3)
    for cls, store in (("ResidualSampleList", ("self._r", "self._n")), ("SampleList", ("self._s",))):
        fi = m.func(SL, f"{cls}.save")
        loops = [n for n in walk_no_nested(fi.node) if isinstance(n, ast.For) and src(n.iter) == "enumerate(self.local_indices)"]
        key = f"{fi.key}::file named by the global index, data taken by the local index"
        if len(loops) != 1 or not isinstance(loops[0].target, ast.Tuple):
            ctx.und("R26.3", key, "loop over enumerate(self.local_indices) not found", fi)
            continue
        li, gi = [src(e) for e in loops[0].target.elts]
        names = [c for c in ast.walk(loops[0]) if isinstance(c, ast.Call) and call_name(c) == "_sample_file_name"]
        data = [s_ for s_ in ast.walk(loops[0]) if isinstance(s_, ast.Subscript) and src(s_.value) in store]
        ctx.check("R26.3", key, len(names) == 1 and src(names[0].args[1]) == gi and bool(data) and all(src(d.slice) == li for d in data),
                  f"name index `{src(names[0].args[1]) if names else None}`, data indices {[src(d) for d in data]}", fi, loops[0])
    rcfg = cfg_of(rfn)
    rrd = rcfg.reaching_defs(rfn.params())
    sr = [(n, c) for n, c in find_nodes(rcfg, lambda q: isinstance(q, ast.Call) and call_name(q) == "shareRange")]
    okk = None
    if len(sr) == 1 and len(sr[0][1].args) == 3 and all(isinstance(a, ast.Name) for a in sr[0][1].args):
        n_, c_ = sr[0]
        def defsrc(nm):
            ds = rrd[n_.id].get(nm, frozenset())
            if len(ds) != 1:
                return None
            dn = rcfg.nodes[next(iter(ds))]
            return src(dn.ast.value) if dn.kind == "stmt" and isinstance(dn.ast, ast.Assign) else None
        a0, a1, a2 = [defsrc(a.id) for a in c_.args]
        okk = a0 is not None and a0.startswith("_consecutive_length(") and a1 is not None and a1 == a2 and a1.startswith("get_MPI_params_from_comm(")
        # positions 0 and 1 of the unpacked (ntask, rank, master)
        tg = [rcfg.nodes[next(iter(rrd[n_.id][c_.args[1].id]))].ast.targets[0]]
        okk = okk and isinstance(tg[0], ast.Tuple) and [src(e) for e in tg[0].elts[:2]] == [c_.args[1].id, c_.args[2].id]
    ctx.check("R26.3", f"{rfn.key}::reader partitions the global count over the tasks", okk, None, rfn)


def tmp_vs_pattern(ctx, rule, m):
    """leftover temporary files of the atomic writer must not look like samples to the reader"""
    rfn = m.func(SL, "SampleListBase._list_local_sample_files")
    std = m.func(SL, "_save_to_disk")
    matches = [c for c in ast.walk(rfn.node) if isinstance(c, ast.Call) and src(c.func) in ("re.match", "re.fullmatch", "re.search")]
    key = f"{std.key}::temporary names are rejected by the reader's pattern"
    if len(matches) != 1 or not isinstance(matches[0].args[0], ast.JoinedStr):
        ctx.und(rule, key, "reader pattern not found", rfn)
        return
    mcall = matches[0]
    pparts = fstring_parts(mcall.args[0])
    anchored_start = src(mcall.func) in ("re.match", "re.fullmatch")
    anchored_end = src(mcall.func) == "re.fullmatch" or (pparts and pparts[-1][0] == "lit" and pparts[-1][1].endswith("$"))
    tmp = tmp_name_template(m, std)
    if tmp is None:
        ctx.und(rule, key, "no os.replace in _save_to_disk", std)
        return
    t = src(tmp)
    prefix = isinstance(tmp, ast.Call) and call_name(tmp) == "join" and len(tmp.args) == 2 and isinstance(tmp.args[1], ast.BinOp) \
        and isinstance(tmp.args[1].left, ast.Constant) and isinstance(tmp.args[1].left.value, str) and tmp.args[1].left.value
    suffix = isinstance(tmp, ast.BinOp) and isinstance(tmp.op, ast.Add) and isinstance(tmp.right, ast.Constant)
    if prefix:
        ctx.check(rule, key, anchored_start, f"temporary `{t}` starts with a literal prefix; reader anchors at the start: {anchored_start}", std)
    elif suffix:
        ctx.check(rule, key, bool(anchored_end),
                  f"temporary `{t}` = final name + suffix: the reader's pattern is not anchored at the end, so a leftover temporary "
                  "file is taken for a sample and int(name.split('.')[-2]) fails on resume", std)
    else:
        ctx.und(rule, key, f"temporary name shape `{t}` not modelled", std)
