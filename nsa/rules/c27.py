"""C27 - the classic VI driver accepts every documented configuration
(definite assignment under option-consistent paths; RNG stack pairing; option validation)."""
import ast

from ..cfg import Atoms, assigned_names
from ..model import src, short, walk_no_nested, call_name
from ..util import cfg_of, find_nodes, known_atoms

MOD = "nifty.cl.minimization.optimize_kl"
BUILTINS = set(dir(__builtins__)) if not isinstance(__builtins__, dict) else set(__builtins__)


def module_globals(mod):
    g = set(mod.imports) | set(mod.classes) | set(mod.functions) | set(mod.assigns)
    for n in ast.walk(mod.tree):
        if isinstance(n, ast.Global):
            g.update(n.names)
    return g


def nonempty_loops(cfg, fn):
    """for-loops over range(a, b) that are provably entered: a dominating guard
    raises when a >= b.  Returns set of disabled edges (first-head 'done')."""
    dis = set()
    for n in cfg.nodes:
        if n.kind == "for" and n.first:
            it = n.ast.iter
            if isinstance(it, ast.Call) and isinstance(it.func, ast.Name) and it.func.id == "range" and len(it.args) == 2:
                a, b = src(it.args[0]), src(it.args[1])
                for t, pol in known_atoms(cfg, n.id):
                    s = src(t)
                    if (not pol and s in (f"{a} >= {b}", f"{b} <= {a}")) or (pol and s in (f"{a} < {b}", f"{b} > {a}")):
                        # the names must not be rebound between guard and loop: require single assignment / params
                        for b_, label in cfg.succ[n.id]:
                            if label == "done":
                                dis.add((n.id, b_, label))
    return dis


def definite_assignment(ctx, rule, fi, glob):
    """F-DEFUSE for one function.  Reports uses of locals that may be unbound
    along an option-consistent path."""
    fn = fi.node
    cfg = cfg_of(fi)
    params = fi.params()
    cnt = assigned_names(fn)
    declared_global = set()
    for n in walk_no_nested(fn):
        if isinstance(n, (ast.Global, ast.Nonlocal)):
            declared_global.update(n.names)
    locals_ = (set(cnt) | set(params)) - declared_global
    # imports inside the function bind locals too
    for n in walk_no_nested(fn):
        if isinstance(n, (ast.Import, ast.ImportFrom)):
            for al in n.names:
                locals_.add((al.asname or al.name).split(".")[0])
    locals_ -= declared_global
    # first pass: path-insensitive
    IN = cfg.definitely_assigned(params)
    suspects = []
    for n in cfg.nodes:
        if IN[n.id] is None:
            continue
        for u in cfg.node_uses(n):
            if u.id in locals_ and u.id not in IN[n.id]:
                suspects.append((n, u))
    n_uses = sum(len(cfg.node_uses(n)) for n in cfg.nodes)
    ctx.extra.setdefault("R27.1_uses_checked", 0)
    ctx.extra["R27.1_uses_checked"] += n_uses
    if not suspects:
        ctx.ok(rule, f"{fi.key}::all local uses definitely assigned", f"{n_uses} uses, path-insensitive", fi)
        return
    # second pass: enumerate valuations of the stable option atoms.  "strict"
    # additionally assumes that for-loops are entered at least once and that an
    # if/elif chain comparing one expression against constants is exhaustive:
    # what is unbound only without these assumptions is undecided, not violated.
    at = Atoms(fn)
    vals, names, opaque = at.valuations(cfg)
    proven = nonempty_loops(cfg, fn)
    assumed = set(proven)
    for n in cfg.nodes:
        if n.kind == "for" and n.first:
            for b_, label in cfg.succ[n.id]:
                if label == "done":
                    assumed.add((n.id, b_, label))
    assumed |= switch_fallthrough_edges(cfg, fn)
    done = set()
    for n, u in suspects:
        k = (u.id, n.id)
        if k in done:
            continue
        done.add(k)
        key = f"{fi.key}::use of `{u.id}` in `{short(n.text(), 70)}`"
        if vals is None:
            ctx.und(rule, key, f"too many option atoms to enumerate ({len(names)} names, {len(opaque)} opaque)", fi, u)
            continue
        witness = None
        relaxed = False
        for v in vals:
            dis0 = at.disabled_edges(cfg, v)
            INv = cfg.definitely_assigned(params, disabled=dis0 | assumed)
            if INv[n.id] is not None and u.id not in INv[n.id]:
                path = _path_avoiding_defs(cfg, n.id, u.id, dis0 | assumed)
                witness = {"options": dict(v), "path": cfg.describe_path(path)}
                break
            if not relaxed:
                INr = cfg.definitely_assigned(params, disabled=dis0 | proven)
                if INr[n.id] is not None and u.id not in INr[n.id]:
                    relaxed = True
        if witness is not None:
            rel = _relevant_options(at, cfg, n.id, u.id, witness["options"], params, assumed)
            ctx.bad(rule, key, f"local `{u.id}` can be unbound here, e.g. with " +
                    ", ".join(f"{k_}={v_}" for k_, v_ in rel.items()), fi, u, witness=witness)
        elif relaxed:
            ctx.und(rule, key, "unbound only if a for-loop runs zero times or an if/elif chain over one expression "
                               "falls through (not decided)", fi, u)
        else:
            ctx.ok(rule, key, f"unassigned only on option-inconsistent paths ({len(vals)} valuations of {names + opaque})", fi, u)


def switch_fallthrough_edges(cfg, fn):
    """if E == c1: ... elif E == c2: ... (no else): the edge taken when every
    comparison fails."""
    out = set()
    for st in walk_no_nested(fn):
        if not isinstance(st, ast.If):
            continue
        chain, cur = [], st
        while True:
            chain.append(cur)
            if len(cur.orelse) == 1 and isinstance(cur.orelse[0], ast.If):
                cur = cur.orelse[0]
            else:
                break
        if len(chain) < 2 or chain[-1].orelse:
            continue
        subj = set()
        for c in chain:
            t = c.test
            if isinstance(t, ast.Compare) and len(t.ops) == 1 and isinstance(t.ops[0], (ast.Eq, ast.Is)) \
                    and isinstance(t.comparators[0], ast.Constant):
                subj.add(src(t.left))
            elif isinstance(t, ast.Call) and isinstance(t.func, ast.Name) and t.func.id == "isinstance" and t.args:
                subj.add("isinstance:" + src(t.args[0]))
            else:
                subj.add(None)
        if len(subj) == 1 and None not in subj:
            for tn in cfg.nodes_of(chain[-1]):
                for b_, label in cfg.succ[tn.id]:
                    if label == "F":
                        out.add((tn.id, b_, label))
    return out


def _relevant_options(at, cfg, nid, name, val, params, assumed):
    """Minimise the witness valuation: drop options whose value does not matter."""
    rel = dict(val)
    for k in list(rel):
        trial = {a: b for a, b in rel.items() if a != k}
        dis = at.disabled_edges(cfg, trial) | assumed
        INv = cfg.definitely_assigned(params, disabled=dis)
        # dropping k must keep the use unbound under *every* value of k -> k irrelevant
        alts = ("none", "falsy", "truthy") if rel[k] in ("none", "falsy", "truthy") else (False, True)
        irrelevant = True
        for alt in alts:
            t2 = dict(trial)
            t2[k] = alt
            IN2 = cfg.definitely_assigned(params, disabled=at.disabled_edges(cfg, t2) | assumed)
            if IN2[nid] is None or name in IN2[nid]:
                irrelevant = False
                break
        if irrelevant:
            rel = trial
    return rel


def _path_avoiding_defs(cfg, goal, name, dis):
    # remove edges that bind `name`
    extra = set(dis)
    avoid = set()
    for d in cfg.nodes:
        if name in cfg.node_defs(d):
            avoid.add(d.id)
        for b, label in cfg.succ[d.id]:
            if name in cfg.edge_defs(d.id, label):
                extra.add((d.id, b, label))
    return cfg.path(cfg.entry.id, goal, avoid=avoid, disabled=extra)


def pairing(ctx, rule, fi, push_names=("push_sseq", "push_sseq_from_seed"), pop_name="pop_sseq"):
    """F-PAIR: after every push, every path to the function exit, to a loop back
    edge of the enclosing loop and out of the loop passes a pop."""
    if not any(isinstance(q, ast.Call) and call_name(q) in push_names for q in walk_no_nested(fi.node)):
        return 0
    cfg = cfg_of(fi)
    pushes = [n for n, c in find_nodes(cfg, lambda q: isinstance(q, ast.Call) and call_name(q) in push_names)]
    pops = [n for n, c in find_nodes(cfg, lambda q: isinstance(q, ast.Call) and call_name(q) == pop_name)]
    popids = [p.id for p in pops]
    count = 0
    for p in pushes:
        count += 1
        key = f"{fi.key}::{p.text()[:80]}"
        # terminal targets: normal exit, and the push node itself again (next iteration)
        targets = {cfg.exit.id, p.id}
        jumps = {n.id for n in cfg.nodes if n.kind == "stmt" and isinstance(n.ast, (ast.Continue, ast.Break, ast.Return))}
        # first jump statements reachable from the push without a pop
        first = cfg.reachable_after(p.id, avoid=set(popids), include_exc=False)
        # do not expand beyond jumps: recompute with jumps as barriers (they are included when reached)
        seen, stack = set(), [b for b, l in cfg.succ[p.id] if l != "exc"]
        offenders, fall = [], []
        while stack:
            a = stack.pop()
            if a in seen or a in popids:
                continue
            seen.add(a)
            if a in jumps:
                # does this jump lead to a terminal target without a pop?
                r = cfg.reachable_after(a, avoid=set(popids), include_exc=False)
                if r & targets:
                    offenders.append(a)
                continue
            if a in targets:
                fall.append(a)
                continue
            for b, l in cfg.succ[a]:
                if l != "exc":
                    stack.append(b)
        if not offenders and not fall:
            ctx.ok(rule, key, f"every path from the push to the next iteration / function exit passes {pop_name}()", fi, p.ast)
        for a in sorted(offenders):
            off = cfg.nodes[a]
            path = cfg.path(p.id, a, avoid=popids, include_exc=False, after=True)
            ctx.bad(rule, f"{key}::leaves via `{off.text()[:60]}` under `{_guard_text(cfg, off)}`",
                    f"a path from the push leaves the iteration through `{off.text()[:60]}` (line {off.lineno}) "
                    f"without {pop_name}()", fi, off.ast, witness=cfg.describe_path(path, limit=14))
        for a in sorted(fall):
            path = cfg.path(p.id, a, avoid=popids, include_exc=False, after=True)
            ctx.bad(rule, f"{key}::falls through to {'next iteration' if a == p.id else 'function exit'}",
                    f"a path from the push reaches {'the next iteration' if a == p.id else 'the function exit'} "
                    f"without {pop_name}()", fi, p.ast, witness=cfg.describe_path(path, limit=14))
    return count


def _guard_text(cfg, n):
    from ..util import guards
    g = guards(cfg, n.id)
    if not g:
        return "True"
    t, pol = g[-1]
    return ("" if pol else "not ") + src(t)


def run(ctx):
    m = ctx.model
    mod = m.module(MOD)
    okl = m.func(MOD, "optimize_kl")
    glob = module_globals(mod)

    ctx.rule("R27.1", "no use of a local in optimize_kl and its helpers is reachable unassigned along an "
                      "option-consistent path (valuations of never-rebound option parameters enumerated; "
                      "range loops proved non-empty by a dominating raise are entered)", floor=10)
    for fi in mod.all_functions:
        if fi.parent is not None:
            continue
        ctx.saw_func(fi)
        definite_assignment(ctx, "R27.1", fi, glob)

    ctx.rule("R27.2", "from push_sseq at the top of an iteration every path to the next iteration, to a break and to "
                      "return passes pop_sseq (global RNG stack restored)", floor=1)
    cnt = 0
    for fi in mod.all_functions:
        cnt += pairing(ctx, "R27.2", fi)
    if cnt == 0:
        ctx.error("R27.2: no push_sseq call found in optimize_kl.py")

    ctx.rule("R27.3", "enumerated options are validated before first use: save_strategy membership test raises before "
                      "the value is stored/used; reserved-key check precedes directory creation", floor=2)
    cfg = cfg_of(okl)
    # save_strategy
    vnodes = [n for n in cfg.nodes if n.kind == "test" and "save_strategy" in src(n.ast) and
              any(isinstance(x, (ast.In, ast.NotIn)) for x in ast.walk(n.ast))]
    uses = [n for n in cfg.nodes if n.kind != "test" and n.kind not in ("entry", "exit", "raise")
            and any(u.id == "save_strategy" for u in cfg.node_uses(n))]
    key = f"{okl.key}::save_strategy validated before use"
    if not vnodes:
        ctx.bad("R27.3", key, "no membership test of save_strategy", okl)
    else:
        v = vnodes[0]
        lit = None
        for x in ast.walk(v.ast):
            if isinstance(x, ast.Compare) and isinstance(x.comparators[0], (ast.List, ast.Tuple, ast.Set)):
                lit = sorted(e.value for e in x.comparators[0].elts if isinstance(e, ast.Constant))
        dom = cfg.dominators()
        okk = all(v.id in dom.get(u.id, ()) for u in uses if u.id in dom)
        # the accepted literals must be exactly those _file_name_by_strategy handles
        fns = m.func(MOD, "_file_name_by_strategy")
        handled = sorted({c.value for x in ast.walk(fns.node) if isinstance(x, ast.Compare)
                          and isinstance(x.left, ast.Name) and x.left.id == "save_strategy"
                          for c in x.comparators if isinstance(c, ast.Constant) and c.value != "global_strategy"})
        ctx.check("R27.3", key, okk and lit == handled,
                  f"validated set {lit} vs handled {handled}; validation dominates uses: {okk}", okl, v.ast)
    # reserved key check before makedirs
    rnodes = [n for n in cfg.nodes if n.kind == "test" and "export_operator_outputs" in src(n.ast) and "pickle" in src(n.ast)]
    mk = [n for n, c in find_nodes(cfg, lambda q: isinstance(q, ast.Call) and call_name(q) == "makedirs")]
    key = f"{okl.key}::reserved key check dominates directory creation"
    if not rnodes or not mk:
        ctx.und("R27.3", key, "check or makedirs not found", okl)
    else:
        dom = cfg.dominators()
        ctx.check("R27.3", key, all(rnodes[0].id in dom[k.id] for k in mk if k.id in dom), None, okl, rnodes[0].ast)
