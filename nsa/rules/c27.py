"""C27 - the classic VI driver accepts every documented configuration
(definite assignment under option-consistent paths; RNG stack pairing; option validation)."""
import ast

from ..cfg import Atoms, assigned_names
from ..model import src, short, walk_no_nested, call_name
from ..util import cfg_of, find_nodes, known_atoms

MOD = "nifty.cl.minimization.optimize_kl"
BUILTINS = set(dir(__builtins__)) if not isinstance(__builtins__, dict) else set(__builtins__)


def module_globals(mod):
    g = set(mod.imports) | set(mod.classes) | set(mod.functions) | set(mod.assigns)
    for n in ast.walk(mod.tree):
        if isinstance(n, ast.Global):
            g.update(n.names)
    return g


def nonempty_loops(cfg, fn):
    """for-loops over range(a, b) that are provably entered: a dominating guard
    raises when a >= b.  Returns set of disabled edges (first-head 'done')."""
    dis = set()
    for n in cfg.nodes:
        if n.kind == "for" and n.first:
            it = n.ast.iter
            if isinstance(it, ast.Call) and isinstance(it.func, ast.Name) and it.func.id == "range" and len(it.args) == 2:
                a, b = src(it.args[0]), src(it.args[1])
                for t, pol in known_atoms(cfg, n.id):
                    s = src(t)
                    if (not pol and s in (f"{a} >= {b}", f"{b} <= {a}")) or (pol and s in (f"{a} < {b}", f"{b} > {a}")):
                        # the names must not be rebound between guard and loop: require single assignment / params
                        for b_, label in cfg.succ[n.id]:
                            if label == "done":
                                dis.add((n.id, b_, label))
    return dis


def definite_assignment(ctx, rule, fi, glob):
    """F-DEFUSE for one function.  Reports uses of locals that may be unbound
    along an option-consistent path."""
    fn = fi.node
    cfg = cfg_of(fi)
    params = fi.params()
    cnt = assigned_names(fn)
    declared_global = set()
    for n in walk_no_nested(fn):
        if isinstance(n, (ast.Global, ast.Nonlocal)):
            declared_global.update(n.names)
    locals_ = (set(cnt) | set(params)) - declared_global
    # imports inside the function bind locals too
    for n in walk_no_nested(fn):
        if isinstance(n, (ast.Import, ast.ImportFrom)):
            for al in n.names:
                locals_.add((al.asname or al.name).split(".")[0])
    locals_ -= declared_global
    # first pass: path-insensitive
    IN = cfg.definitely_assigned(params)
    suspects = []
    for n in cfg.nodes:
        if IN[n.id] is None:
            continue
        for u in cfg.node_uses(n):
            if u.id in locals_ and u.id not in IN[n.id]:
                suspects.append((n, u))
    n_uses = sum(len(cfg.node_uses(n)) for n in cfg.nodes)
    ctx.extra.setdefault("R27.1_uses_checked", 0)
    ctx.extra["R27.1_uses_checked"] += n_uses
    if not suspects:
        ctx.ok(rule, f"{fi.key}::all local uses definitely assigned", f"{n_uses} uses, path-insensitive", fi)
        return
    # second pass: enumerate valuations of the stable option atoms.  "strict"
    # additionally assumes that for-loops are entered at least once and that an
    # if/elif chain comparing one expression against constants is exhaustive:
    # what is unbound only without these assumptions is undecided, not violated.
    at = Atoms(fn)
    vals, names, opaque = at.valuations(cfg)
    proven = nonempty_loops(cfg, fn)
    assumed = set(proven)
    for n in cfg.nodes:
        if n.kind == "for" and n.first:
            for b_, label in cfg.succ[n.id]:
                if label == "done":
                    assumed.add((n.id, b_, label))
    assumed |= switch_fallthrough_edges(cfg, fn)
    done = set()
    for n, u in suspects:
        k = (u.id, n.id)
        if k in done:
            continue
        done.add(k)
        key = f"{fi.key}::use of `{u.id}` in `{short(n.text(), 70)}`"
        if vals is None:
            ctx.und(rule, key, f"too many option atoms to enumerate ({len(names)} names, {len(opaque)} opaque)", fi, u)
            continue
        witness = None
        relaxed = False
        for v in vals:
            dis0 = at.disabled_edges(cfg, v)
            INv = cfg.definitely_assigned(params, disabled=dis0 | assumed)
            if INv[n.id] is not None and u.id not in INv[n.id]:
                path = _path_avoiding_defs(cfg, n.id, u.id, dis0 | assumed)
                witness = {"options": dict(v), "path": cfg.describe_path(path)}
                break
            if not relaxed:
                INr = cfg.definitely_assigned(params, disabled=dis0 | proven)
                if INr[n.id] is not None and u.id not in INr[n.id]:
                    relaxed = True
        if witness is not None:
            rel = _relevant_options(at, cfg, n.id, u.id, witness["options"], params, assumed)
            ctx.bad(rule, key, f"local `{u.id}` can be unbound here, e.g. with " +
                    ", ".join(f"{k_}={v_}" for k_, v_ in rel.items()), fi, u, witness=witness)
        elif relaxed:
            ctx.und(rule, key, "unbound only if a for-loop runs zero times or an if/elif chain over one expression "
                               "falls through (not decided)", fi, u)
        else:
            ctx.ok(rule, key, f"unassigned only on option-inconsistent paths ({len(vals)} valuations of {names + opaque})", fi, u)


def switch_fallthrough_edges(cfg, fn):
    """if E == c1: ... elif E == c2: ... (no else): the edge taken when every
    comparison fails."""
    out = set()
    for st in walk_no_nested(fn):
        if not isinstance(st, ast.If):
            continue
        chain, cur = [], st
        while True:
            chain.append(cur)
            if len(cur.orelse) == 1 and isinstance(cur.orelse[0], ast.If):
                cur = cur.orelse[0]
            else:
                break
        if len(chain) < 2 or chain[-1].orelse:
            continue
        subj = set()
        for c in chain:
            t = c.test
            if isinstance(t, ast.Compare) and len(t.ops) == 1 and isinstance(t.ops[0], (ast.Eq, ast.Is)) \
                    and isinstance(t.comparators[0], ast.Constant):
                subj.add(src(t.left))
            elif isinstance(t, ast.Call) and isinstance(t.func, ast.Name) and t.func.id == "isinstance" and t.args:
                subj.add("isinstance:" + src(t.args[0]))
            else:
                subj.add(None)
        if len(subj) == 1 and None not in subj:
            for tn in cfg.nodes_of(chain[-1]):
                for b_, label in cfg.succ[tn.id]:
                    if label == "F":
                        out.add((tn.id, b_, label))
    return out


def _relevant_options(at, cfg, nid, name, val, params, assumed):
    """Minimise the witness valuation: drop options whose value does not matter."""
    rel = dict(val)
    for k in list(rel):
        trial = {a: b for a, b in rel.items() if a != k}
        dis = at.disabled_edges(cfg, trial) | assumed
        INv = cfg.definitely_assigned(params, disabled=dis)
        # dropping k must keep the use unbound under *every* value of k -> k irrelevant
        alts = ("none", "falsy", "truthy") if rel[k] in ("none", "falsy", "truthy") else (False, True)
        irrelevant = True
        for alt in alts:
            t2 = dict(trial)
            t2[k] = alt
            IN2 = cfg.definitely_assigned(params, disabled=at.disabled_edges(cfg, t2) | assumed)
            if IN2[nid] is None or name in IN2[nid]:
                irrelevant = False
                break
        if irrelevant:
            rel = trial
    return rel


def _path_avoiding_defs(cfg, goal, name, dis):
    # remove edges that bind `name`
    extra = set(dis)
    avoid = set()
    for d in cfg.nodes:
        if name in cfg.node_defs(d):
            avoid.add(d.id)
        for b, label in cfg.succ[d.id]:
            if name in cfg.edge_defs(d.id, label):
                extra.add((d.id, b, label))
    return cfg.path(cfg.entry.id, goal, avoid=avoid, disabled=extra)


def pairing(ctx, rule, fi, push_names=("push_sseq", "push_sseq_from_seed"), pop_name="pop_sseq"):
    """F-PAIR: after every push, every path to the function exit, to a loop back
    edge of the enclosing loop and out of the loop passes a pop."""
    if not any(isinstance(q, ast.Call) and call_name(q) in push_names for q in walk_no_nested(fi.node)):
        return 0
    cfg = cfg_of(fi)
    pushes = [n for n, c in find_nodes(cfg, lambda q: isinstance(q, ast.Call) and call_name(q) in push_names)]
    pops = [n for n, c in find_nodes(cfg, lambda q: isinstance(q, ast.Call) and call_name(q) == pop_name)]
    popids = [p.id for p in pops]
    count = 0
    for p in pushes:
        count += 1
        key = f"{fi.key}::{p.text()[:80]}"
        # terminal targets: normal exit, and the push node itself again (next iteration)
        targets = {cfg.exit.id, p.id}
        jumps = {n.id for n in cfg.nodes if n.kind == "stmt" and isinstance(n.ast, (ast.Continue, ast.Break, ast.Return))}
        # first jump statements reachable from the push without a pop
        first = cfg.reachable_after(p.id, avoid=set(popids), include_exc=False)
        # do not expand beyond jumps: recompute with jumps as barriers (they are included when reached)
        seen, stack = set(), [b for b, l in cfg.succ[p.id] if l != "exc"]
        offenders, fall = [], []
        while stack:
            a = stack.pop()
            if a in seen or a in popids:
                continue
            seen.add(a)
            if a in jumps:
                # does this jump lead to a terminal target without a pop?
                r = cfg.reachable_after(a, avoid=set(popids), include_exc=False)
                if r & targets:
                    offenders.append(a)
                continue
            if a in targets:
                fall.append(a)
                continue
            for b, l in cfg.succ[a]:
                if l != "exc":
                    stack.append(b)
        if not offenders and not fall:
            ctx.ok(rule, key, f"every path from the push to the next iteration / function exit passes {pop_name}()", fi, p.ast)
        for a in sorted(offenders):
            off = cfg.nodes[a]
            path = cfg.path(p.id, a, avoid=popids, include_exc=False, after=True)
            ctx.bad(rule, f"{key}::leaves via `{off.text()[:60]}` under `{_guard_text(cfg, off)}`",
                    f"a path from the push leaves the iteration through `{off.text()[:60]}` (line {off.lineno}) "
                    f"without {pop_name}()", fi, off.ast, witness=cfg.describe_path(path, limit=14))
        for a in sorted(fall):
            path = cfg.path(p.id, a, avoid=popids, include_exc=False, after=True)
            ctx.bad(rule, f"{key}::falls through to {'next iteration' if a == p.id else 'function exit'}",
                    f"a path from the push reaches {'the next iteration' if a == p.id else 'the function exit'} "
                    f"without {pop_name}()", fi, p.ast, witness=cfg.describe_path(path, limit=14))
    return count


def _guard_text(cfg, n):
    from ..util import guards
    g = guards(cfg, n.id)
    if not g:
        return "True"
    t, pol = g[-1]
    return ("" if pol else "not ") + src(t)


def run(ctx):
    m = ctx.model
    mod = m.module(MOD)
    okl = m.func(MOD, "optimize_kl")
    glob = module_globals(mod)

    ctx.rule("R27.1", "no use of a local in optimize_kl and its helpers is reachable unassigned along an "
                      "option-consistent path (valuations of never-rebound option parameters enumerated; "
                      "range loops proved non-empty by a dominating raise are entered)", floor=10)
    for fi in mod.all_functions:
        if fi.parent is not None:
            continue
        ctx.saw_func(fi)
        definite_assignment(ctx, "R27.1", fi, glob)

    ctx.rule("R27.2", "from push_sseq at the top of an iteration every path to the next iteration, to a break and to "
                      "return passes pop_sseq (global RNG stack restored)", floor=1)
    cnt = 0
    for fi in mod.all_functions:
        cnt += pairing(ctx, "R27.2", fi)
    if cnt == 0:
        ctx.error("R27.2: no push_sseq call found in optimize_kl.py")

    r27_4(ctx, m, okl)
    r27_5(ctx, m, mod, okl)
    r27_6(ctx, m, okl)
    r27_7(ctx, m, okl)
    ctx.rule("R27.3", "enumerated options are validated before first use: save_strategy membership test raises before "
                      "the value is stored/used; reserved-key check precedes directory creation", floor=2)
    cfg = cfg_of(okl)
    # save_strategy
    vnodes = [n for n in cfg.nodes if n.kind == "test" and "save_strategy" in src(n.ast) and
              any(isinstance(x, (ast.In, ast.NotIn)) for x in ast.walk(n.ast))]
    uses = [n for n in cfg.nodes if n.kind != "test" and n.kind not in ("entry", "exit", "raise")
            and any(u.id == "save_strategy" for u in cfg.node_uses(n))]
    key = f"{okl.key}::save_strategy validated before use"
    if not vnodes:
        ctx.bad("R27.3", key, "no membership test of save_strategy", okl)
    else:
        v = vnodes[0]
        lit = None
        for x in ast.walk(v.ast):
            if isinstance(x, ast.Compare) and isinstance(x.comparators[0], (ast.List, ast.Tuple, ast.Set)):
                lit = sorted(e.value for e in x.comparators[0].elts if isinstance(e, ast.Constant))
        dom = cfg.dominators()
        okk = all(v.id in dom.get(u.id, ()) for u in uses if u.id in dom)
        # the accepted literals must be exactly those _file_name_by_strategy handles
        fns = m.func(MOD, "_file_name_by_strategy")
        handled = sorted({c.value for x in ast.walk(fns.node) if isinstance(x, ast.Compare)
                          and isinstance(x.left, ast.Name) and x.left.id == "save_strategy"
                          for c in x.comparators if isinstance(c, ast.Constant) and c.value != "global_strategy"})
        ctx.check("R27.3", key, okk and lit == handled,
                  f"validated set {lit} vs handled {handled}; validation dominates uses: {okk}", okl, v.ast)
    # reserved key check before makedirs
    rnodes = [n for n in cfg.nodes if n.kind == "test" and "export_operator_outputs" in src(n.ast) and "pickle" in src(n.ast)]
    mk = [n for n, c in find_nodes(cfg, lambda q: isinstance(q, ast.Call) and call_name(q) == "makedirs")]
    key = f"{okl.key}::reserved key check dominates directory creation"
    if not rnodes or not mk:
        ctx.und("R27.3", key, "check or makedirs not found", okl)
    else:
        dom = cfg.dominators()
        ctx.check("R27.3", key, all(rnodes[0].id in dom[k.id] for k in mk if k.id in dom), None, okl, rnodes[0].ast)


def r27_4(ctx, m, okl):
    """per-iteration options are evaluated at the iteration they are used for"""
    ctx.rule("R27.4", "per-iteration options (made callable by _make_callable) are evaluated with the loop's own index inside every "
                      "loop over iterations: no value obtained from option(<fixed index>) outside the loop is used for all iterations", floor=10)
    cfg = cfg_of(okl)
    rd = cfg.reaching_defs(okl.params())
    P = set()
    for st in walk_no_nested(okl.node):
        if isinstance(st, ast.Assign) and isinstance(st.value, ast.Call) and call_name(st.value) == "_make_callable" \
                and isinstance(st.targets[0], ast.Name):
            P.add(st.targets[0].id)
    ctx.extra["per_iteration_options"] = sorted(P)
    loops = [n for n in cfg.nodes if n.kind == "for" and n.first and isinstance(n.ast.target, ast.Name)
             and isinstance(n.ast.iter, ast.Call) and call_name(n.ast.iter) == "range" and "total_iterations" in src(n.ast.iter)]
    n_checked = 0
    for ln in loops:
        lp = ln.ast
        v = lp.target.id
        inside = set()
        for x in ast.walk(lp):
            inside.add(id(x))
        # aliases of the option callables inside the loop: `for (obj, cls) in [(opt, T), ...]`
        alias = set()
        for x in ast.walk(lp):
            if isinstance(x, ast.For) and x is not lp and isinstance(x.iter, (ast.List, ast.Tuple)):
                for e in x.iter.elts:
                    if isinstance(e, ast.Tuple) and e.elts and isinstance(e.elts[0], ast.Name) and e.elts[0].id in P:
                        t = x.target.elts[0] if isinstance(x.target, ast.Tuple) else x.target
                        if isinstance(t, ast.Name):
                            alias.add(t.id)
        for n in cfg.nodes:
            if n.ast is None or id(n.ast) not in inside or rd[n.id] is None:
                continue
            roots = [n.ast] if n.kind in ("stmt", "test") else ([n.ast.iter] if n.kind == "for" and n.first and n.ast is not lp else [])
            for r in roots:
                for c in walk_no_nested(r, include_self=True):
                    if isinstance(c, ast.Call) and isinstance(c.func, ast.Name) and (c.func.id in P or c.func.id in alias) and len(c.args) == 1:
                        n_checked += 1
                        a = src(c.args[0])
                        ctx.check("R27.4", f"{okl.key}::loop over {v}: {src(c)}", a == v,
                                  f"option `{c.func.id}` is evaluated at `{a}` inside the loop over `{v}`", okl, c)
                for u in cfg.node_uses(n) if n.kind in ("stmt", "test") else []:
                    for d in rd[n.id].get(u.id, ()):
                        dn = cfg.nodes[d]
                        if dn.kind == "stmt" and isinstance(dn.ast, ast.Assign) and id(dn.ast) not in inside \
                                and isinstance(dn.ast.value, ast.Call) and isinstance(dn.ast.value.func, ast.Name) \
                                and dn.ast.value.func.id in P and len(dn.ast.targets) == 1 and isinstance(dn.ast.targets[0], ast.Name):
                            n_checked += 1
                            ctx.bad("R27.4", f"{okl.key}::loop over {v}: uses `{u.id}` = {src(dn.ast.value)}",
                                    f"`{u.id}` was obtained from the per-iteration option `{dn.ast.value.func.id}` at a fixed index outside "
                                    f"the loop and is used for every iteration: configurations whose option changes with the iteration "
                                    "are judged by the wrong value", okl, u)
    ctx.extra["R27.4_sites"] = n_checked


def r27_5(ctx, m, mod, okl):
    """output sub-directories are created under the same flag that enables their writer"""
    ctx.rule("R27.5", "every output sub-directory a plotting helper writes to is created under the same option that enables that helper", floor=2)
    # usage: helper -> directory literal it joins under _output_directory
    helper_dir = {}
    for fi in mod.all_functions:
        if fi.parent is not None or not fi.name.startswith("_plot"):
            continue
        for c in walk_no_nested(fi.node):
            if isinstance(c, ast.Call) and call_name(c) == "join" and c.args and src(c.args[0]) == "_output_directory" and len(c.args) >= 2 \
                    and isinstance(c.args[1], ast.Constant):
                helper_dir[fi.name] = c.args[1].value
    # flag guarding each helper call (in any function of the module); flags are parameter names starting with plot_
    usage = {}
    for fi in mod.all_functions:
        if fi.parent is not None:
            continue
        cfg = cfg_of(fi)
        for n, c in find_nodes(cfg, lambda q: isinstance(q, ast.Call) and isinstance(q.func, ast.Name) and q.func.id in helper_dir):
            flags = [src(t) for t, pol in known_atoms(cfg, n.id) if pol and isinstance(t, ast.Name) and t.id.startswith("plot_")]
            if flags:
                usage[helper_dir[c.func.id]] = flags[-1]
    # creation: `if FLAG: subfolders += [LIT]`  or  `for flag, sub in [(FLAG, LIT), ...]: if flag: subfolders += [sub]`
    creation = {}
    shape_ok = True
    # the list of sub-directories: the name iterated by the loop that calls makedirs(join(output_directory, <loop var>))
    sfn = None
    for st in walk_no_nested(okl.node):
        if isinstance(st, ast.For) and isinstance(st.iter, ast.Name) and isinstance(st.target, ast.Name) and any(
                isinstance(c, ast.Call) and call_name(c) == "makedirs" and st.target.id in src(c) for c in ast.walk(st)):
            sfn = st.iter.id
    if sfn is None:
        ctx.und("R27.5", f"{okl.key}::sub-directory creation", "makedirs loop not found", okl)
        return
    for st in walk_no_nested(okl.node):
        if isinstance(st, ast.If) and isinstance(st.test, ast.Name):
            for s2 in st.body:
                if isinstance(s2, ast.AugAssign) and src(s2.target) == sfn and isinstance(s2.value, ast.List):
                    for e in s2.value.elts:
                        if isinstance(e, ast.Constant):
                            creation[e.value] = st.test.id
                        elif isinstance(e, ast.Name):
                            shape_ok = shape_ok and False
        if isinstance(st, ast.For) and isinstance(st.iter, (ast.List, ast.Tuple)) and isinstance(st.target, ast.Tuple) and len(st.target.elts) == 2 \
                and any(isinstance(x, ast.Name) and x.id == sfn for x in ast.walk(st)):
            fl, sub = [src(e) for e in st.target.elts]
            body_ok = any(isinstance(b, ast.If) and src(b.test) == fl and any(isinstance(s2, ast.AugAssign) and src(s2.target) == sfn
                                                                               and src(s2.value) == f"[{sub}]" for s2 in b.body) for b in st.body)
            if body_ok:
                shape_ok = True
                for e in st.iter.elts:
                    if isinstance(e, ast.Tuple) and len(e.elts) == 2 and isinstance(e.elts[0], ast.Name) and isinstance(e.elts[1], ast.Constant):
                        creation[e.elts[1].value] = e.elts[0].id
    for d, flag in sorted(usage.items()):
        key = f"{okl.key}::sub-directory '{d}' is created under `{flag}`"
        if d not in creation:
            ctx.check("R27.5", key, None if not shape_ok else False, f"no conditional creation of '{d}' found (created: {creation})", okl)
        else:
            ctx.check("R27.5", key, creation[d] == flag,
                      f"'{d}' is written when `{flag}` is set but created when `{creation[d]}` is set: with only `{flag}` enabled the run "
                      "fails with FileNotFoundError after the first iteration", okl)


def r27_6(ctx, m, okl):
    ctx.rule("R27.6", "every completed iteration is inspected: the inspect callback dominates the terminate-callback exit and the "
                      "end of the iteration", floor=2)
    cfg = cfg_of(okl)
    ins = [n for n, c in find_nodes(cfg, lambda q: isinstance(q, ast.Call) and call_name(q) == "_handle_inspect_callback")]
    term = [n for n, c in find_nodes(cfg, lambda q: isinstance(q, ast.Call) and call_name(q) == "_handle_terminate_callback")]
    if len(ins) != 1 or len(term) != 1:
        ctx.und("R27.6", f"{okl.key}::callback sites", f"{len(ins)} inspect / {len(term)} terminate", okl)
        return
    dom = cfg.dominators()
    ctx.check("R27.6", f"{okl.key}::inspect callback runs before the terminate callback can end the run", ins[0].id in dom[term[0].id],
              "the terminate callback can stop the run before the inspect callback has seen the final iteration", okl, term[0].ast)
    pops = [n for n, c in find_nodes(cfg, lambda q: isinstance(q, ast.Call) and call_name(q) == "pop_sseq")]
    last = [p for p in pops if not any(isinstance(cfg.nodes[b].ast, (ast.Continue, ast.Break)) for b, l in cfg.succ[p.id])]
    ctx.check("R27.6", f"{okl.key}::a regular iteration ends only after the inspect callback",
              bool(last) and all(ins[0].id in dom[p.id] for p in last), None, okl)


def r27_7(ctx, m, okl, rule="R27.7"):
    """per-iteration options reach every energy that is built for the iteration"""
    ctx.rule(rule, "option threading: every energy constructed inside the iteration loop receives constants=constants(<iteration>) "
                   "(and SampledKLEnergy additionally point_estimates and comm of that iteration), on the serial and on the MPI path alike", floor=2)
    loops = [n for n in walk_no_nested(okl.node) if isinstance(n, ast.For) and any(
        isinstance(c, ast.Call) and call_name(c) == "push_sseq" for c in ast.walk(n))]
    if len(loops) != 1 or not isinstance(loops[0].target, ast.Name):
        ctx.und(rule, f"{okl.key}::iteration loop", "not found", okl)
        return
    v = loops[0].target.id
    ctors = [c for c in ast.walk(loops[0]) if isinstance(c, ast.Call) and call_name(c) in ("EnergyAdapter", "SampledKLEnergy")]
    for c in ctors:
        kw = {k.arg: src(k.value) for k in c.keywords}
        need = {"constants": f"constants({v})"}
        if call_name(c) == "SampledKLEnergy":
            need.update({"point_estimates": f"point_estimates({v})", "comm": f"comm({v})"})
        miss = {k: kw.get(k) for k, w in need.items() if kw.get(k) != w}
        ctx.check(rule, f"{okl.key}::{call_name(c)}(...) gets the iteration's options [{', '.join(sorted(need))}]", not miss,
                  f"{miss}: the option is documented per iteration but this energy is built without it (the keys would be optimised / "
                  "sampled although the configuration says otherwise)", okl, c)
    if not ctors:
        ctx.und(rule, f"{okl.key}::energy constructors", "none found in the loop", okl)


# ---------------------------------------------------------------------------------------------------------------- R27.8 / R27.9
def r27_8(ctx, m):
    from ..util import cfg_of, find_nodes
    fi = m.func("nifty.cl.minimization.optimize_kl", "optimize_kl")
    ctx.rule("R27.8", "the driver's own sample-list writes never refuse to overwrite (overwrite=True as a constant): a second, "
                      "non-resumed run into an existing output directory is a documented configuration under every save strategy", floor=1)
    cfg = cfg_of(fi)
    saves = find_nodes(cfg, lambda q: isinstance(q, ast.Call) and isinstance(q.func, ast.Attribute) and q.func.attr == "save"
                       and any(k.arg == "overwrite" for k in q.keywords))
    if not saves:
        ctx.und("R27.8", f"{fi.key}::sample list save", "no save(..., overwrite=...) call found", fi)
    for n, c in saves:
        ov = [k.value for k in c.keywords if k.arg == "overwrite"][0]
        good = isinstance(ov, ast.Constant) and ov.value is True
        ctx.check("R27.8", f"{fi.key}::{src(c.func)}(..., overwrite=True)", good,
                  None if good else f"overwrite={src(ov)}: with existing files of an earlier run the save raises (and leaves the seed stack pushed)", fi, c)


def r27_9(ctx, m):
    mod = m.module("nifty.cl.minimization.optimize_kl")
    fi = mod.functions.get("_number_of_arguments")
    ctx.rule("R27.9", "callback arity is taken from inspect.signature (correct for functions, lambdas, partials, builtins and bound "
                      "methods alike) on every path; code-object argument counts include `self` for bound methods", floor=1)
    if fi is None:
        ctx.und("R27.9", "nifty.cl.minimization.optimize_kl::_number_of_arguments", "helper not found", mod.relpath)
        return
    ctx.saw_func(fi)
    p0 = fi.params()[0]
    rets = [r for r in walk_no_nested(fi.node) if isinstance(r, ast.Return)]
    bad = [r for r in rets if "co_argcount" in src(r.value) or "__code__" in src(r.value)]
    good = bool(rets) and all(src(r.value).replace(" ", "") in (f"len(signature({p0}).parameters)", f"len(inspect.signature({p0}).parameters)") for r in rets)
    ctx.check("R27.9", f"{fi.key}::every return is len(signature(callable).parameters)", False if bad else (True if good else None),
              f"`{short(bad[0])}` counts `self` of a bound method as an argument" if bad else "; ".join(src(r.value) for r in rets), fi, bad[0] if bad else None)


_run_c27c = run


def run(ctx):  # noqa: F811
    _run_c27c(ctx)
    r27_8(ctx, ctx.model)
    r27_9(ctx, ctx.model)


def r27_10(ctx, m):
    fi = m.func(MOD, "optimize_kl")
    ctx.saw_func(fi)
    ctx.rule("R27.10", "what iteration i does is independent of where this call started: the body of the driver loop never reads "
                       "`initial_index` (a transition, option or output that is skipped 'in the first iteration of a call' makes a "
                       "resumed run differ from an uninterrupted one and breaks a transition scheduled for iteration 0)", floor=1)
    loops = [lp for lp in walk_no_nested(fi.node) if isinstance(lp, ast.For) and "initial_index" in src(lp.iter) and "total_iterations" in src(lp.iter)]
    main = [lp for lp in loops if any(isinstance(c, ast.Call) and call_name(c) in ("push_sseq", "push_sseq_from_seed") for c in ast.walk(lp))]
    key = f"{fi.key}::driver loop body does not depend on initial_index"
    if len(main) != 1:
        ctx.und("R27.10", key, f"{len(main)} driver loops", fi)
    else:
        reads = [x for b in main[0].body for x in ast.walk(b) if isinstance(x, ast.Name) and x.id == "initial_index"]
        ctx.check("R27.10", key, not reads, f"line {reads[0].lineno}: the loop body reads `initial_index`" if reads else None, fi, reads[0] if reads else main[0])
    ex = m.func(MOD, "_export_operators", required=False)
    ctx.rule("R27.11", "_export_operators exports every operator whose domain is a sub-domain of the sample list's domain: the test is "
                       "_is_subdomain(<operator>.domain, <sample list>.domain) in this order (the helper's parameters are "
                       "(sub_domain, total_domain))", floor=1)
    if ex is None:
        ctx.und("R27.11", f"{MOD}::_export_operators", "missing", MOD)
        return
    ctx.saw_func(ex)
    isd = m.func(MOD, "_is_subdomain", required=False)
    pnames = isd.params() if isd is not None else []
    calls = [c for c in walk_no_nested(ex.node) if isinstance(c, ast.Call) and call_name(c) == "_is_subdomain" and len(c.args) == 2]
    slp = [p_ for p_ in ex.params() if "sample" in p_]
    key = f"{ex.key}::_is_subdomain(operator domain, sample-list domain)"
    if len(calls) != 1 or not slp or pnames[:2] != ["sub_domain", "total_domain"]:
        ctx.und("R27.11", key, f"{len(calls)} calls; helper parameters {pnames}", ex)
    else:
        a, b = src(calls[0].args[0]), src(calls[0].args[1])
        ctx.check("R27.11", key, b == f"{slp[0]}.domain" and a.endswith(".domain") and not a.startswith(slp[0]), src(calls[0]), ex, calls[0])


_run_c27d = run


def run(ctx):  # noqa: F811
    _run_c27d(ctx)
    r27_10(ctx, ctx.model)


_run_c27e = run


def run(ctx):  # noqa: F811
    _run_c27e(ctx)
    from .refusal import refusal_rule
    refusal_rule(ctx, "R27.12", ["nifty.cl.minimization.optimize_kl", "nifty.cl.minimization.config.optimize_kl_config"],
                 "the classic VI driver and the configuration layer that feeds it its options", floor=4)


# ---------------------------------------------------------------------------------------------------------------- R27.13 / R27.14
def r27_13(ctx, m):
    R = "R27.13"
    ctx.rule(R, "optimize_kl: module globals that mirror call arguments (_output_directory, _save_strategy - read by the reporting "
                "helpers) are assigned on EVERY call, on every path before the iteration loop - a global that is set only when the "
                "argument is given keeps the value of an earlier call, and a run without output directory writes into the old one", floor=2)
    from ..util import cfg_of
    fi = m.func("nifty.cl.minimization.optimize_kl", "optimize_kl")
    ctx.saw_func(fi)
    cfg = cfg_of(fi)
    globs = set()
    for z in ast.walk(fi.node):
        if isinstance(z, ast.Global):
            globs |= set(z.names)
    loops = [n for n in cfg.nodes if n.kind == "for" and "range(" in src(n.ast.iter) and "total_iterations" in src(n.ast.iter)]
    if not globs or not loops:
        ctx.und(R, f"{fi.key}::module globals", f"globals {sorted(globs)}, main loop found: {bool(loops)}", fi)
        return
    dom = cfg.dominators()
    lp = loops[-1]   # the main iteration loop is the last one over range(..., total_iterations)
    for g in sorted(globs):
        stores = [n for n in cfg.nodes if n.kind == "stmt" and isinstance(n.ast, ast.Assign) and any(src(t) == g for t in n.ast.targets)]
        ok_ = any(s_.id in dom[lp.id] for s_ in stores)
        ctx.check(R, f"{fi.key}::global `{g}` is assigned on every path to the iteration loop", ok_,
                  "" if ok_ else f"assigned only under a condition (lines {[s_.lineno for s_ in stores]}): a later call keeps the earlier value", fi,
                  stores[0].ast if stores else None)


def r27_14(ctx, m):
    R = "R27.14"
    ctx.rule(R, "optimize_kl dry run: an iteration that is only checked still hands its (possibly re-labelled) position on - the branch "
                "that `continue`s under dry_run re-binds the sample list from the current mean, as the real branches do, so the "
                "transitions of later iterations see the domain they will see in the real run", floor=1)
    fi = m.func("nifty.cl.minimization.optimize_kl", "optimize_kl")
    ctx.saw_func(fi)
    key = f"{fi.key}::dry-run branch updates the sample list before `continue`"
    ifs = [st for st in ast.walk(fi.node) if isinstance(st, ast.If) and src(st.test) == "dry_run" and any(isinstance(b, ast.Continue) for b in st.body)]
    if len(ifs) != 1:
        ctx.und(R, key, f"{len(ifs)} dry-run branches ending in continue", fi)
        return
    body = ifs[0].body
    # the names the real branches bind the sample list to (whatever they are called)
    sl_names = {src(st.targets[0]) for st in ast.walk(fi.node) if isinstance(st, ast.Assign) and isinstance(st.value, ast.Call)
                and call_name(st.value) == "_single_value_sample_list"}
    upd = [b for b in body if isinstance(b, ast.Assign) and src(b.targets[0]) in sl_names and isinstance(b.value, ast.Call)
           and call_name(b.value) in ("_single_value_sample_list", "SampleList")]
    ctx.check(R, key, bool(upd), src(upd[0]) if upd else "the sample list keeps its initial value for all checked iterations", fi, ifs[0])


_run_c27f = run


def run(ctx):  # noqa: F811
    _run_c27f(ctx)
    r27_13(ctx, ctx.model)
    r27_14(ctx, ctx.model)
