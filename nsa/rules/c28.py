"""C28 (clause) - amplitude normalisation of the JAX correlated-field models and agreement of the Matern amplitude formulas.

The amplitude models are read into terms over three symbolic modes (k0 = 0, k1, k2 with multiplicities m0, m1, m2):
  * normalisation identity: sum_{k>0} m_k * amplitude_k^2 = (fluctuations * total_volume)^2 for both `kind`s - this is what makes
    the spatial variance of a realisation equal to the square of the model's own fluctuation parameter, for every grid;
  * the zero mode carries the total volume;
  * the classic and the JAX Matern amplitudes are the same function of (scale, cutoff, slope, k, volume).
sympy normalises terms; nothing is executed.  Not decided: the classic non-parametric amplitude (operator algebra over integrated
Wiener processes), product spectra, the harmonic transforms' numerical agreement.
"""
import ast

from ..model import src, short, walk_no_nested, call_name
from .c03 import _load_sympy

RCF = "nifty.re.correlated_field"
CCF = "nifty.cl.library.correlated_fields"


class NotUnderstood(Exception):
    pass


class VecSym:
    """values: sympy scalar or list of 3 sympy scalars (one per mode)"""

    def __init__(self, sp, env, facts):
        self.sp = sp
        self.env = dict(env)
        self.facts = dict(facts)

    def lift(self, f, *xs):
        if any(isinstance(x, list) for x in xs):
            n = 3
            cols = [x if isinstance(x, list) else [x] * n for x in xs]
            return [f(*[c[i] for c in cols]) for i in range(len(cols[0]))]
        return f(*xs)

    def ev(self, e):
        sp = self.sp
        if isinstance(e, ast.Constant) and isinstance(e.value, (int, float)) and not isinstance(e.value, bool):
            return sp.nsimplify(e.value)
        if isinstance(e, ast.Name):
            if e.id in self.env:
                return self.env[e.id]
            raise NotUnderstood(f"name {e.id}")
        if isinstance(e, ast.Attribute):
            t = src(e)
            if t in self.env:
                return self.env[t]
            raise NotUnderstood(t)
        if isinstance(e, ast.UnaryOp) and isinstance(e.op, ast.USub):
            return self.lift(lambda a: -a, self.ev(e.operand))
        if isinstance(e, ast.BinOp):
            a, b = self.ev(e.left), self.ev(e.right)
            ops = {ast.Add: lambda x, y: x + y, ast.Sub: lambda x, y: x - y, ast.Mult: lambda x, y: x * y, ast.Div: lambda x, y: x / y,
                   ast.Pow: lambda x, y: x ** y}
            if type(e.op) in ops:
                return self.lift(ops[type(e.op)], a, b)
            raise NotUnderstood(src(e))
        if isinstance(e, ast.Subscript):
            v = self.ev(e.value)
            sl = src(e.slice).replace(" ", "")
            if isinstance(v, list):
                if sl == "1:":
                    return v[1:]
                if sl in ("0",):
                    return v[0]
            raise NotUnderstood(src(e))
        if isinstance(e, ast.Call):
            nm = call_name(e)
            if nm in ("exp", "log", "sqrt", "log1p") and len(e.args) == 1:
                f = {"exp": sp.exp, "log": sp.log, "sqrt": sp.sqrt, "log1p": lambda z: sp.log(1 + z)}[nm]
                return self.lift(f, self.ev(e.args[0]))
            if nm == "sum" and len(e.args) == 1:
                v = self.ev(e.args[0])
                if isinstance(v, list):
                    return sum(v[1:], v[0])
                return v
            if nm == "set" and isinstance(e.func, ast.Attribute) and isinstance(e.func.value, ast.Subscript) and isinstance(e.func.value.value, ast.Attribute) \
                    and e.func.value.value.attr == "at" and src(e.func.value.slice) == "0":
                v = self.ev(e.func.value.value.value)
                if isinstance(v, list):
                    return [self.ev(e.args[0])] + v[1:]
            if nm == "lower" and isinstance(e.func, ast.Attribute):
                return self.ev(e.func.value)
            if isinstance(e.func, ast.Attribute) and src(e.func) in self.env and len(e.args) == 1:
                return self.env[src(e.func)]          # self.scale(primals) -> symbol
            raise NotUnderstood(src(e))
        raise NotUnderstood(src(e))

    def truth(self, t):
        k = src(t).replace(" ", "")
        if k in self.facts:
            return self.facts[k]
        if isinstance(t, ast.UnaryOp) and isinstance(t.op, ast.Not):
            v = self.truth(t.operand)
            return None if v is None else not v
        return None

    def run(self, stmts):
        for st in stmts:
            if isinstance(st, ast.Expr):
                continue
            if isinstance(st, ast.Assign) and len(st.targets) == 1 and isinstance(st.targets[0], ast.Name):
                self.env[st.targets[0].id] = self.ev(st.value)
                continue
            if isinstance(st, ast.AugAssign) and isinstance(st.target, ast.Name):
                cur = self.env[st.target.id]
                v = self.ev(st.value)
                op = {ast.Add: lambda x, y: x + y, ast.Sub: lambda x, y: x - y, ast.Mult: lambda x, y: x * y, ast.Div: lambda x, y: x / y}.get(type(st.op))
                if op is None:
                    raise NotUnderstood(short(st))
                self.env[st.target.id] = self.lift(op, cur, v)
                continue
            if isinstance(st, ast.If):
                tv = self.truth(st.test)
                if tv is None:
                    raise NotUnderstood(f"test `{src(st.test)}`")
                r = self.run(st.body if tv else st.orelse)
                if r is not None:
                    return r
                continue
            if isinstance(st, ast.Return):
                return self.ev(st.value)
            raise NotUnderstood(f"statement `{short(st)}`")
        return None


def run(ctx):
    m = ctx.model
    sp = _load_sympy()
    ctx.rule("R28.1", "JAX amplitude models: for both kinds ('amplitude', 'power') the returned amplitude satisfies "
                      "sum_{k>0} multiplicity_k * amplitude_k^2 = (fluctuations * total_volume)^2, and the zero mode is the total volume "
                      "(checked symbolically on three modes)", floor=6)
    ctx.rule("R28.2", "Matern amplitude: classic and JAX implementation are the same function, "
                      "scale * sqrt(volume) * (1 + (k/cutoff)^2)^(slope/4) for k > 0 and the total volume at k = 0", floor=3)
    if sp is None:
        ctx.error("sympy not importable: C28 cannot be decided")
        return
    V = sp.Symbol("V", positive=True)
    mult = [sp.Symbol(f"m{i}", positive=True) for i in range(3)]
    flu = sp.Symbol("flu", positive=True)
    S = [sp.Symbol(f"s{i}", positive=True) for i in range(3)]
    # ------------------------------------------------------------------ non-parametric amplitude
    NP = m.cls(RCF, "NonParametricAmplitude")
    ctx.saw_class(NP)
    call = NP.methods["__call__"]
    ctx.saw_func(call)
    body = call.node.body
    start = [i for i, st in enumerate(body) if isinstance(st, ast.Assign) and isinstance(st.value, ast.Call) and call_name(st.value) == "exp"]
    flun = [src(st.targets[0]) for st in body if isinstance(st, ast.Assign) and "self.fluctuations" in src(st.value)]
    multn = [src(st.targets[0]) for st in body if isinstance(st, ast.Assign) and src(st.value).endswith("harmonic_grid.mode_multiplicity")]
    for kind in ("amplitude", "power"):
        key = f"{call.key}::kind={kind}"
        if len(start) != 1 or len(flun) != 1:
            ctx.und("R28.1", key, "spectrum = exp(...) / fluctuation binding not found", call)
            continue
        env = {src(body[start[0]].targets[0]): list(S), flun[0]: flu, "self.grid.total_volume": V,
               "self.grid.harmonic_grid.mode_multiplicity": list(mult)}
        if multn:
            env[multn[0]] = list(mult)
        vs = VecSym(sp, env, {f"self.kind=='{kind}'": True, **{f"self.kind=='{k2}'": False for k2 in ("amplitude", "power") if k2 != kind}})
        try:
            amp = vs.run(body[start[0] + 1:])
        except NotUnderstood as exc:
            ctx.und("R28.1", key, f"not understood: {exc}", call)
            continue
        if not isinstance(amp, list):
            ctx.und("R28.1", key, "no vector returned", call)
            continue
        tot = sp.simplify(sum(mult[i] * amp[i] ** 2 for i in (1, 2)) - (flu * V) ** 2)
        ctx.check("R28.1", key + ": sum_{k>0} m_k a_k^2 = (flu*V)^2", tot == 0, f"a_1 = {sp.simplify(amp[1])}; residual {tot}", call)
        ctx.check("R28.1", key + ": zero mode = total volume", sp.simplify(amp[0] - V) == 0, f"a_0 = {amp[0]}", call)
    # ------------------------------------------------------------------ Matern (JAX)
    MA = m.cls(RCF, "MaternAmplitude")
    ctx.saw_class(MA)
    mc = MA.methods["__call__"]
    ctx.saw_func(mc)
    k = [sp.Integer(0), sp.Symbol("k1", positive=True), sp.Symbol("k2", positive=True)]
    scl, ctf, slp = sp.Symbol("scale", positive=True), sp.Symbol("cutoff", positive=True), sp.Symbol("slope", real=True)
    jax_plain = None
    jax_power_plain = None
    for renorm in (False, True):
        for kind in ("amplitude", "power"):
            env = {"self.scale": scl, "self.cutoff": ctf, "self.loglogslope": slp, "self.grid.total_volume": V,
                   "self.grid.harmonic_grid.mode_lengths": list(k), "self.grid.harmonic_grid.mode_multiplicity": list(mult)}
            facts = {"self.scaleisNone": False, "self.renormalize_amplitude": renorm, f"self.kind=='{kind}'": True,
                     f"self.kind.lower()=='{kind}'": True}
            for k2 in ("amplitude", "power"):
                if k2 != kind:
                    facts[f"self.kind=='{k2}'"] = False
                    facts[f"self.kind.lower()=='{k2}'"] = False
            vs = VecSym(sp, env, facts)
            key = f"{mc.key}::kind={kind}, renormalize={renorm}"
            try:
                amp = vs.run(mc.node.body)
            except NotUnderstood as exc:
                ctx.und("R28.1", key, f"not understood: {exc}", mc)
                continue
            if renorm:
                tot = sp.simplify(sum(mult[i] * amp[i] ** 2 for i in (1, 2)) - (scl * V) ** 2)
                ctx.check("R28.1", key + ": sum_{k>0} m_k a_k^2 = (scale*V)^2", tot == 0, f"residual {tot}", mc)
            elif kind == "amplitude":
                jax_plain = amp
            else:
                jax_power_plain = amp
            ctx.check("R28.1", key + ": zero mode = total volume", sp.simplify(amp[0] - V) == 0, f"a_0 = {amp[0]}", mc)
    want = [V] + [scl * sp.sqrt(V) * (1 + (k[i] / ctf) ** 2) ** (slp / 4) for i in (1, 2)]
    if jax_plain is not None:
        ok = all(sp.simplify(sp.expand_power_base(jax_plain[i] - want[i], force=True)) == 0 or sp.simplify(sp.log(jax_plain[i]) - sp.log(want[i])) == 0
                 or sp.simplify(sp.powsimp(sp.expand_log(sp.log(jax_plain[i] / want[i]), force=True), force=True)) == 0 for i in (1, 2))
        ctx.check("R28.2", f"{mc.key}::a_k = scale*sqrt(V)*(1 + (k/cutoff)^2)^(slope/4)", bool(ok), f"a_1 = {jax_plain[1]}", mc)
    if jax_plain is not None and jax_power_plain is not None:
        # a power-kind model parametrises the POWER spectrum: its amplitude is the amplitude-kind formula with half the slope
        half = [x.subs(slp, slp / 2) if hasattr(x, "subs") else x for x in jax_plain]
        ok = all(sp.simplify(sp.powsimp(sp.expand_log(sp.log(jax_power_plain[i] / half[i]), force=True), force=True)) == 0 for i in (1, 2))
        ctx.check("R28.2", f"{mc.key}::kind=power without renormalisation = amplitude kind with half the log-log slope (square root of the power spectrum)",
                  bool(ok), f"a_1(power) = {jax_power_plain[1]}", mc)
    # ------------------------------------------------------------------ Matern (classic): operator chain read per mode
    CM = m.cls(CCF, "_AmplitudeMatern")
    ctx.saw_class(CM)
    ini = CM.methods["__init__"]
    ctx.saw_func(ini)
    ps = ini.params()
    key = f"{ini.key}::classic Matern amplitude equals the JAX formula"
    try:
        cl = _classic_matern(sp, ini, ps, k, scl, ctf, slp, V)
    except NotUnderstood as exc:
        ctx.und("R28.2", key, f"not understood: {exc}", ini)
        return
    ok = all(sp.simplify(sp.powsimp(sp.expand_log(sp.log(cl[i] / want[i]), force=True), force=True)) == 0 for i in (1, 2)) and sp.simplify(cl[0] - V) == 0
    ctx.check("R28.2", key, bool(ok), f"classic a_1 = {sp.simplify(cl[1])}; a_0 = {cl[0]}", ini)
    # (the predicted fluctuation is decided on terms by R28.10; an earlier obligation here compared it with the text the pinned
    #  tree happened to contain, which was the defect D48 itself)


def _classic_matern(sp, ini, ps, k, scl, ctf, slp, V):
    """reads the operator chain of _AmplitudeMatern.__init__ per mode"""
    env = {ps[2]: scl, ps[3]: ctf, ps[4]: slp, ps[5]: V}
    ksq = [x ** 2 for x in k]
    vol = {}

    def ev(e):
        if isinstance(e, ast.Constant) and isinstance(e.value, (int, float)):
            return sp.nsimplify(e.value)
        if isinstance(e, ast.Name):
            if e.id in env:
                return env[e.id]
            raise NotUnderstood(f"name {e.id}")
        if isinstance(e, ast.UnaryOp) and isinstance(e.op, ast.USub):
            return lift(lambda z: -z, ev(e.operand))
        if isinstance(e, ast.BinOp):
            if isinstance(e.op, ast.MatMult):
                # linear broadcasting operators act as the identity / a multiplication on the per-mode reading
                l = e.left
                r = ev(e.right)
                lt = src(l).replace(" ", "")
                if lt == "expander":
                    return r
                if lt.startswith("expander.scale("):
                    c = ev(l.args[0])
                    return lift(lambda z: c * z, r)
                if lt == "VdotOperator(k_squared).adjoint":
                    return [q * (r if not isinstance(r, list) else r[i]) for i, q in enumerate(ksq)]
                raise NotUnderstood(src(e))
            a, b = ev(e.left), ev(e.right)
            ops = {ast.Add: lambda x, y: x + y, ast.Mult: lambda x, y: x * y, ast.Sub: lambda x, y: x - y, ast.Pow: lambda x, y: x ** y}
            if type(e.op) in ops:
                return lift(ops[type(e.op)], a, b)
            raise NotUnderstood(src(e))
        if isinstance(e, ast.Call) and isinstance(e.func, ast.Attribute):
            nm = e.func.attr
            if nm in ("log", "exp", "sqrt") and not e.args:
                return lift({"log": sp.log, "exp": sp.exp, "sqrt": sp.sqrt}[nm], ev(e.func.value))
            if nm == "power" and len(e.args) == 1:
                p_ = ev(e.args[0])
                return lift(lambda z: z ** p_, ev(e.func.value))
        raise NotUnderstood(src(e))

    def lift(f, *xs):
        if any(isinstance(x, list) for x in xs):
            cols = [x if isinstance(x, list) else [x] * 3 for x in xs]
            return [f(*[c[i] for c in cols]) for i in range(3)]
        return f(*xs)
    for st in ini.node.body:
        if not isinstance(st, ast.Assign) or len(st.targets) != 1:
            continue
        t = st.targets[0]
        ts = src(t).replace(" ", "").strip("()") if isinstance(t, ast.Tuple) else src(t).replace(" ", "")
        v = st.value
        vs = src(v).replace(" ", "")
        if ts in ("expander", "k_squared"):
            continue
        if ts == "vol0,vol1":
            vol["vol0"], vol["vol1"] = [sp.Integer(0)] * 3, [sp.Integer(0)] * 3
            continue
        if ts == "vol0[0]":
            vol["vol0"] = [ev(v)] + vol["vol0"][1:]
            continue
        if ts == "vol1[1:]":
            x = ev(v)
            vol["vol1"] = [vol["vol1"][0], x, x]
            continue
        if ts in ("vol0", "vol1") and vs.startswith("makeField("):
            env[ts] = vol[ts]
            continue
        if isinstance(t, ast.Name):
            if vs.startswith(("op.power(2).integrate", "op.apply")) or ts.startswith("self."):
                continue
            env[t.id] = ev(v)
    if "op" not in env or not isinstance(env["op"], list):
        raise NotUnderstood("amplitude operator `op` not assembled")
    return env["op"]


# ---------------------------------------------------------------------------------------------------------------- R28.3
class _LoopSym:
    """sympy evaluation of small scalar methods with loops over `self._a` (unrolled for N symbolic sub-spaces)"""

    def __init__(self, sp, N, F, Z, params):
        self.sp, self.N, self.F, self.Z = sp, N, F, Z
        self.env = dict(params)

    def ev(self, e, env):
        sp = self.sp
        if isinstance(e, ast.Constant) and isinstance(e.value, (int, float)) and not isinstance(e.value, bool):
            return sp.nsimplify(e.value)
        if isinstance(e, ast.Name):
            if e.id in env:
                return env[e.id]
            raise NotUnderstood(f"name {e.id}")
        if isinstance(e, ast.Attribute):
            t = src(e)
            if t == "self.azm":
                return self.Z
            if t == "self._a":
                return [("amp", i) for i in range(self.N)]
            if e.attr == "fluctuation_amplitude":
                v = self.ev(e.value, env)
                if isinstance(v, tuple) and v[0] == "amp":
                    return self.F[v[1]]
            raise NotUnderstood(t)
        if isinstance(e, ast.Subscript):
            v = self.ev(e.value, env)
            i = self.ev(e.slice, env)
            if isinstance(v, list):
                return v[int(i)]
            raise NotUnderstood(src(e))
        if isinstance(e, ast.BinOp):
            a, b = self.ev(e.left, env), self.ev(e.right, env)
            ops = {ast.Add: lambda: a + b, ast.Sub: lambda: a - b, ast.Mult: lambda: a * b, ast.Div: lambda: a / b, ast.Pow: lambda: a ** b}
            if type(e.op) in ops:
                return ops[type(e.op)]()
            raise NotUnderstood(src(e))
        if isinstance(e, ast.Compare) and len(e.ops) == 1:
            a, b = self.ev(e.left, env), self.ev(e.comparators[0], env)
            f = {ast.Eq: lambda: a == b, ast.NotEq: lambda: a != b, ast.GtE: lambda: a >= b, ast.Gt: lambda: a > b, ast.Lt: lambda: a < b, ast.LtE: lambda: a <= b}.get(type(e.ops[0]))
            if f is None:
                raise NotUnderstood(src(e))
            return bool(f())
        if isinstance(e, ast.ListComp) and len(e.generators) == 1 and not e.generators[0].ifs:
            it = self.ev(e.generators[0].iter, env)
            out = []
            for x in it:
                env2 = dict(env)
                env2[src(e.generators[0].target)] = x
                out.append(self.ev(e.elt, env2))
            return out
        if isinstance(e, ast.Call):
            nm = call_name(e)
            if nm == "len" and len(e.args) == 1:
                v = self.ev(e.args[0], env)
                return sp.Integer(len(v))
            if nm == "range" and len(e.args) == 1:
                return [sp.Integer(i) for i in range(int(self.ev(e.args[0], env)))]
            if nm == "sqrt" and isinstance(e.func, ast.Attribute) and not e.args:
                return sp.sqrt(self.ev(e.func.value, env))
            if nm == "reduce" and len(e.args) == 2:
                lst = self.ev(e.args[1], env)
                op = src(e.args[0]).split(".")[-1]
                acc = lst[0]
                for x in lst[1:]:
                    acc = acc + x if op == "add" else acc * x if op == "mul" else None
                return acc
            if isinstance(e.func, ast.Attribute) and src(e.func.value) == "self" and e.func.attr in self.methods:
                args = [self.ev(a, env) for a in e.args]
                return self.call(e.func.attr, *args)
            raise NotUnderstood(src(e))
        raise NotUnderstood(src(e))

    def run(self, stmts, env):
        for st in stmts:
            if isinstance(st, ast.Expr):
                continue
            if isinstance(st, ast.Assign) and len(st.targets) == 1 and isinstance(st.targets[0], ast.Name):
                env[st.targets[0].id] = self.ev(st.value, env)
                continue
            if isinstance(st, ast.If):
                tv = self.ev(st.test, env)
                if not isinstance(tv, bool):
                    raise NotUnderstood(f"test `{src(st.test)}`")
                r = self.run(st.body if tv else st.orelse, env)
                if r is not None:
                    return r
                continue
            if isinstance(st, ast.For):
                for x in self.ev(st.iter, env):
                    env[src(st.target)] = x
                    r = self.run(st.body, env)
                    if r is not None:
                        return r
                continue
            if isinstance(st, ast.Raise):
                raise NotUnderstood("raise reached")
            if isinstance(st, ast.Return):
                return self.ev(st.value, env)
            raise NotUnderstood(f"statement `{short(st)}`")
        return None

    def call(self, name, *args):
        fi = self.methods[name]
        env = {p_: a for p_, a in zip(fi.params()[1:], args)}
        return self.run(fi.node.body, env)


def r28_3(ctx, m):
    sp = _load_sympy()
    CF = m.cls(CCF, "CorrelatedFieldMaker")
    ctx.rule("R28.3", "classic product-spectrum fluctuation formulas (three sub-spaces, symbolic): total = azm*sqrt(prod_i(1 + f_i^2) - 1), "
                      "slice(s) = azm*sqrt(f_s^2 * prod_{j!=s}(1 + f_j^2)), average(s) = a_s with f_i = a_i/azm", floor=4)
    if sp is None:
        ctx.error("sympy not importable")
        return
    ctx.saw_class(CF)
    N = 3
    F = [sp.Symbol(f"a{i}", positive=True) for i in range(N)]
    Z = sp.Symbol("azm", positive=True)
    L = _LoopSym(sp, N, F, Z, {})
    L.methods = CF.methods
    f2 = [(x / Z) ** 2 for x in F]

    def decide(key, name, args, want):
        fi = CF.methods.get(name)
        if fi is None:
            ctx.und("R28.3", key, f"{name} missing", CF)
            return
        ctx.saw_func(fi)
        try:
            got = L.call(name, *args)
        except NotUnderstood as exc:
            ctx.und("R28.3", key, f"not understood: {exc}", fi)
            return
        ok = got is not None and sp.simplify(got ** 2 - want ** 2) == 0
        ctx.check("R28.3", key, bool(ok), f"{name} = {sp.simplify(got) if got is not None else None}; documented {sp.simplify(want)}", fi)
    prod_all = (1 + f2[0]) * (1 + f2[1]) * (1 + f2[2])
    decide(f"{CF.key}.total_fluctuation::azm*sqrt(prod(1 + f_i^2) - 1)", "total_fluctuation", (), Z * sp.sqrt(prod_all - 1))
    for s_ in range(N):
        others = sp.Integer(1)
        for j in range(N):
            if j != s_:
                others *= (1 + f2[j])
        decide(f"{CF.key}.slice_fluctuation::space {s_}", "slice_fluctuation", (sp.Integer(s_),), Z * sp.sqrt(f2[s_] * others))
        decide(f"{CF.key}.average_fluctuation::space {s_}", "average_fluctuation", (sp.Integer(s_),), F[s_])


def r28_4(ctx, m):
    """the per-axis mode lengths of the JAX Fourier grid use the extent of their own axis"""
    mod = m.module(RCF)
    fi = mod.functions.get("get_fourier_mode_distributor")
    ctx.rule("R28.4", "get_fourier_mode_distributor: on every axis i the wrapped mode index min(n, shape[i] - n) and the mode spacing "
                      "distances[i] belong to that same axis (axis 0 outside the loop, axis i inside it)", floor=1)
    if fi is None:
        ctx.und("R28.4", f"{RCF}::get_fourier_mode_distributor", "missing", mod.relpath)
        return
    ctx.saw_func(fi)
    n = 0
    for lp in [x for x in ast.walk(fi.node) if isinstance(x, ast.For) and isinstance(x.iter, ast.Call) and call_name(x.iter) == "range"]:
        i = src(lp.target)
        subs = [x for st in lp.body for x in ast.walk(st) if isinstance(x, ast.Subscript) and src(x.value) in ("shape", "mspc_distances") and not isinstance(x.slice, ast.Slice)]
        if not subs:
            continue
        n += 1
        wrong = [x for x in subs if src(x.slice) != i]
        ctx.check("R28.4", f"{fi.key}::loop over the higher axes uses the extents of axis `{i}`", not wrong,
                  f"`{src(wrong[0])}` inside the loop over `{i}`: non-square grids get the wrong mode lengths" if wrong else None, fi, wrong[0] if wrong else lp)
    # axis 0 before the loop
    pre = [x for st in fi.node.body for x in ast.walk(st) if not isinstance(st, ast.For)]
    if n == 0:
        ctx.und("R28.4", f"{fi.key}::axis loop", "not found", fi)


_run_c28b = run


def run(ctx):  # noqa: F811
    _run_c28b(ctx)
    r28_3(ctx, ctx.model)
    r28_4(ctx, ctx.model)


def r28_5(ctx, m):
    """zero-mode bookkeeping of the classic maker: division in the normalised amplitudes <-> multiplication in finalize"""
    from ..util import cfg_of, known_atoms
    ctx.rule("R28.5", "classic CorrelatedFieldMaker, for every kind of zero-mode setting (0 / 1 / another number / an operator): "
                      "get_normalized_amplitudes divides the non-zero modes by the zero-mode amplitude exactly when finalize "
                      "multiplies the whole spectrum by it (enumeration of the four kinds through the guards of both methods) - "
                      "otherwise the fluctuations come out scaled by 1/azm and the zero mode with unit amplitude", floor=4)
    C = m.cls(CCF, "CorrelatedFieldMaker")
    gn, fz = C.methods.get("get_normalized_amplitudes"), C.methods.get("finalize")
    if gn is None or fz is None:
        ctx.und("R28.5", f"{C.key}::zero-mode bookkeeping", "methods missing", C)
        return
    ctx.saw_func(gn)
    ctx.saw_func(fz)
    KINDS = {"0": 0, "1": 1, "another number": 2.5, "an operator": None}

    def truth(t, kind):
        """truth of a guard for a zero mode of the given kind (None = unknown)"""
        v = KINDS[kind]
        if isinstance(t, ast.UnaryOp) and isinstance(t.op, ast.Not):
            r = truth(t.operand, kind)
            return None if r is None else not r
        if isinstance(t, ast.BoolOp):
            vs = [truth(x, kind) for x in t.values]
            if isinstance(t.op, ast.And):
                return False if any(x is False for x in vs) else (None if any(x is None for x in vs) else True)
            return True if any(x is True for x in vs) else (None if any(x is None for x in vs) else False)
        if isinstance(t, ast.Call) and src(t.func).endswith("isscalar") and t.args and src(t.args[0]) in ("self.azm", "self._azm"):
            return v is not None
        if isinstance(t, ast.Compare) and len(t.ops) == 1 and src(t.left) in ("self.azm", "self._azm"):
            c = t.comparators[0]
            if isinstance(t.ops[0], (ast.Eq, ast.NotEq)) and isinstance(c, ast.Constant) and isinstance(c.value, (int, float)):
                eq = (v is not None and v == c.value)
                return eq if isinstance(t.ops[0], ast.Eq) else not eq
            if isinstance(t.ops[0], (ast.In, ast.NotIn)) and isinstance(c, (ast.Tuple, ast.List, ast.Set)) and all(isinstance(e, ast.Constant) for e in c.elts):
                inn = v is not None and any(v == e.value for e in c.elts)
                return inn if isinstance(t.ops[0], ast.In) else not inn
        return None

    def reachable(cfg, nid, kind):
        for t, pol in known_atoms(cfg, nid):
            if "azm" not in src(t):
                continue
            r = truth(t, kind)
            if r is not None and r != pol:
                return False
            if r is None:
                return None
        return True
    cg, cf = cfg_of(gn), cfg_of(fz)
    div_nodes = [n for n in cg.nodes if n.kind == "stmt" and n.ast is not None and any(
        (isinstance(c, ast.Call) and call_name(c) == "reciprocal" and "azm" in src(c)) or
        (isinstance(c, ast.BinOp) and isinstance(c.op, ast.Div) and "azm" in src(c.right)) for c in ast.walk(n.ast))]
    mul_nodes = [n for n in cf.nodes if n.kind == "stmt" and n.ast is not None and any(
        isinstance(c, ast.BinOp) and isinstance(c.op, ast.Mult) and ("azm" in src(c.left) or "azm" in src(c.right)) for c in ast.walk(n.ast))]
    ret_g = [n for n in cg.nodes if n.kind == "stmt" and isinstance(n.ast, ast.Return)]
    if not div_nodes or not mul_nodes or not ret_g:
        ctx.und("R28.5", f"{C.key}::zero-mode bookkeeping", "division / multiplication sites not found", C)
        return
    for kind in KINDS:
        # does a return of get_normalized_amplitudes that is reachable for this kind come after a division?
        rs = [(n, reachable(cg, n.id, kind)) for n in ret_g]
        live = [n for n, r in rs if r is True]
        unknown = [n for n, r in rs if r is None]
        key = f"{C.key}::zero mode {kind}: divided in the normalised amplitudes <=> multiplied in finalize"
        if unknown or len(live) != 1:
            ctx.und("R28.5", key, f"{len(live)} reachable returns, {len(unknown)} undetermined", C)
            continue
        dom = cg.dominators()
        divides = any(reachable(cg, d.id, kind) is True and d.ast.lineno < live[0].ast.lineno for d in div_nodes)
        ms = [(n, reachable(cf, n.id, kind)) for n in mul_nodes]
        if any(r is None for _, r in ms):
            ctx.und("R28.5", key, "finalize guard undetermined", C)
            continue
        multiplies = any(r is True for _, r in ms)
        ctx.check("R28.5", key, divides == multiplies,
                  f"get_normalized_amplitudes {'divides' if divides else 'does not divide'} by the zero-mode amplitude, finalize "
                  f"{'multiplies' if multiplies else 'does not multiply'} by it", C, (mul_nodes[0].ast if divides and not multiplies else div_nodes[0].ast))


_run_c28c = run


def run(ctx):  # noqa: F811
    _run_c28c(ctx)
    r28_5(ctx, ctx.model)


def stale_cache_rule(ctx, C, rid, m):
    """memoised results of a class are invalidated by every method that writes one of their inputs"""
    n = 0
    for name, fi in sorted(C.methods.items()):
        # pattern: `if self._X is not None: return self._X` ... `self._X = <value>`
        early = []
        for st in walk_no_nested(fi.node):
            if isinstance(st, ast.If) and isinstance(st.test, ast.Compare) and isinstance(st.test.left, ast.Attribute) and src(st.test.left.value) == "self" \
                    and len(st.test.ops) == 1 and isinstance(st.test.ops[0], ast.IsNot) and src(st.test.comparators[0]) == "None" \
                    and any(isinstance(r, ast.Return) and r.value is not None and src(r.value) == src(st.test.left) for r in st.body):
                early.append(st.test.left.attr)
        for attr in early:
            stores = [st for st in walk_no_nested(fi.node) if isinstance(st, ast.Assign) and src(st.targets[0]) == f"self.{attr}"]
            if not stores:
                continue
            n += 1
            ctx.saw_func(fi)
            inputs = {x.attr for x in walk_no_nested(fi.node) if isinstance(x, ast.Attribute) and src(x.value) == "self" and isinstance(x.ctx, ast.Load)
                      and x.attr != attr and x.attr not in C.methods}
            # properties that are thin wrappers of an attribute count as that attribute
            for pn, pf in C.methods.items():
                if any(isinstance(x, ast.Attribute) and src(x.value) == "self" and x.attr == pn for x in walk_no_nested(fi.node)):
                    inputs |= {x.attr for x in walk_no_nested(pf.node) if isinstance(x, ast.Attribute) and src(x.value) == "self" and x.attr.startswith("_")}
            for wn, wf in sorted(C.methods.items()):
                if wn in (name, "__init__"):
                    continue
                written = {t.attr for st in walk_no_nested(wf.node) if isinstance(st, (ast.Assign, ast.AugAssign))
                           for t in (st.targets if isinstance(st, ast.Assign) else [st.target]) if isinstance(t, ast.Attribute) and src(t.value) == "self"}
                mutated = {src(c.func.value.value) and c.func.value.attr for c in walk_no_nested(wf.node) if isinstance(c, ast.Call) and isinstance(c.func, ast.Attribute)
                           and c.func.attr in ("append", "extend", "insert", "pop", "clear", "update") and isinstance(c.func.value, ast.Attribute) and src(c.func.value.value) == "self"}
                hit = sorted((written | mutated) & inputs)
                if not hit:
                    continue
                resets = attr in written
                ctx.check(rid, f"{wf.key}::writes {hit}, an input of the memoised {name}() -> resets self.{attr}", resets,
                          f"{name}() returns the remembered self.{attr}; {wn}() changes {hit} without clearing it: later calls see the stale value", wf)
    return n


def r28_6(ctx, m):
    from ..util import cfg_of
    ctx.rule("R28.6", "JAX mode distributor: the multiplicities returned next to the mode -> unique-length index map are the bincount of "
                      "that very index map (minlength = number of unique lengths) - counts taken from np.unique and filtered like the "
                      "merged near-equal lengths drop the merged modes", floor=1)
    fi = m.func(RCF, "_unique_mode_distributor", required=False)
    if fi is None:
        ctx.und("R28.6", f"{RCF}::_unique_mode_distributor", "function missing", RCF)
    else:
        ctx.saw_func(fi)
        rets = [r for r in walk_no_nested(fi.node) if isinstance(r, ast.Return) and isinstance(r.value, ast.Tuple) and len(r.value.elts) == 3]
        key = f"{fi.key}::multiplicities = bincount(index map)"
        if len(rets) != 1 or not all(isinstance(e, ast.Name) for e in rets[0].value.elts):
            ctx.und("R28.6", key, "return shape not recognised", fi)
        else:
            idx, um, cnt = [e.id for e in rets[0].value.elts]
            defs = [st for st in walk_no_nested(fi.node) if isinstance(st, ast.Assign) and any(isinstance(t, ast.Name) and t.id == cnt for t in ast.walk(st.targets[0]))]
            last = max(defs, key=lambda st: st.lineno) if defs else None
            if last is None:
                ctx.und("R28.6", key, "definition of the counts not found", fi)
            else:
                v = last.value
                t = src(v).replace(" ", "")
                if isinstance(v, ast.Call) and call_name(v) == "bincount":
                    ctx.check("R28.6", key, t.startswith(f"np.bincount({idx}.ravel()") or t.startswith(f"np.bincount({idx}.reshape(-1)") or t.startswith(f"np.bincount({idx},"),
                              src(v), fi, last)
                elif "return_counts" in " ".join(src(d.value) for d in defs) or isinstance(v, (ast.Subscript, ast.Tuple)):
                    ctx.bad("R28.6", key, f"`{src(last)}`: the counts are not recomputed from the final index map `{idx}` (modes whose lengths were merged are not counted)", fi, last)
                else:
                    ctx.und("R28.6", key, f"`{src(last)}` not recognised", fi, last)
    ctx.rule("R28.7", "JAX correlated field: the mean offset is added to the position-space field (outside the harmonic transforms); an "
                      "offset injected into the harmonic zero mode must carry the volume of ALL sub-grids", floor=1)
    F = m.cls(RCF, "CorrelatedFieldMaker")
    fz = F.methods.get("finalize")
    if fz is None:
        ctx.und("R28.7", f"{F.key}::finalize", "missing", F)
    else:
        ctx.saw_func(fz)
        inner = [f_ for f_ in ast.walk(fz.node) if isinstance(f_, ast.FunctionDef) and f_.name == "correlated_field"]
        key = f"{fz.key}::offset_mean is added after the harmonic transforms"
        if len(inner) != 1:
            ctx.und("R28.7", key, "inner model function not found", fz)
        else:
            rr = [r for r in ast.walk(inner[0]) if isinstance(r, ast.Return) and r.value is not None]
            uses = [x for x in ast.walk(fz.node) if isinstance(x, ast.Attribute) and src(x) == "self._offset_mean" and isinstance(x.ctx, ast.Load)]
            top = [r for r in rr if isinstance(r.value, ast.BinOp) and isinstance(r.value.op, ast.Add) and "self._offset_mean" in (src(r.value.left), src(r.value.right))]
            if rr and len(top) == len(rr):
                ctx.ok("R28.7", key, src(top[0].value), fz, top[0])
            else:
                # injected elsewhere: look for a volume factor that covers one sub-grid only
                vols = [x for x in ast.walk(fz.node) if isinstance(x, ast.Attribute) and x.attr == "total_volume" and isinstance(x.value, ast.Subscript)
                        and isinstance(x.value.slice, ast.Constant)]
                if uses and vols:
                    ctx.bad("R28.7", key, f"offset_mean enters before the transform scaled with `{src(vols[0])}`, the volume of ONE sub-grid: for product "
                                          "spectra the mean is off by the volume of the others", fz, vols[0])
                else:
                    ctx.und("R28.7", key, "placement of offset_mean not recognised", fz)
    ctx.rule("R28.8", "classic CorrelatedFieldMaker: a memoised result (normalised amplitudes, amplitude, spectrum) is cleared by every "
                      "method that changes one of its inputs (_a, _azm, ...); no memo at all is fine", floor=1)
    C = m.cls(CCF, "CorrelatedFieldMaker")
    n = stale_cache_rule(ctx, C, "R28.8", m)
    if n == 0:
        ctx.ok("R28.8", f"{C.key}::no memoised results", "every derived operator is rebuilt from the current amplitudes and zero mode", C)


_run_c28d = run


def run(ctx):  # noqa: F811
    _run_c28d(ctx)
    r28_6(ctx, ctx.model)


# ---------------------------------------------------------------------------------------------------------------- R28.9
def r28_9(ctx, m):
    R = "R28.9"
    ctx.rule(R, "nifty.re make_grid: every harmonic grid takes its mode lengths, its relative log mode lengths / log volumes and its "
                "mode multiplicities from ONE mode distributor result - `mode_lengths=` is the very array handed to _log_modes(...), "
                "as returned by get_*_mode_distributor (the Matern amplitude reads mode_lengths, the non-parametric one the log "
                "quantities: a transformed copy in one of them makes the two models, and the classic implementation, disagree)", floor=2)
    fi = m.func("nifty.re.correlated_field", "make_grid", required=False)
    if fi is None:
        ctx.und(R, "nifty.re.correlated_field::make_grid", "function missing", "nifty/re/correlated_field.py")
        return
    ctx.saw_func(fi)
    n = 0
    for c in walk_no_nested(fi.node):
        if not (isinstance(c, ast.Call) and any(k.arg == "mode_lengths" for k in c.keywords)):
            continue
        n += 1
        kw = {k.arg: k.value for k in c.keywords}
        ml = kw["mode_lengths"]
        key = f"{fi.key}::{call_name(c)}: mode_lengths is the array the log quantities are computed from"
        # the enclosing branch body
        blk = None
        for b in ast.walk(fi.node):
            for fld in ("body", "orelse"):
                body = getattr(b, fld, None)
                if isinstance(body, list) and any(not isinstance(st, (ast.If, ast.For, ast.While, ast.With, ast.Try)) and any(z is c for z in ast.walk(st)) for st in body):
                    blk = body
        logs = [z for st in (blk or []) for z in ast.walk(st) if isinstance(z, ast.Call) and call_name(z) == "_log_modes" and z.args]
        if not isinstance(ml, ast.Name):
            ctx.bad(R, key, f"`mode_lengths={short(ml, 60)}` is a transformed array" + (f", while _log_modes({src(logs[0].args[0])}) uses the original" if logs else ""), fi, c)
            continue
        if not logs:
            ctx.und(R, key, "no _log_modes call in the branch", fi, c)
            continue
        same = all(src(z.args[0]) == ml.id for z in logs)
        # the name is bound exactly once in the branch, by unpacking a distributor call
        binds = [st for st in (blk or []) for z in ast.walk(st) if isinstance(z, ast.Name) and isinstance(z.ctx, ast.Store) and z.id == ml.id]
        from_dist = len(binds) == 1 and isinstance(binds[0], ast.Assign) and isinstance(binds[0].value, ast.Call) and "mode_distributor" in src(binds[0].value.func)
        ctx.check(R, key, True if (same and from_dist) else (False if not same else None),
                  f"mode_lengths={ml.id}; _log_modes({', '.join(src(z.args[0]) for z in logs)}); bound by `{short(binds[0], 60) if binds else None}`", fi, c)
    if not n:
        ctx.und(R, f"{fi.key}::harmonic grids", "no grid construction with mode_lengths found", fi)


_run_c28x = run


def run(ctx):  # noqa: F811
    _run_c28x(ctx)
    r28_9(ctx, ctx.model)


# ---------------------------------------------------------------------------------------------------------------- R28.10
def r28_10(ctx, m):
    R = "R28.10"
    ctx.rule(R, "classic Matern amplitude: the predicted fluctuation is the standard deviation of the realisations about their mean - "
                "read on a two-bin power space (zero mode with multiplicity 1, one bin with multiplicity r, harmonic pixel volume 1/V): "
                "with amplitude (V, sqrt(V) m1) the field variance is r m1^2 / V, and `_fluc` evaluated as a term (power, integrate = "
                "sum of dvol * value, sqrt, scale) must equal its square root - no zero-mode entry, volume normalised (sympy as "
                "normaliser)", floor=1)
    from .c03 import _load_sympy
    sp = _load_sympy()
    C = m.cls("nifty.cl.library.correlated_fields", "_AmplitudeMatern", required=False)
    if sp is None or C is None:
        ctx.und(R, "nifty/cl/library/correlated_fields.py::_AmplitudeMatern", "sympy or class missing", "nifty/cl/library/correlated_fields.py")
        return
    init = C.methods["__init__"]
    ctx.saw_func(init)
    V, r, m0, m1 = sp.Symbol("V", positive=True), sp.Symbol("r", positive=True), sp.Symbol("m0", positive=True), sp.Symbol("m1", positive=True)
    tv = init.params()[-1] if "totvol" not in init.params() else "totvol"
    env = {}

    class NU(Exception):
        pass

    def ev(e):
        if isinstance(e, ast.Constant) and isinstance(e.value, (int, float)):
            return sp.nsimplify(e.value)
        if isinstance(e, ast.Name):
            if e.id == tv:
                return V
            if e.id in env:
                return env[e.id]
            raise NU(e.id)
        if isinstance(e, ast.UnaryOp) and isinstance(e.op, ast.USub):
            v = ev(e.operand)
            return tuple(-x for x in v) if isinstance(v, tuple) else -v
        if isinstance(e, ast.BinOp):
            a, b = ev(e.left), ev(e.right)
            f = {ast.Add: lambda x, y: x + y, ast.Sub: lambda x, y: x - y, ast.Mult: lambda x, y: x * y, ast.Div: lambda x, y: x / y,
                 ast.Pow: lambda x, y: x ** y}.get(type(e.op))
            if f is None:
                raise NU(src(e))
            if isinstance(a, tuple) and isinstance(b, tuple):
                return tuple(f(x, y) for x, y in zip(a, b))
            if isinstance(a, tuple):
                return tuple(f(x, b) for x in a)
            if isinstance(b, tuple):
                return tuple(f(a, y) for y in b)
            return f(a, b)
        if isinstance(e, ast.Call) and isinstance(e.func, ast.Attribute):
            meth = e.func.attr
            if meth in ("power", "ptw") and e.args:
                v = ev(e.func.value)
                p = ev(e.args[0])
                return tuple(x ** p for x in v) if isinstance(v, tuple) else v ** p
            if meth == "integrate" and not e.args:
                v = ev(e.func.value)
                if not isinstance(v, tuple):
                    raise NU("integrate of a scalar")
                return v[0] * (1 / V) + v[1] * (r / V)
            if meth == "sum" and not e.args:
                v = ev(e.func.value)
                return v[0] + v[1]
            if meth == "sqrt" and not e.args:
                v = ev(e.func.value)
                return tuple(sp.sqrt(x) for x in v) if isinstance(v, tuple) else sp.sqrt(v)
            if meth == "scale" and len(e.args) == 1:
                v, c = ev(e.func.value), ev(e.args[0])
                return tuple(x * c for x in v) if isinstance(v, tuple) else v * c
            if src(e.func) in ("np.sqrt", "numpy.sqrt") and len(e.args) == 1:
                return sp.sqrt(ev(e.args[0]))
        raise NU(src(e)[:60])
    key = f"{init.key}::_fluc^2 = r m1^2 / V on the two-bin model"
    verdict, det = None, "assignment to self._fluc not found"
    try:
        for st in init.node.body:
            if isinstance(st, ast.Assign) and len(st.targets) == 1:
                t = src(st.targets[0])
                if t == "self._fluc":
                    val = ev(st.value)
                    want = sp.sqrt(r * m1 ** 2 / V)
                    verdict = sp.simplify(val - want) == 0
                    det = f"_fluc = {sp.simplify(val)}; standard deviation of the field = {want}"
                    break
                if isinstance(st.targets[0], ast.Name):
                    nm = st.targets[0].id
                    v = st.value
                    if nm == "op" and isinstance(v, ast.Call) and isinstance(v.func, ast.Attribute) and v.func.attr == "exp":
                        env["op"] = (m0, m1)
                    elif nm in ("vol0", "vol1") and isinstance(v, ast.Call) and call_name(v) == "makeField":
                        pass
                    elif nm == "op" or nm.startswith("amp"):
                        try:
                            env[nm] = ev(v)
                        except NU:
                            pass
                elif isinstance(st.targets[0], ast.Tuple) and [src(x) for x in st.targets[0].elts] == ["vol0", "vol1"]:
                    env["vol0"], env["vol1"] = (sp.Integer(0), sp.Integer(0)), (sp.Integer(0), sp.Integer(0))
            # index stores: vol0[0] = totvol ; vol1[1:] = totvol**0.5
            if isinstance(st, ast.Assign) and isinstance(st.targets[0], ast.Subscript) and isinstance(st.targets[0].value, ast.Name) \
                    and st.targets[0].value.id in ("vol0", "vol1"):
                nm = st.targets[0].value.id
                sl = src(st.targets[0].slice)
                cur = list(env.get(nm, (sp.Integer(0), sp.Integer(0))))
                val = ev(st.value)
                if sl == "0":
                    cur[0] = val
                elif sl == "1:":
                    cur[1] = val
                else:
                    raise NU(f"index {sl}")
                env[nm] = tuple(cur)
    except NU as ex:
        verdict, det = None, f"term not modelled: {ex}"
    ctx.check(R, key, verdict, det, init)


_run_c28y = run


def run(ctx):  # noqa: F811
    _run_c28y(ctx)
    r28_10(ctx, ctx.model)
