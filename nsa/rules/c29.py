"""C29 (clause) - one-step transitions of the Gauss-Markov process models, read from the code as symbolic terms.

For each specialised process the transition (state_k = F(dt) state_{k-1} + G(dt) xi_k) is extracted from the function body
(a small interpreter for the row-wise array updates `.at[:, c].mul/add/set(cumsum)`), then
  * semigroup consistency: two steps dt1, dt2 equal one step dt1+dt2 in mean map and covariance
    (F(a+b) = F(b)F(a), Q(a+b) = F(b)Q(a)F(b)^T + Q(b)) - necessary for "the covariance of the continuous-time process on EVERY
    grid", independent of how sigma is parametrised;
  * the Wiener and integrated-Wiener covariances equal the documented SDE's closed form;
  * the generic generator implements res_{i+1} = drift_i res_i + diffamp_i xi_i and the wrappers hand their terms over in order.
sympy normalises terms; nothing is executed.  Not decided: agreement of sampled covariances, time-varying parameter handling
beyond "constant within a bin" (structure only), numerical accuracy.
"""
import ast

from ..model import src, short, walk_no_nested, call_name
from .c03 import _load_sympy

GM = "nifty.re.gauss_markov"


class NotUnderstood(Exception):
    pass


def _scalar(sp, e, env):
    """scalar jnp arithmetic -> sympy"""
    if isinstance(e, ast.Constant) and isinstance(e.value, (int, float)) and not isinstance(e.value, bool):
        return sp.nsimplify(e.value)
    if isinstance(e, ast.Name):
        if e.id in env:
            return env[e.id]
        raise NotUnderstood(f"name {e.id}")
    if isinstance(e, ast.UnaryOp) and isinstance(e.op, ast.USub):
        return -_scalar(sp, e.operand, env)
    if isinstance(e, ast.BinOp):
        a, b = _scalar(sp, e.left, env), _scalar(sp, e.right, env)
        ops = {ast.Add: lambda: a + b, ast.Sub: lambda: a - b, ast.Mult: lambda: a * b, ast.Div: lambda: a / b, ast.Pow: lambda: a ** b}
        if type(e.op) in ops:
            return ops[type(e.op)]()
    if isinstance(e, ast.Call) and call_name(e) in ("sqrt", "exp", "log") and len(e.args) == 1:
        return {"sqrt": sp.sqrt, "exp": sp.exp, "log": sp.log}[call_name(e)](_scalar(sp, e.args[0], env))
    if isinstance(e, ast.Subscript):
        # A[:, jnp.newaxis] -> A ; row selections handled by the caller
        sl = src(e.slice).replace(" ", "").strip("()")
        if sl in (":,jnp.newaxis", ":,None", ":,np.newaxis"):
            return _scalar(sp, e.value, env)
        k = src(e)
        if k in env:
            return env[k]
    raise NotUnderstood(src(e))


def _iwp_transition(sp, fi):
    """interpret integrated_wiener_process; returns (F, G, symbols) with state = (x, y)"""
    ps = fi.params()
    xi_n, x0_n, sig_n, dt_n = ps[:4]
    asp_n = ps[4] if len(ps) > 4 else None
    sigma, dt, asp = sp.Symbol("sigma", positive=True), sp.Symbol("dt", positive=True), sp.Symbol("asp", nonnegative=True)
    xi = [sp.Symbol("xi1", real=True), sp.Symbol("xi2", real=True)]
    prev_state = [sp.Symbol("Xprev", real=True), sp.Symbol("Yprev", real=True)]
    prev_inc = [sp.Symbol("dXprev", real=True), sp.Symbol("dYprev", real=True)]
    env = {sig_n: sigma, dt_n: dt}
    if asp_n:
        env[asp_n] = asp
    arr = None          # name of the array under construction
    inc = None          # per-row content [col0, col1] of the rows that stem from xi
    has_x0 = False
    cum = [False, False]

    def col_of(sub):
        """R[<rows>, c] -> (rows text, c) or None"""
        if isinstance(sub, ast.Subscript) and isinstance(sub.value, ast.Name) and sub.value.id == arr and isinstance(sub.slice, ast.Tuple) \
                and len(sub.slice.elts) == 2 and isinstance(sub.slice.elts[1], ast.Constant):
            return src(sub.slice.elts[0]).replace(" ", "").strip("()"), sub.slice.elts[1].value
        return None

    def row_expr(e):
        """scalar expression that may reference columns of the array"""
        import copy
        binds = {}

        class R(ast.NodeTransformer):
            def visit_Subscript(self, node):
                c = col_of(node)
                if c is not None:
                    rows, col = c
                    nm = f"__c{len(binds)}"
                    if rows == ":":
                        binds[nm] = inc[col]
                    elif rows == ":-1":
                        if not has_x0:
                            raise NotUnderstood("previous-row reference before the initial state is prepended")
                        binds[nm] = prev_state[col] if cum[col] else prev_inc[col]
                    elif rows == "1:" and has_x0:
                        binds[nm] = (prev_state[col] + inc[col]) if cum[col] else inc[col]
                    else:
                        raise NotUnderstood(src(node))
                    return ast.Name(id=nm, ctx=ast.Load())
                return self.generic_visit(node)
        e2 = R().visit(copy.deepcopy(e))
        return _scalar(sp, e2, dict(env, **binds))

    def at_update(call):
        """R.at[rows, c].op(arg) -> (rows, c, op, arg)"""
        if isinstance(call, ast.Call) and isinstance(call.func, ast.Attribute) and isinstance(call.func.value, ast.Subscript) \
                and isinstance(call.func.value.value, ast.Attribute) and call.func.value.value.attr == "at" \
                and isinstance(call.func.value.value.value, ast.Name) and call.func.value.value.value.id == arr:
            sl = call.func.value.slice
            if isinstance(sl, ast.Tuple) and len(sl.elts) == 2 and isinstance(sl.elts[1], ast.Constant) and len(call.args) == 1:
                return src(sl.elts[0]).replace(" ", "").strip("()"), sl.elts[1].value, call.func.attr, call.args[0]
        return None

    def do_update(u):
        rows, c, op, arg = u
        if op == "mul" and rows == ":" and not has_x0:
            inc[c] = inc[c] * row_expr(arg)
        elif op == "add" and rows == ":" and not has_x0:
            inc[c] = inc[c] + row_expr(arg)
        elif op == "add" and rows == "1:" and has_x0:
            inc[c] = inc[c] + row_expr(arg)
        elif op == "set" and rows == ":" and has_x0 and isinstance(arg, ast.Call) and call_name(arg) == "cumsum" \
                and col_of(arg.args[0]) == (":", c):
            if cum[c]:
                raise NotUnderstood(f"column {c} accumulated twice")
            cum[c] = True
        else:
            raise NotUnderstood(f"update `.at[{rows}, {c}].{op}(...)` {'after' if has_x0 else 'before'} prepending x0")

    for st in fi.node.body:
        if isinstance(st, ast.Expr):
            continue
        if isinstance(st, ast.Assign) and len(st.targets) == 1 and isinstance(st.targets[0], ast.Name):
            t = st.targets[0].id
            v = st.value
            if arr is None:
                # scalar preparation (asperity default, dt broadcast) or the first array statement
                if isinstance(v, ast.IfExp) and t in env:
                    continue  # `asperity = 0.0 if asperity is None else asperity`, `dt = ones*dt if scalar else dt`
                if isinstance(v, ast.BinOp) and isinstance(v.op, ast.Mult) and xi_n in (src(v.right), src(v.left)):
                    arr = t
                    a = _scalar(sp, v.left if src(v.right) == xi_n else v.right, env)
                    inc = [a * xi[0], a * xi[1]]
                    continue
                raise NotUnderstood(f"`{short(st)}`")
            if t != arr:
                raise NotUnderstood(f"`{short(st)}`")
            u = at_update(v)
            if u is not None:
                do_update(u)
                continue
            if isinstance(v, ast.Call) and call_name(v) == "concatenate" and v.args and isinstance(v.args[0], ast.Tuple) and len(v.args[0].elts) == 2 \
                    and src(v.args[0].elts[0]).startswith(x0_n + "[") and src(v.args[0].elts[1]) == arr and not has_x0:
                has_x0 = True
                continue
            raise NotUnderstood(f"`{short(st)}`")
        if isinstance(st, ast.Return):
            u = at_update(st.value)
            if u is not None:
                do_update(u)
            elif not (isinstance(st.value, ast.Name) and st.value.id == arr):
                raise NotUnderstood(f"`{short(st)}`")
            break
        raise NotUnderstood(f"`{short(st)}`")
    if arr is None or not has_x0 or cum != [True, True]:
        raise NotUnderstood(f"process not assembled (x0 prepended: {has_x0}, accumulated columns: {cum})")
    if any(s_ in (inc[0] + inc[1]).free_symbols for s_ in prev_inc):
        raise NotUnderstood("a step reads the previous INCREMENT where the previous state is needed")
    state = [prev_state[0] + inc[0], prev_state[1] + inc[1]]
    F = sp.Matrix(2, 2, lambda i, j: sp.diff(state[i], prev_state[j]))
    G = sp.Matrix(2, 2, lambda i, j: sp.diff(state[i], xi[j]))
    rest = [sp.simplify(state[i] - sum(F[i, j] * prev_state[j] for j in range(2)) - sum(G[i, j] * xi[j] for j in range(2))) for i in range(2)]
    if any(r != 0 for r in rest):
        raise NotUnderstood(f"transition is not linear: remainder {rest}")
    return F, G, (sigma, dt, asp)


def run(ctx):
    m = ctx.model
    sp = _load_sympy()
    mod = m.module(GM)
    ctx.rule("R29.1", "Wiener process: increments sqrt(dt)*sigma*xi summed up from x0; variance sigma^2*dt is additive in dt", floor=3)
    ctx.rule("R29.2", "Ornstein-Uhlenbeck: drift exp(-gamma*dt), amplitude with amp(a+b)^2 = drift(b)^2*amp(a)^2 + amp(b)^2 and "
                      "drift(a+b) = drift(a)*drift(b) (two steps equal one), stationary variance sigma^2 matching the default x0; terms "
                      "handed to the scalar generator in the order (xi, x0, drift, amplitude)", floor=4)
    ctx.rule("R29.3", "integrated Wiener process: the transition read from the array updates is x' = x + dt*y + dx, y' = y + dy with "
                      "Cov(dx, dy) = sigma^2 [[dt^3/3 + asperity*dt, dt^2/2], [dt^2/2, dt]] (closed form of the documented SDE) and two "
                      "steps equal one", floor=3)
    ctx.rule("R29.4", "generic generator: res_0 = x0, res_{i+1} = drift_i @ res_i + diffamp_i @ xi_i (noise prepared first, the loop "
                      "adds drift @ previous row to the next row); the scalar wrapper lifts scalars to 1x1 matrices and returns column 0", floor=4)
    if sp is None:
        ctx.error("sympy not importable: C29 cannot be decided")
        return
    a, b = sp.Symbol("a", positive=True), sp.Symbol("b", positive=True)

    def fn(name):
        fi = mod.functions.get(name)
        if fi is None:
            ctx.error(f"{GM}.{name} missing")
        else:
            ctx.saw_func(fi)
        return fi

    # ---------------------------------------------------------------- Wiener
    wp = fn("wiener_process")
    if wp is not None:
        xi_n, x0_n, sig_n, dt_n = wp.params()[:4]
        sigma, dt = sp.Symbol("sigma", positive=True), sp.Symbol("dt", positive=True)
        from ..util import cfg_of
        from ..terms import inline_at
        cfg = cfg_of(wp)
        rd = cfg.reaching_defs(wp.params())
        rets = [n for n in cfg.nodes if n.kind == "stmt" and isinstance(n.ast, ast.Return)]
        key = f"{wp.key}::x0 followed by the running sum of the increments"
        if len(rets) != 1:
            ctx.und("R29.1", key, f"{len(rets)} returns", wp)
        else:
            e = inline_at(cfg, rd, rets[0].id, rets[0].ast.value, depth=3)
            cums = [c for c in ast.walk(e) if isinstance(c, ast.Call) and call_name(c) == "cumsum" and c.args]
            incr, outside = None, None
            if len(cums) == 1:
                w = cums[0].args[0]
                if isinstance(w, ast.Call) and call_name(w) == "concatenate" and isinstance(w.args[0], (ast.Tuple, ast.List)) and len(w.args[0].elts) == 2 \
                        and x0_n in src(w.args[0].elts[0]) and xi_n not in src(w.args[0].elts[0]):
                    incr = w.args[0].elts[1]
                    outside = e is cums[0]
                elif xi_n in src(w):
                    incr = w
                    outside = False
            if incr is None:
                ctx.und("R29.1", key, f"`{src(e)[:160]}` not recognised", wp)
            else:
                ctx.ok("R29.1", key, src(e)[:160], wp)
                try:
                    xis = sp.Symbol("xi", real=True)
                    t = _scalar(sp, incr, {sig_n: sigma, dt_n: dt, xi_n: xis})
                    amp = sp.diff(t, xis)
                    lin = sp.simplify(t - amp * xis) == 0
                    var = sp.simplify(amp ** 2)
                    good = bool(lin and sp.simplify(var - sigma ** 2 * dt) == 0)
                    det = f"summed increment {t}"
                    if not good and sp.simplify(var - dt) == 0 and sig_n in src(e).replace(src(cums[0]), ""):
                        det += f"; `{sig_n}` multiplies the running sum from outside: with a per-interval sigma the increments sigma_k*sqrt(dt_k)*xi_k are not summed"
                    ctx.check("R29.1", f"{wp.key}::increment variance is sigma^2*dt (sigma inside the running sum)", good, det, wp)
                    add_ok = sp.simplify(var.subs(dt, a + b) - var.subs(dt, a) - var.subs(dt, b)) == 0
                    ctx.check("R29.1", f"{wp.key}::two steps equal one (variance additive in dt)", bool(add_ok), f"Var(dt) = {var}", wp)
                except NotUnderstood as exc:
                    ctx.und("R29.1", f"{wp.key}::increment variance is sigma^2*dt (sigma inside the running sum)", f"term not understood: {exc}", wp)
    # ---------------------------------------------------------------- OU
    ou = fn("ornstein_uhlenbeck_process")
    if ou is not None:
        xi_n, x0_n, sig_n, gam_n, dt_n = ou.params()[:5]
        sigma, gamma, dt = sp.Symbol("sigma", positive=True), sp.Symbol("gamma", positive=True), sp.Symbol("dt", positive=True)
        from ..util import cfg_of
        from ..terms import inline_at
        cfg = cfg_of(ou)
        rd = cfg.reaching_defs(ou.params())
        rets = [n for n in cfg.nodes if n.kind == "stmt" and isinstance(n.ast, ast.Return)]
        key = f"{ou.key}::hands (xi, x0, drift, amplitude) to the scalar generator"
        if len(rets) != 1 or not (isinstance(rets[0].ast.value, ast.Call) and call_name(rets[0].ast.value) == "scalar_gauss_markov_process"):
            ctx.und("R29.2", key, "return shape not recognised", ou)
        else:
            c = rets[0].ast.value
            args = c.args
            ctx.check("R29.2", key, len(args) == 4 and [src(args[0]), src(args[1])] == [xi_n, x0_n], src(c), ou)
            try:
                env = {sig_n: sigma, gam_n: gamma, dt_n: dt}
                dr = _scalar(sp, inline_at(cfg, rd, rets[0].id, args[2], depth=3), env)
                am_ast = inline_at(cfg, rd, rets[0].id, args[3], depth=4)
                wheres = [c_ for c_ in ast.walk(am_ast) if isinstance(c_, ast.Call) and call_name(c_) == "where" and len(c_.args) == 3]
                approx = None
                if len(wheres) == 1:
                    import copy

                    def pick(k):
                        class R(ast.NodeTransformer):
                            def visit_Call(self, node):
                                if src(node) == src(wheres[0]):
                                    return copy.deepcopy(node.args[k])
                                return self.generic_visit(node)
                        return R().visit(copy.deepcopy(am_ast))
                    b1, b2 = _scalar(sp, pick(1), env), _scalar(sp, pick(2), env)
                    # the exact branch is the one that contains the exponential
                    am, approx = (b1, b2) if b1.has(sp.exp) else (b2, b1)
                else:
                    am = _scalar(sp, am_ast, env)
                ok1 = sp.simplify(dr.subs(dt, a + b) - dr.subs(dt, a) * dr.subs(dt, b)) == 0 and sp.simplify(dr - sp.exp(-gamma * dt)) == 0
                ctx.check("R29.2", f"{ou.key}::drift = exp(-gamma*dt) (a semigroup in dt)", bool(ok1), f"drift {dr}", ou)
                q = sp.simplify(am ** 2)
                ok2 = sp.simplify(q.subs(dt, a + b) - dr.subs(dt, b) ** 2 * q.subs(dt, a) - q.subs(dt, b)) == 0
                ctx.check("R29.2", f"{ou.key}::two steps equal one (variance composition)", bool(ok2), f"amp^2 = {q}", ou)
                if approx is not None:
                    lead = sp.series(sp.simplify(am ** 2), dt, 0, 2).removeO()
                    oka = sp.simplify(sp.simplify(approx ** 2) - lead) == 0
                    ctx.check("R29.2", f"{ou.key}::small-step branch is the leading order of the exact variance", bool(oka),
                              f"branch variance {sp.simplify(approx ** 2)}; exact variance {sp.simplify(am ** 2)} = {lead} + O(dt^2)", ou)
                stat = sp.limit(q, dt, sp.oo)
                # default x0 of the model: res * sigma  (steady state)
                oup = mod.functions.get("OrnsteinUhlenbeckProcess")
                gen = [n_ for n_ in ast.walk(oup.node) if isinstance(n_, ast.FunctionDef) and n_ is not oup.node] if oup is not None else []
                x0amp = None
                for g in gen:
                    rr = [r for r in walk_no_nested(g) if isinstance(r, ast.Return)]
                    if len(rr) == 1 and isinstance(rr[0].value, ast.BinOp) and isinstance(rr[0].value.op, ast.Mult):
                        sides = [rr[0].value.left, rr[0].value.right]
                        right = [x_ for x_ in sides if isinstance(x_, ast.IfExp)] or [x_ for x_ in sides if "sig" in src(x_)] or [sides[1]]
                        right = right[0]
                        x0amp = src(right.body) if isinstance(right, ast.IfExp) else src(right)
                sigdef = None
                for g in gen:
                    for st in walk_no_nested(g):
                        if isinstance(st, ast.Assign) and x0amp and src(st.targets[0]) == x0amp:
                            sigdef = src(st.value)
                ok3 = sp.simplify(stat - sigma ** 2) == 0 and sigdef is not None and "sigma" in sigdef
                ctx.check("R29.2", f"{ou.key}::stationary variance sigma^2 = variance of the default initial state", bool(ok3),
                          f"lim amp^2 = {stat}; default x0 = xi0 * ({sigdef})", ou)
            except NotUnderstood as exc:
                ctx.und("R29.2", f"{ou.key}::drift/amplitude terms", f"term not understood: {exc}", ou)
    # ---------------------------------------------------------------- IWP
    iw = fn("integrated_wiener_process")
    if iw is not None:
        try:
            F, G, (sigma, dt, asp) = _iwp_transition(sp, iw)
            Q = sp.simplify(G * G.T)
            wantF = sp.Matrix([[1, dt], [0, 1]])
            wantQ = sigma ** 2 * sp.Matrix([[dt ** 3 / 3 + asp * dt, dt ** 2 / 2], [dt ** 2 / 2, dt]])
            ctx.check("R29.3", f"{iw.key}::mean map is [[1, dt], [0, 1]]", sp.simplify(F - wantF) == sp.zeros(2, 2), f"F = {F.tolist()}", iw)
            ctx.check("R29.3", f"{iw.key}::step covariance is the closed form of the documented SDE", sp.simplify(Q - wantQ) == sp.zeros(2, 2),
                      f"Q = {Q.tolist()}", iw)
            Fa, Fb, Fab = F.subs(dt, a), F.subs(dt, b), F.subs(dt, a + b)
            Qa, Qb, Qab = Q.subs(dt, a), Q.subs(dt, b), Q.subs(dt, a + b)
            semi = sp.simplify(Fab - Fb * Fa) == sp.zeros(2, 2) and sp.simplify(Qab - (Fb * Qa * Fb.T + Qb)) == sp.zeros(2, 2)
            ctx.check("R29.3", f"{iw.key}::two steps equal one (mean map and covariance)", bool(semi), None, iw)
        except NotUnderstood as exc:
            ctx.und("R29.3", f"{iw.key}::transition", f"not understood: {exc}", iw)
    # ---------------------------------------------------------------- generic generator
    gp = fn("discrete_gauss_markov_process")
    if gp is not None:
        xi_n, x0_n, dr_n, da_n = gp.params()[:4]
        body = gp.node.body
        noise = [st for st in walk_no_nested(gp.node) if isinstance(st, ast.Assign) and isinstance(st.value, ast.Call) and isinstance(st.value.func, ast.Call)
                 and call_name(st.value.func) == "vmap"]
        arrn = src(noise[0].targets[0]) if noise else None
        alld = [st for st in walk_no_nested(gp.node) if isinstance(st, ast.Assign) and arrn and src(st.targets[0]) == arrn
                and not (isinstance(st.value, ast.Call) and call_name(st.value) == "concatenate")]
        okn, detn = bool(noise), []
        for st in alld:
            v = st.value
            if isinstance(v, ast.Call) and isinstance(v.func, ast.Call) and call_name(v.func) == "vmap":
                good = src(v.func.args[0]).endswith("matmul") and [src(x) for x in v.args] == [da_n, xi_n]
            elif isinstance(v, ast.Call) and call_name(v) == "matmul" and len(v.args) == 2:
                a_, b_ = [src(x).replace(" ", "") for x in v.args]
                # rows of xi times a constant matrix: xi @ A^T  (A on the left of each row vector)
                good = (a_, b_) in ((xi_n, f"{da_n}.T"), (xi_n, f"jnp.transpose({da_n})"), (xi_n, f"{da_n}.swapaxes(-1,-2)"))
                if (a_, b_) == (xi_n, da_n):
                    detn.append(f"`{src(v)}` multiplies every excitation row by the TRANSPOSED amplitude (xi @ A = (A^T xi^T)^T): covariance A^T A instead of A A^T")
            else:
                good = None
            if good is False or good is None:
                okn = good if okn else okn
            if good is False:
                okn = False
        ctx.check("R29.4", f"{gp.key}::noise term is diffamp_i @ xi_i", okn, "; ".join(detn) or (src(noise[0].value) if noise else None), gp)
        cat = [st for st in walk_no_nested(gp.node) if isinstance(st, ast.Assign) and isinstance(st.value, ast.Call) and call_name(st.value) == "concatenate"]
        mine = [st for st in cat if arrn is not None and src(st.targets[0]) == arrn and isinstance(st.value.args[0], (ast.List, ast.Tuple))
                and len(st.value.args[0].elts) == 2 and arrn in [src(e) for e in st.value.args[0].elts]]
        if len(mine) == 1:
            okc = src(mine[0].value.args[0].elts[0]).startswith(x0_n + "[") and src(mine[0].value.args[0].elts[1]) == arrn
        else:
            okc = None
        ctx.check("R29.4", f"{gp.key}::the initial state is prepended to the noise terms", okc, src(mine[0].value) if mine else None, gp)
        fl0 = [c for c in ast.walk(gp.node) if isinstance(c, ast.Call) and call_name(c) == "fori_loop"]
        loops = [n_ for n_ in body if isinstance(n_, ast.FunctionDef) and any(len(c.args) >= 3 and src(c.args[2]) == n_.name for c in fl0)]
        okl = None
        det = None
        if len(loops) == 1 and len(loops[0].args.args) == 2:
            i_n, a_n = [x.arg for x in loops[0].args.args]
            rr = [r for r in walk_no_nested(loops[0]) if isinstance(r, ast.Return)]
            dloc = [st for st in walk_no_nested(loops[0]) if isinstance(st, ast.Assign)]
            if len(rr) == 1:
                det = src(rr[0].value)
                dname = src(dloc[0].targets[0]) if dloc else dr_n
                okl = det.replace(" ", "") == f"{a_n}.at[{i_n}+1].add(jnp.matmul({dname},{a_n}[{i_n}]))"
                if dloc:
                    v = dloc[0].value
                    okl = okl and isinstance(v, ast.IfExp) and {src(v.body), src(v.orelse)} == {f"{dr_n}[{i_n}]", dr_n}
        ctx.check("R29.4", f"{gp.key}::loop adds drift_i @ res_i to res_(i+1)", okl, det, gp)
        fl = [c for c in ast.walk(gp.node) if isinstance(c, ast.Call) and call_name(c) == "fori_loop"]
        okf = len(fl) == 1 and len(fl[0].args) == 4 and src(fl[0].args[0]) == "0" and src(fl[0].args[2]) == (loops[0].name if loops else "") and src(fl[0].args[3]) == arrn
        if not fl:
            okf = None  # another loop idiom (scan, associative_scan): not this rule's business
        ctx.check("R29.4", f"{gp.key}::the recurrence starts at row 0 and runs over the prepared array", okf, src(fl[0]) if fl else None, gp)
        # a parallel prefix formulation composes affine maps x -> D x + b: the order visible in the offset fixes the order of the matrices
        for c in ast.walk(gp.node):
            if not (isinstance(c, ast.Call) and call_name(c) == "associative_scan" and c.args and isinstance(c.args[0], ast.Name)):
                continue
            comp = [f_ for f_ in body if isinstance(f_, ast.FunctionDef) and f_.name == c.args[0].id]
            key = f"{gp.key}::associative composition of the affine transitions"
            if len(comp) != 1 or len(comp[0].args.args) != 2:
                ctx.und("R29.4", key, "compose function not found", gp, c)
                continue
            f_, g_ = [a.arg for a in comp[0].args.args]
            unp = {}
            for st in walk_no_nested(comp[0]):
                if isinstance(st, ast.Assign) and isinstance(st.targets[0], ast.Tuple) and isinstance(st.value, (ast.Tuple, ast.Name)):
                    tg = st.targets[0].elts
                    vs = st.value.elts if isinstance(st.value, ast.Tuple) else [st.value]
                    if len(tg) == len(vs):
                        for t_, v_ in zip(tg, vs):
                            if isinstance(t_, ast.Tuple) and len(t_.elts) == 2 and isinstance(v_, ast.Name):
                                unp[v_.id] = (src(t_.elts[0]), src(t_.elts[1]))
                    elif len(tg) == 2 and isinstance(st.value, ast.Name):
                        unp[st.value.id] = (src(tg[0]), src(tg[1]))
            rr = [r for r in walk_no_nested(comp[0]) if isinstance(r, ast.Return) and isinstance(r.value, ast.Tuple) and len(r.value.elts) == 2]
            if f_ not in unp or g_ not in unp or len(rr) != 1:
                ctx.und("R29.4", key, "shape of the compose function not recognised", gp, comp[0])
                continue
            (df, bf), (dg, bg) = unp[f_], unp[g_]
            A, B = rr[0].value.elts

            def mats(e):
                """ordered list of matrix names in a product chain a @ b / jnp.matmul(a, b)"""
                if isinstance(e, ast.BinOp) and isinstance(e.op, ast.MatMult):
                    l_, r_ = mats(e.left), mats(e.right)
                    return None if l_ is None or r_ is None else l_ + r_
                if isinstance(e, ast.Call) and call_name(e) == "matmul" and len(e.args) == 2:
                    l_, r_ = mats(e.args[0]), mats(e.args[1])
                    return None if l_ is None or r_ is None else l_ + r_
                if isinstance(e, ast.Subscript):
                    return mats(e.value)
                if isinstance(e, ast.Name):
                    return [e.id]
                return None
            # which map is applied first?  the offset of the composition is D_second b_first + b_second
            first = None
            for x in ast.walk(B):
                ch = mats(x) if isinstance(x, (ast.BinOp, ast.Call)) else None
                if ch and len(ch) == 2 and ch in ([dg, bf], [df, bg]):
                    first = "f" if ch == [dg, bf] else "g"
            prod = mats(A)
            if first is None or prod is None or sorted(prod) != sorted([df, dg]):
                ctx.und("R29.4", key, f"offset `{src(B)}` / matrix `{src(A)}` not recognised", gp, rr[0])
                continue
            want = [dg, df] if first == "f" else [df, dg]
            ctx.check("R29.4", key, prod == want,
                      f"the offset `{src(B)}` applies `{f_ if first == 'f' else g_}` first, so the composed matrix is {' @ '.join(want)}; found {' @ '.join(prod)}"
                      " (equal only for commuting drifts)", gp, rr[0])
    sg = fn("scalar_gauss_markov_process")
    if sg is not None:
        rr = [r for r in walk_no_nested(sg.node) if isinstance(r, ast.Return)]
        ps = sg.params()
        okk = len(rr) == 1 and src(rr[0].value).replace(" ", "") == f"discrete_gauss_markov_process({ps[0]}[:,jnp.newaxis],{ps[1]},{ps[2]},{ps[3]})[:,0]"
        ctx.check("R29.4", f"{sg.key}::lifts to 1x1 matrices, same argument order, returns component 0", okk, src(rr[0].value) if rr else None, sg)
    # model constructors bind the right process function and parameter names
    for ctor, proc, kws in (("WienerProcess", "wiener_process", {"sigma"}), ("IntegratedWienerProcess", "integrated_wiener_process", {"sigma", "asperity"}),
                            ("OrnsteinUhlenbeckProcess", "ornstein_uhlenbeck_process", {"sigma", "gamma"})):
        fi = mod.functions.get(ctor)
        if fi is None:
            continue
        calls = [c for c in ast.walk(fi.node) if isinstance(c, ast.Call) and call_name(c) == "GaussMarkovProcess"]
        okk = len(calls) == 1 and src(calls[0].args[0]) == proc and [src(x) for x in calls[0].args[1:3]] == ["x0", "dt"] and \
            {k.arg: src(k.value) for k in calls[0].keywords if k.arg in kws} == {k: k for k in kws}
        ctx.check("R29.4", f"{fi.key}::binds {proc} with (x0, dt) and its own parameters", okk, src(calls[0])[:200] if calls else None, fi)
    G_ = m.cls(GM, "GaussMarkovProcess")
    call = G_.methods.get("__call__")
    if call is not None:
        rr = [r for r in walk_no_nested(call.node) if isinstance(r, ast.Return)]
        okk = len(rr) == 1 and isinstance(rr[0].value, ast.Call) and src(rr[0].value.func) == "self.process" and \
            {k.arg: src(k.value) for k in rr[0].value.keywords if k.arg} == {"xi": "xi", "x0": "xx", "dt": "self.dt"} or \
            (len(rr) == 1 and isinstance(rr[0].value, ast.Call) and src(rr[0].value.func) == "self.process" and
             {k.arg for k in rr[0].value.keywords if k.arg} == {"xi", "x0", "dt"} and src([k.value for k in rr[0].value.keywords if k.arg == "dt"][0]) == "self.dt")
        ctx.check("R29.4", f"{call.key}::calls the process with the excitations, the initial state and the stored step sizes", okk, src(rr[0].value) if rr else None, call)


def r29_5(ctx, m):
    """independent prior excitations for every component of the initial state"""
    from ..util import cfg_of, known_atoms
    ctx.rule("R29.5", "process constructors that accept the initial state as (mean, std): where the constructor validates the shape S "
                      "of the state (`x0[0].shape != S` raises), the prior built from the pair draws S independent excitations "
                      "(NormalPrior(..., shape=S)); without the shape one scalar excitation is broadcast over all components and the "
                      "initial position and slope become perfectly correlated", floor=1)
    mod = m.module(GM)
    n = 0
    for fi in mod.all_functions:
        x0s = [p for p in fi.params() if p == "x0"]
        if not x0s:
            continue
        cfg = cfg_of(fi)
        shapes = []
        for nd in cfg.nodes:
            if nd.kind == "stmt" and isinstance(nd.ast, ast.Raise):
                for t, pol in known_atoms(cfg, nd.id):
                    if isinstance(t, ast.Compare) and len(t.ops) == 1 and isinstance(t.ops[0], ast.NotEq) and pol and src(t.left) in ("x0[0].shape", "x0[1].shape") \
                            and isinstance(t.comparators[0], ast.Tuple):
                        shapes.append(t.comparators[0])
                    if isinstance(t, ast.Compare) and len(t.ops) == 1 and isinstance(t.ops[0], ast.Eq) and not pol and src(t.left) in ("x0[0].shape", "x0[1].shape") \
                            and isinstance(t.comparators[0], ast.Tuple):
                        shapes.append(t.comparators[0])
        if not shapes:
            continue
        ctx.saw_func(fi)
        S = src(shapes[0])
        priors = [c for c in walk_no_nested(fi.node) if isinstance(c, ast.Call) and call_name(c) in ("NormalPrior", "LogNormalPrior") and c.args and src(c.args[0]) == "x0[0]"]
        for c in priors:
            n += 1
            kw = {k.arg: src(k.value) for k in c.keywords}
            key = f"{fi.key}::`{short(c, 60)}` draws one excitation per state component"
            if "shape" not in kw:
                ctx.bad("R29.5", key, f"no shape given although the state is validated to have shape {S}: one excitation drives all components", fi, c)
            else:
                ctx.check("R29.5", key, kw["shape"] == S, f"shape={kw['shape']}, validated state shape {S}", fi, c)
    if not n:
        ctx.und("R29.5", f"{mod.relpath}::state priors", "no constructor with a validated state shape found", mod.relpath)


_run_c29b = run


def run(ctx):  # noqa: F811
    _run_c29b(ctx)
    r29_5(ctx, ctx.model)


# ---------------------------------------------------------------------------------------------------------------- R29.6 - R29.8
GM = "nifty.re.gauss_markov"


def r29_6(ctx, m):
    R = "R29.6"
    ctx.rule(R, "integrated Wiener process: every per-interval factor of the noise amplitude (sigma, dt - scalars or sequences over the "
                "steps) is expanded along the TIME axis before it multiplies the (steps, 2) excitations: in the product with xi each "
                "factor that depends on sigma / dt stands under the `[:, newaxis]` expansion (a bare sequence would broadcast against "
                "the state axis)", floor=1)
    fi = m.func(GM, "integrated_wiener_process")
    ctx.saw_func(fi)
    xi = fi.params()[0]
    per_step = set(fi.params()[2:4])

    def factors(e):
        if isinstance(e, ast.BinOp) and isinstance(e.op, ast.Mult):
            return factors(e.left) + factors(e.right)
        return [e]

    def expanded(e):
        if isinstance(e, ast.Subscript) and isinstance(e.slice, ast.Tuple) and len(e.slice.elts) == 2:
            a, b = e.slice.elts
            return isinstance(a, ast.Slice) and a.lower is None and a.upper is None and ((isinstance(b, ast.Constant) and b.value is None) or src(b).endswith("newaxis"))
        return False
    n = 0
    for st in walk_no_nested(fi.node):
        if not (isinstance(st, ast.Assign) and isinstance(st.value, ast.BinOp) and isinstance(st.value.op, ast.Mult)):
            continue
        fs = factors(st.value)
        if not any(isinstance(f, ast.Name) and f.id == xi for f in fs):
            continue
        n += 1
        bare = [src(f) for f in fs if not (isinstance(f, ast.Name) and f.id == xi) and not expanded(f)
                and any(isinstance(z, ast.Name) and z.id in per_step for z in ast.walk(f))]
        ctx.check(R, f"{fi.key}::`{short(st, 60)}`: per-interval factors are expanded along the time axis", not bare,
                  f"{bare} multiplies the (steps, 2) array without the time-axis expansion" if bare else "", fi, st)
    if not n:
        ctx.und(R, f"{fi.key}::noise amplitude", "product with the excitations not found", fi)


def r29_7(ctx, m):
    R = "R29.7"
    ctx.rule(R, "process constructors: an optional numeric argument (initial state, amplitude, ...) is recognised as 'not given' by "
                "`is None` only - a truthiness test (`not x0`, `if x0:`) also catches the legitimate value 0 and silently turns a fixed "
                "initial state 0 into a free parameter", floor=2)
    mod = m.module(GM)
    n = 0
    for fi in mod.all_functions:
        if fi.parent is not None:
            continue
        params = set(fi.params())
        bad, tests = [], 0
        for st in walk_no_nested(fi.node):
            if not isinstance(st, (ast.If, ast.IfExp, ast.While)):
                continue
            t = st.test
            atoms = []

            def collect(e):
                if isinstance(e, ast.BoolOp):
                    for v in e.values:
                        collect(v)
                elif isinstance(e, ast.UnaryOp) and isinstance(e.op, ast.Not):
                    collect(e.operand)
                else:
                    atoms.append(e)
            collect(t)
            for a in atoms:
                if isinstance(a, ast.Compare) and len(a.ops) == 1 and isinstance(a.ops[0], (ast.Is, ast.IsNot)) and isinstance(a.left, ast.Name) and a.left.id in params:
                    tests += 1
                if isinstance(a, ast.Name) and a.id in params:
                    bad.append((a.id, st))
        if tests or bad:
            n += 1
            ctx.saw_func(fi)
            ctx.check(R, f"{fi.key}::optional arguments are tested with `is None`", not bad,
                      "; ".join(f"truthiness test of `{nm}` (line {st.lineno})" for nm, st in bad) if bad else "", fi, bad[0][1] if bad else None)
    if not n:
        ctx.und(R, f"{GM}::optional arguments", "no None tests found", mod.relpath)


def r29_8(ctx, m):
    R = "R29.8"
    ctx.rule(R, "scalar wrapper of the generic generator: drift and diffusion amplitude are each lifted to (sequences of) 1x1 matrices "
                "from their OWN value - no re-binding of one of them reads the other", floor=1)
    fi = m.func(GM, "scalar_gauss_markov_process")
    ctx.saw_func(fi)
    pair = [p for p in fi.params() if p in ("drift", "diffamp")]
    if len(pair) != 2:
        pair = fi.params()[2:4]
    n = 0
    for st in walk_no_nested(fi.node):
        if isinstance(st, ast.Assign) and len(st.targets) == 1 and isinstance(st.targets[0], ast.Name) and st.targets[0].id in pair:
            n += 1
            me = st.targets[0].id
            other = [p for p in pair if p != me][0]
            reads_other = any(isinstance(z, ast.Name) and z.id == other for z in ast.walk(st.value))
            ctx.check(R, f"{fi.key}::`{short(st, 50)}` lifts {me} from itself", not reads_other,
                      f"`{src(st)}` builds {me} from {other}" if reads_other else "", fi, st)
    if not n:
        ctx.und(R, f"{fi.key}::lifting", "no re-binding of drift / diffamp found", fi)


_run_c29x = run


def run(ctx):  # noqa: F811
    _run_c29x(ctx)
    r29_6(ctx, ctx.model)
    r29_7(ctx, ctx.model)
    r29_8(ctx, ctx.model)
