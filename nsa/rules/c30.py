"""C30 (clause) - closed-form prior transforms are the documented quantile maps, provided inverses undo them, parameter
conversions are consistent; interpolated transforms tabulate scipy's ppf(cdf(.)) with the documented parameters.

Everything is decided on terms: the function bodies are read into sympy expressions (Phi / PhiInv kept abstract with
PhiInv(Phi(x)) = x, Phi(-x) = 1 - Phi(x), Phi' = phi) and compared with a frozen table of textbook quantile functions and
moment formulas.  The numerical accuracy of the interpolation tables is NOT decided.
"""
import ast

from ..model import src, short, walk_no_nested, call_name
from .c03 import _load_sympy

SD = "nifty.re.num.stats_distributions"
PR = "nifty.re.prior"
SPD = "nifty.cl.library.special_distributions"
NO = "nifty.cl.operators.normal_operators"
UT = "nifty.cl.utilities"


class NotUnderstood(Exception):
    pass


class ScalarSym:
    """sympy reading of scalar numeric code (jnp / np / scipy.stats.norm calls on one variable)"""

    def __init__(self, sp, module_info, model):
        self.sp = sp
        self.mod = module_info
        self.m = model
        self.Phi = sp.Function("Phi")
        self.PhiInv = sp.Function("PhiInv")
        self.phi = sp.Function("phi")
        self.LapQ = sp.Function("LapQ")
        self.LapC = sp.Function("LapC")
        self.depth = 0

    def alias_target(self, name, local_aliases):
        """module- or function-level `name = partial(tree_map, jnp.exp)` / `partial(tree_map, norm.logcdf)` -> 'exp' / 'logcdf'"""
        v = local_aliases.get(name)
        if v is None:
            v = self.mod.assigns.get(name)
        if isinstance(v, ast.Call) and call_name(v) == "partial" and len(v.args) == 2 and src(v.args[0]).endswith("tree_map"):
            return src(v.args[1]).split(".")[-1]
        return None

    def fn(self, nm):
        sp = self.sp
        table = {
            "exp": sp.exp, "log": sp.log, "sqrt": sp.sqrt, "log1p": lambda z: sp.log(1 + z), "abs": sp.Abs,
            "cdf": self.Phi, "_cdf": self.Phi, "ppf": self.PhiInv, "_ppf": self.PhiInv, "pdf": self.phi, "_pdf": self.phi,
            "logcdf": lambda z: sp.log(self.Phi(z)), "_logcdf": lambda z: sp.log(self.Phi(z)),
            "float": lambda z: z, "asarray": lambda z: z, "array": lambda z: z, "atleast_1d": lambda z: z,
        }
        return table.get(nm)

    def ev(self, e, env, aliases):
        sp = self.sp
        if isinstance(e, ast.Constant):
            if isinstance(e.value, (int, float)) and not isinstance(e.value, bool):
                return sp.nsimplify(e.value)
            raise NotUnderstood(src(e))
        if isinstance(e, ast.Name):
            if e.id in env:
                return env[e.id]
            raise NotUnderstood(f"name {e.id}")
        if isinstance(e, ast.Attribute):
            t = src(e)
            if t in env:
                return env[t]
            if e.attr in ("val", "real"):
                return self.ev(e.value, env, aliases)
            raise NotUnderstood(t)
        if isinstance(e, ast.UnaryOp) and isinstance(e.op, ast.USub):
            return -self.ev(e.operand, env, aliases)
        if isinstance(e, ast.BinOp):
            a, b = self.ev(e.left, env, aliases), self.ev(e.right, env, aliases)
            ops = {ast.Add: lambda: a + b, ast.Sub: lambda: a - b, ast.Mult: lambda: a * b, ast.Div: lambda: a / b, ast.Pow: lambda: a ** b}
            if type(e.op) in ops:
                return ops[type(e.op)]()
            raise NotUnderstood(src(e))
        if isinstance(e, ast.Compare) and len(e.ops) == 1 and isinstance(e.ops[0], (ast.Lt, ast.Gt)):
            l, r = self.ev(e.left, env, aliases), self.ev(e.comparators[0], env, aliases)
            d = sp.simplify(l - r)
            # indicator symbols of the sign of (l - r); `0 < x` and `x > 0` give the same symbol
            kind = "neg" if isinstance(e.ops[0], ast.Lt) else "pos"
            if d.could_extract_minus_sign():
                d, kind = sp.simplify(-d), ("pos" if kind == "neg" else "neg")
            key = (kind, str(d))
            return sp.Symbol(f"I_{key[0]}[{key[1]}]", nonnegative=True)
        if isinstance(e, ast.IfExp):
            a, b = self.ev(e.body, env, aliases), self.ev(e.orelse, env, aliases)
            if sp.simplify(a - b) == 0:
                return a
            raise NotUnderstood(f"branches of `{src(e)}` differ")
        if isinstance(e, ast.Call):
            nm = call_name(e)
            if nm in ("asnumpy", "at", "copy") and isinstance(e.func, ast.Attribute):
                return self.ev(e.func.value, env, aliases)
            if nm == "Field" and len(e.args) == 2:
                return self.ev(e.args[1], env, aliases)
            if nm == "where" and len(e.args) == 3 and isinstance(e.args[0], ast.Compare) and len(e.args[0].ops) == 1:
                c = e.args[0]
                l, r = self.ev(c.left, env, aliases), self.ev(c.comparators[0], env, aliases)
                rel = {ast.Gt: sp.Gt, ast.Lt: sp.Lt, ast.GtE: sp.Ge, ast.LtE: sp.Le}.get(type(c.ops[0]))
                if rel is None:
                    raise NotUnderstood(src(e))
                return sp.Piecewise((self.ev(e.args[1], env, aliases), rel(l, r)), (self.ev(e.args[2], env, aliases), True))
            if src(e.func) == "laplace.ppf" and len(e.args) == 3:
                return self.LapQ(*[self.ev(a, env, aliases) for a in e.args])
            if src(e.func) == "laplace.cdf" and len(e.args) == 3:
                return self.LapC(*[self.ev(a, env, aliases) for a in e.args])
            if nm == "tree_map" and len(e.args) == 2:
                f = self.fn(src(e.args[0]).split(".")[-1])
                if f is None:
                    raise NotUnderstood(src(e))
                return f(self.ev(e.args[1], env, aliases))
            if isinstance(e.func, ast.Name):
                tgt = self.alias_target(e.func.id, aliases)
                if tgt is not None and self.fn(tgt) is not None and len(e.args) == 1:
                    return self.fn(tgt)(self.ev(e.args[0], env, aliases))
                # inline a function of the same module
                callee = self.mod.functions.get(e.func.id)
                if callee is not None and self.depth < 4:
                    ps = [a.arg for a in callee.node.args.posonlyargs + callee.node.args.args]
                    kws = [a.arg for a in callee.node.args.kwonlyargs]
                    env2 = {}
                    for p_, a in zip(ps, e.args):
                        env2[p_] = self.ev(a, env, aliases)
                    for k in e.keywords:
                        if k.arg in ps + kws:
                            env2[k.arg] = self.ev(k.value, env, aliases)
                    self.depth += 1
                    try:
                        return self.run(callee.node, env2)
                    finally:
                        self.depth -= 1
            f = self.fn(nm)
            if f is not None and len(e.args) == 1 and not e.keywords:
                return f(self.ev(e.args[0], env, aliases))
            if nm == "where" and len(e.args) == 3:
                raise NotUnderstood(src(e))
            raise NotUnderstood(src(e))
        raise NotUnderstood(src(e))

    def run(self, fn_node, env, want_tuple=False):
        """straight-line body -> returned expression (tuple of expressions if want_tuple)"""
        env = dict(env)
        aliases = {}
        for st in fn_node.body:
            if isinstance(st, (ast.Import, ast.ImportFrom, ast.Pass)):
                continue
            if isinstance(st, ast.Expr):
                continue
            if isinstance(st, ast.If):
                # validation guards that only raise are skipped
                if all(isinstance(x, ast.Raise) for x in st.body) and not st.orelse:
                    continue
                raise NotUnderstood(f"branch `{src(st.test)}`")
            if isinstance(st, ast.Assign) and len(st.targets) == 1:
                t = st.targets[0]
                if isinstance(t, ast.Name):
                    if isinstance(st.value, ast.Call) and call_name(st.value) == "partial":
                        aliases[t.id] = st.value
                        continue
                    env[t.id] = self.ev(st.value, env, aliases)
                    continue
                if isinstance(t, ast.Tuple) and isinstance(st.value, ast.Tuple) and len(t.elts) == len(st.value.elts):
                    vals = [self.ev(v, env, aliases) for v in st.value.elts]
                    for a, v in zip(t.elts, vals):
                        env[a.id] = v
                    continue
                if isinstance(t, ast.Tuple) and isinstance(st.value, ast.GeneratorExp):
                    continue  # reshaping helpers: names keep their meaning
                raise NotUnderstood(f"`{short(st)}`")
            if isinstance(st, ast.AugAssign) and isinstance(st.target, ast.Name) and isinstance(st.op, (ast.Add, ast.Sub, ast.Mult, ast.Div)):
                v = self.ev(st.value, env, aliases)
                cur = env[st.target.id]
                env[st.target.id] = {ast.Add: cur + v, ast.Sub: cur - v, ast.Mult: cur * v, ast.Div: cur / v}[type(st.op)]
                continue
            if isinstance(st, ast.Return):
                if isinstance(st.value, ast.Tuple):
                    vals = tuple(self.ev(v, env, aliases) for v in st.value.elts)
                    return vals if want_tuple else vals
                return self.ev(st.value, env, aliases)
            raise NotUnderstood(f"statement `{short(st)}`")
        raise NotUnderstood("no return")

    # ---- normaliser helpers
    def norm(self, e):
        sp = self.sp
        Phi, PhiInv = self.Phi, self.PhiInv
        e = sp.sympify(e)
        # PhiInv(Phi(x)) -> x ; Phi(PhiInv(p)) -> p ; Phi(-x) -> 1 - Phi(x)
        for _ in range(4):
            e = e.replace(lambda t: t.func == PhiInv and t.args[0].func == Phi, lambda t: t.args[0].args[0])
            e = e.replace(lambda t: t.func == Phi and t.args[0].func == PhiInv, lambda t: t.args[0].args[0])
            e = e.replace(lambda t: t.func == Phi and t.args[0].could_extract_minus_sign(), lambda t: 1 - Phi(-t.args[0]))
            e = sp.simplify(e)
        return e

    def same(self, a, b):
        sp = self.sp
        d = self.norm(sp.expand_log(self.norm(a) - self.norm(b), force=True))
        if d == 0:
            return True
        d2 = sp.simplify(sp.expand(sp.expand_log(d, force=True)))
        return d2 == 0


def run(ctx):
    m = ctx.model
    sp = _load_sympy()
    ctx.rule("R30.1", "nifty.re closed-form prior transforms: each `_standard_to_*` equals the documented quantile function evaluated at "
                      "Phi(xi) (normal: mean+std*xi; log-normal: exp of it; uniform: a_min+(a_max-a_min)*Phi; Laplace: alpha*log(2p) "
                      "below and -alpha*log(2(1-p)) above the median), is increasing in xi for positive scale parameters, and every "
                      "provided inverse composed with its transform is the identity; lognormal_moments reproduces mean and std", floor=9)
    ctx.rule("R30.2", "classic special-distribution operators: UniformOperator value = loc + scale*Phi(x), its Jacobian is the derivative "
                      "of the value and inverse() undoes apply; LaplaceOperator's Jacobian is the derivative of the Laplace quantile at "
                      "Phi(x) on both sides of the median; interpolated operators tabulate <dist>.ppf(norm._cdf(x), <shape>) over "
                      "[-8.2, 8.2] and apply the documented scale; parameter conversions (mode/mean/var <-> alpha/q/theta) are "
                      "mutually consistent", floor=10)
    if sp is None:
        ctx.error("sympy not importable: C30 cannot be decided")
        return
    sd = m.module(SD)
    S = ScalarSym(sp, sd, m)
    xi = sp.Symbol("xi", real=True)
    pos = lambda n: sp.Symbol(n, positive=True)  # noqa: E731
    real = lambda n: sp.Symbol(n, real=True)  # noqa: E731
    Phi = S.Phi

    def body(name):
        fi = sd.functions.get(name)
        if fi is None:
            raise NotUnderstood(f"{name} missing")
        ctx.saw_func(fi)
        return fi

    def decide(rule, key, fn, where):
        try:
            verdict, det = fn()
        except NotUnderstood as exc:
            ctx.und(rule, key, f"term not understood: {exc}", where)
            return
        except KeyError as exc:
            ctx.und(rule, key, f"name not bound: {exc}", where)
            return
        ctx.check(rule, key, verdict, det, where)

    # ---------------------------------------------------------------- normal
    mean, std = real("mean"), pos("std")

    def normal_fwd():
        fi = body("_standard_to_normal")
        t = S.run(fi.node, {"xi": xi, "mean": mean, "std": std})
        return S.same(t, mean + std * xi), f"{t}"
    fi_n = sd.functions.get("_standard_to_normal")
    decide("R30.1", f"{SD}::_standard_to_normal is mean + std*xi (normal quantile at Phi(xi))", normal_fwd, fi_n)

    def normal_inv():
        f = S.run(body("_standard_to_normal").node, {"xi": xi, "mean": mean, "std": std})
        g = S.run(body("_normal_to_standard").node, {"y": f, "mean": mean, "std": std})
        return S.same(g, xi), f"inverse(transform(xi)) = {sp.simplify(g)}"
    decide("R30.1", f"{SD}::_normal_to_standard undoes _standard_to_normal", normal_inv, sd.functions.get("_normal_to_standard"))
    # ---------------------------------------------------------------- lognormal
    lm, ls = real("log_mean"), pos("log_std")

    def logn_fwd():
        t = S.run(body("_standard_to_lognormal").node, {"xi": xi, "log_mean": lm, "log_std": ls})
        return S.same(t, sp.exp(lm + ls * xi)) and bool(sp.simplify(sp.diff(t, xi) / t - ls) == 0), f"{t}"
    decide("R30.1", f"{SD}::_standard_to_lognormal is exp(log_mean + log_std*xi)", logn_fwd, sd.functions.get("_standard_to_lognormal"))

    def logn_inv():
        f = S.run(body("_standard_to_lognormal").node, {"xi": xi, "log_mean": lm, "log_std": ls})
        g = S.run(body("_lognormal_to_standard").node, {"y": f, "log_mean": lm, "log_std": ls})
        return S.same(g, xi), f"inverse(transform(xi)) = {sp.simplify(g)}"
    decide("R30.1", f"{SD}::_lognormal_to_standard undoes _standard_to_lognormal", logn_inv, sd.functions.get("_lognormal_to_standard"))

    def moments(modinfo, fname, params):
        def f():
            fi = modinfo.functions.get(fname)
            if fi is None:
                raise NotUnderstood(f"{fname} missing")
            ctx.saw_func(fi)
            Sx = ScalarSym(sp, modinfo, m)
            mu, sg = pos("m"), pos("s")
            env = {params[0]: mu, params[1]: sg}
            out = Sx.run(fi.node, env, want_tuple=True)
            if not (isinstance(out, tuple) and len(out) == 2):
                raise NotUnderstood("does not return (logmean, logstd)")
            a, b = out
            mean_ln = sp.exp(a + b ** 2 / 2)
            var_ln = (sp.exp(b ** 2) - 1) * sp.exp(2 * a + b ** 2)
            ok1 = sp.simplify(mean_ln - mu) == 0
            ok2 = sp.simplify(var_ln - sg ** 2) == 0
            return bool(ok1 and ok2), f"logmean = {a}, logstd = {b}; implied mean {sp.simplify(mean_ln)}, variance {sp.simplify(var_ln)}"
        return f
    decide("R30.1", f"{SD}::lognormal_moments reproduces the requested mean and standard deviation",
           moments(sd, "lognormal_moments", ("mean", "std")), sd.functions.get("lognormal_moments"))
    ut = m.module(UT)
    decide("R30.2", f"{UT}::lognormal_moments reproduces the requested mean and standard deviation",
           moments(ut, "lognormal_moments", ("mean", "sigma")), ut.functions.get("lognormal_moments"))

    # the public constructors hand the right parameters on
    def ctor_binding(fname, callee, want):
        fi = sd.functions.get(fname)
        if fi is None:
            return None, "missing"
        rr = [r.value for r in walk_no_nested(fi.node) if isinstance(r, ast.Return)]
        rr = [r for r in rr if isinstance(r, ast.Call) and call_name(r) == "Partial" and r.args and src(r.args[0]) == callee]
        if not rr:
            return None, "no Partial(<callee>, ...) return"
        kw = {k.arg: src(k.value) for k in rr[-1].keywords}
        return kw == want, str(kw)
    def ctor_binding2(fname, callee, want):
        fi = sd.functions.get(fname)
        if fi is None:
            return None, "missing"
        e, _n = _inlined(fi, lambda q: isinstance(q, ast.Call) and call_name(q) == "Partial" and q.args and src(q.args[0]) == callee, depth=2)
        if e is None:
            return None, "no Partial(<callee>, ...) return"
        kw = {k.arg: src(k.value).replace(" ", "") for k in e.keywords}
        return kw == want, str(kw)
    for fname, callee, want in (("normal_prior", "_standard_to_normal", {"mean": "mean", "std": "std"}),
                                ("normal_invprior", "_normal_to_standard", {"mean": "mean", "std": "std"}),
                                ("lognormal_prior", "_standard_to_lognormal", {"log_mean": "_log_mean", "log_std": "_log_std"}),
                                ("lognormal_invprior", "_lognormal_to_standard", {"log_mean": "_log_mean", "log_std": "_log_std"}),
                                ("laplace_prior", "_standard_to_laplace", {"alpha": "alpha"}),
                                ("uniform_prior", "_standard_to_uniform", {"a_min": "a_min", "scale": "a_max-a_min"})):
        v, det = ctor_binding2(fname, callee, want)
        ctx.check("R30.1", f"{SD}::{fname} binds {callee} to its own parameters" + (" (scale = a_max - a_min)" if fname == "uniform_prior" else ""),
                  v, det, sd.functions.get(fname))
    # lognormal constructors derive (_log_mean, _log_std) from lognormal_moments(mean, std)
    for fname in ("lognormal_prior", "lognormal_invprior"):
        fi = sd.functions.get(fname)
        if fi is None:
            continue
        calls = [st for st in ast.walk(fi.node) if isinstance(st, ast.Assign) and isinstance(st.value, ast.Call) and call_name(st.value) == "lognormal_moments"]
        okk = len(calls) == 1 and src(calls[0].targets[0]) in ("_log_mean, _log_std", "(_log_mean, _log_std)") \
            and [src(a) for a in calls[0].value.args] == fi.params()[:2]
        ctx.check("R30.1", f"{SD}::{fname} takes (log mean, log std) from lognormal_moments(mean, std) in this order", okk,
                  src(calls[0]) if calls else None, fi)
    # ---------------------------------------------------------------- uniform
    amin, scale = real("a_min"), pos("scale")

    def uni_fwd():
        t = S.run(body("_standard_to_uniform").node, {"xi": xi, "a_min": amin, "scale": scale})
        return S.same(t, amin + scale * Phi(xi)), f"{t}"
    decide("R30.1", f"{SD}::_standard_to_uniform is a_min + scale*Phi(xi)", uni_fwd, sd.functions.get("_standard_to_uniform"))
    # the (0, 1) shortcut of uniform_prior returns the bare cdf: only legal when a_min == 0 and a_max == 1 are both known
    up = sd.functions.get("uniform_prior")
    if up is not None:
        from ..util import cfg_of, known_atoms
        cfgu = cfg_of(up)
        pa, pb = up.params()[:2]
        short_rets = [n for n in cfgu.nodes if n.kind == "stmt" and isinstance(n.ast, ast.Return) and "_standard_to_uniform" not in src(n.ast.value)]
        for n in short_rets:
            at = [(src(t).replace(" ", ""), pol) for t, pol in known_atoms(cfgu, n.id)]
            has_min = any(pol and s_ in (f"{pa}==0.0", f"{pa}==0", f"0.0=={pa}") for s_, pol in at)
            has_max = any(pol and s_ in (f"{pb}==1.0", f"{pb}==1", f"1.0=={pb}") for s_, pol in at)
            ctx.check("R30.1", f"{SD}::uniform_prior returns the bare normal cdf only for the unit interval [0, 1]", has_min and has_max,
                      f"guards {[('' if p_ else 'not ') + s_ for s_, p_ in at]}" + ("" if has_min and has_max else
                                                                                     f": the offset `{pa}` is dropped for intervals that merely have unit width"), up, n.ast)
    # the model classes of nifty.re.prior forward every constructor parameter to the functional constructor of the same name
    pr = m.module(PR)
    for cname, fname in (("LaplacePrior", "laplace_prior"), ("NormalPrior", "normal_prior"), ("LogNormalPrior", "lognormal_prior"),
                         ("UniformPrior", "uniform_prior"), ("InvGammaPrior", "invgamma_prior")):
        C = m.cls(PR, cname)
        ini = C.methods.get("__init__")
        fn_ = sd.functions.get(fname)
        key = f"{C.key}::forwards all of its parameters to {fname}"
        if ini is None or fn_ is None:
            ctx.und("R30.1", key, "constructor or function missing", C)
            continue
        ctx.saw_func(ini)
        own = [p_ for p_ in ini.params()[1:] if p_ not in ("kwargs",)]
        calls = [c for c in ast.walk(ini.node) if isinstance(c, ast.Call) and call_name(c) == fname]
        if len(calls) != 1:
            ctx.und("R30.1", key, f"{len(calls)} calls of {fname}", ini)
            continue
        fparams = fn_.params()
        bound = {}
        for i_, a_ in enumerate(calls[0].args):
            if i_ < len(fparams):
                bound[fparams[i_]] = src(a_)
        for k_ in calls[0].keywords:
            if k_.arg:
                bound[k_.arg] = src(k_.value)
        missing = [p_ for p_ in own if p_ in fparams and bound.get(p_) not in (p_, f"self.{p_}")]
        ctx.check("R30.1", key, not missing, f"{src(calls[0])}" + (f": parameter(s) {missing} are not handed on (the transform silently uses the default)" if missing else ""), ini, calls[0])
    # ---------------------------------------------------------------- laplace
    alpha = pos("alpha")

    def lap():
        t = S.run(body("_standard_to_laplace").node, {"xi": xi, "alpha": alpha})
        ineg = [s_ for s_ in t.free_symbols if str(s_).startswith("I_neg")]
        ipos = [s_ for s_ in t.free_symbols if str(s_).startswith("I_pos")]
        if len(ineg) != 1 or len(ipos) != 1 or str(ineg[0]) != "I_neg[xi]" or str(ipos[0]) != "I_pos[xi]":
            raise NotUnderstood(f"sign indicators {ineg + ipos}")
        p = Phi(xi)
        below = t.subs({ineg[0]: 1, ipos[0]: 0})
        above = t.subs({ineg[0]: 0, ipos[0]: 1})
        at0 = t.subs({ineg[0]: 0, ipos[0]: 0})
        ok = S.same(below, alpha * sp.log(2 * p)) and S.same(above, -alpha * sp.log(2 * (1 - p))) and sp.simplify(at0) == 0
        return bool(ok), f"xi<0: {sp.simplify(below)}; xi>0: {sp.simplify(S.norm(above))}; xi=0: {at0}"
    decide("R30.1", f"{SD}::_standard_to_laplace is the Laplace(0, alpha) quantile at Phi(xi) on both sides of the median", lap,
           sd.functions.get("_standard_to_laplace"))
    # ---------------------------------------------------------------- inverse gamma (re): tabulated function
    for fname in ("invgamma_prior", "invgamma_invprior"):
        fi = sd.functions.get(fname)
        if fi is None:
            ctx.und("R30.1", f"{SD}::{fname}", "missing", sd.relpath)
            continue
        ctx.saw_func(fi)
        pa, pscale, ploc = fi.params()[:3]
        lams = [x for x in ast.walk(fi.node) if isinstance(x, ast.Lambda) and isinstance(x.body, ast.Call) and src(x.body.func) == "invgamma.ppf"]
        good = bool(lams)
        det = []
        inner = [n for n in ast.walk(fi.node) if isinstance(n, ast.FunctionDef) and n is not fi.node]
        # how the closure applies parameters outside the table: {guard text or '': expression}
        outer = []
        for fn_ in inner:
            for r in ast.walk(fn_):
                if isinstance(r, ast.Return) and r.value is not None:
                    g = [src(t.test) for t in ast.walk(fn_) if isinstance(t, ast.If) and any(x is r for b in t.body for x in ast.walk(b))]
                    outer.append((g, src(r.value)))
        for lam in lams:
            b = lam.body
            xarg = lam.args.args[0].arg
            okk = bool(b.args) and src(b.args[0]) in (f"norm._cdf({xarg})", f"norm.cdf({xarg})") and any(k.arg == "a" and src(k.value) == pa for k in b.keywords)
            kws = {k.arg: src(k.value) for k in b.keywords}
            okk = okk and all(kws.get(k, v) == v for k, v in (("scale", pscale), ("loc", ploc)))
            # guard of this lambda: is it the loc == 0 specialisation?
            lg = [src(t.test) for t in ast.walk(fi.node) if isinstance(t, ast.If) and any(x is lam for bb in t.body for x in ast.walk(bb))]
            loc0 = any(g_.replace(" ", "") in (f"{ploc}==0.0", f"{ploc}==0") for g_ in lg)
            rel = [e for g, e in outer if (any(x.replace(" ", "") in (f"{ploc}==0.0", f"{ploc}==0") for x in g) == loc0)] or [e for g, e in outer]
            txt = " ".join(rel).replace(" ", "")
            scale_out = f"*{pscale}" in txt or f"{pscale}*" in txt
            loc_out = f"+{ploc}" in txt or f"-{ploc}" in txt
            n_scale = int("scale" in kws) + int(scale_out)
            n_loc = int("loc" in kws) + int(loc_out) + int(loc0)
            okk = okk and n_scale == 1 and n_loc == 1
            det.append(f"{src(b)} [scale: table {'scale' in kws}, outside {scale_out}; loc: table {'loc' in kws}, outside {loc_out}, specialised to 0: {loc0}]")
            good = good and okk
        ctx.check("R30.1", f"{SD}::{fname} tabulates invgamma.ppf(norm cdf(x), a[, loc, scale]) and applies each of scale / loc exactly once "
                           "(in the table or in the closure)", good, "; ".join(det), fi)
    # ---------------------------------------------------------------- classic operators
    spd = m.module(SPD)
    U = m.cls(SPD, "UniformOperator")
    ctx.saw_class(U)
    ap = U.methods["apply"]
    x = sp.Symbol("x", real=True)
    Sc = ScalarSym(sp, spd, m)
    loc, scl = real("loc"), pos("scale")
    envU = {"self._loc": loc, "self._scale": scl, "xval": x}

    def val_and_jac(fi):
        """(value term, Jacobian term) of an apply that returns Field(target, V) / x.new(res, makeOp(Field(domain, J)))"""
        xp = fi.params()[1]
        env = {"self._loc": loc, "self._scale": scl, xp: x}
        v, _n = _inlined(fi, lambda q: isinstance(q, ast.Return) and q.value is not None and "new(" not in src(q.value))
        j, _n = _inlined(fi, lambda q: isinstance(q, ast.Call) and call_name(q) == "makeOp")
        if v is None or j is None:
            raise NotUnderstood("value / Jacobian not found")
        return Sc.ev(v.value, env, {}), Sc.ev(j.args[0], env, {})

    def dPhi(t):
        d = sp.diff(t, x)
        return d.subs(sp.Derivative(Sc.Phi(x), x), Sc.phi(x))

    def uni_cl():
        val, jac = val_and_jac(ap)
        dval = dPhi(val)
        ok = Sc.same(val, loc + scl * Sc.Phi(x)) and sp.simplify(dval - jac) == 0
        return bool(ok), f"value {val}; Jacobian {jac}; d value/dx = {dval}"
    decide("R30.2", f"{U.key}::value is loc + scale*Phi(x) and the Jacobian is its derivative", uni_cl, ap)

    def uni_inv():
        inv = U.methods["inverse"]
        fparam = inv.params()[1]
        e, _n = _inlined(inv, lambda q: isinstance(q, ast.Return) and q.value is not None)
        t = Sc.ev(e.value, {"self._loc": loc, "self._scale": scl, fparam: loc + scl * Sc.Phi(x)}, {})
        return Sc.same(t, x), f"inverse(apply(x)) = {Sc.norm(t)}"
    decide("R30.2", f"{U.key}::inverse undoes apply", uni_inv, U.methods.get("inverse"))
    L = m.cls(SPD, "LaplaceOperator")
    ctx.saw_class(L)
    lap_ap = L.methods["apply"]

    def lap_cl():
        val, jac = val_and_jac(lap_ap)
        P = Sc.Phi(x)
        okv = val == Sc.LapQ(P, loc, scl)
        # derivative of the Laplace(loc, scale) quantile w.r.t. p: scale/(1-p) above, scale/p below the median
        p = sp.Symbol("p", positive=True)
        j = jac.subs(P, p)
        okj = True
        for pv in (sp.Rational(1, 7), sp.Rational(1, 3), sp.Rational(2, 5)):
            okj = okj and sp.simplify(j.subs(p, pv) - scl / pv * Sc.phi(x)) == 0
        for pv in (sp.Rational(4, 7), sp.Rational(2, 3), sp.Rational(9, 10)):
            okj = okj and sp.simplify(j.subs(p, pv) - scl / (1 - pv) * Sc.phi(x)) == 0
        return bool(okv and okj), f"value {val}; Jacobian {jac}"
    decide("R30.2", f"{L.key}::value is the Laplace(loc, scale) quantile at Phi(x); Jacobian = scale*(1/p below, 1/(1-p) above the median)*phi(x)", lap_cl, lap_ap)
    linv = L.methods.get("inverse")
    if linv is not None:
        def lap_inv():
            xs = linv.params()[1]
            e, _n = _inlined(linv, lambda q: isinstance(q, ast.Return) and q.value is not None)
            y = sp.Symbol("y", real=True)
            t = Sc.ev(e.value, {"self._loc": loc, "self._scale": scl, xs: y}, {})
            return t == Sc.PhiInv(Sc.LapC(y, loc, scl)), f"{t}"
        decide("R30.2", f"{L.key}::inverse = PhiInv(Laplace cdf(x; loc, scale))", lap_inv, linv)
    # interpolated operators: tabulated function, range and scale
    def interp_sites(node):
        return [c for c in ast.walk(node) if isinstance(c, ast.Call) and call_name(c) == "_InterpolationOperator"]
    IG = m.cls(SPD, "InverseGammaOperator")
    GA = m.cls(SPD, "GammaOperator")
    for cls, dist, shape, scale_attr in ((IG, "invgamma", "float(self._alpha)", "self._q"), (GA, "gamma", "self._alpha", "self._theta")):
        ctx.saw_class(cls)
        ini = cls.methods["__init__"]
        sites = interp_sites(ini.node)
        okk = None
        det = None
        if len(sites) == 1 and len(sites[0].args) >= 5 and isinstance(sites[0].args[1], ast.Lambda):
            lam = sites[0].args[1]
            xa = lam.args.args[0].arg
            okk = src(lam.body) == f"{dist}.ppf(norm._cdf({xa}), {shape})" and _num(sites[0].args[2]) == -_num(sites[0].args[3]) and (_num(sites[0].args[3]) or 0) >= 8
            det = src(lam.body)
            e, _n = _inlined(ini, lambda q: isinstance(q, ast.Assign) and src(q.targets[0]) == "self._op", depth=2)
            v = e.value if e is not None else None
            okk = okk and isinstance(v, ast.BinOp) and isinstance(v.op, ast.Mult) and \
                sorted([src(v.left) == scale_attr, src(v.right) == scale_attr]) == [False, True] and \
                any(isinstance(z, ast.Call) and call_name(z) == "_InterpolationOperator" for z in (v.left, v.right))
        ctx.check("R30.2", f"{cls.key}::tabulates {dist}.ppf(Phi(x), shape) over a symmetric range >= 8 sigma and multiplies by its scale", okk, det, ini)
    for fname, dist in (("LogInverseGammaOperator", "invgamma"), ("BetaOperator", "beta")):
        fi = spd.functions.get(fname)
        if fi is None:
            continue
        ctx.saw_func(fi)
        lams = [x_ for x_ in ast.walk(fi.node) if isinstance(x_, ast.Lambda)]
        t = src(lams[0].body) if lams else ""
        if fname == "BetaOperator":
            okk = t == f"beta.ppf(norm._cdf({lams[0].args.args[0].arg}), a=float({fi.params()[1]}), b=float({fi.params()[2]}))"
        else:
            okk = t == f"np.log(invgamma.ppf(norm._cdf({lams[0].args.args[0].arg}), float({fi.params()[1]})))"
            e, _n = _inlined(fi, lambda q: isinstance(q, ast.Return) and q.value is not None, depth=2)
            v = e.value if e is not None else None
            qn = fi.params()[2]
            okk = okk and isinstance(v, ast.BinOp) and isinstance(v.op, ast.Add) and \
                any(isinstance(z, ast.Call) and call_name(z) == "_InterpolationOperator" for z in (v.left, v.right)) and \
                any(src(z).replace(" ", "") in (f"np.log({qn})ifnp.isscalar({qn})else{qn}.log()", f"{qn}.log()", f"np.log({qn})") for z in (v.left, v.right))
        ctx.check("R30.2", f"{spd.relpath}::{fname} tabulates the documented quantile composition", okk, t, fi)
    # parameter conversions
    a_, q_ = pos("alpha"), pos("q")

    def ig_params():
        ini = IG.methods["__init__"]
        # branch 1: (alpha, q) -> mode, mean ; branch 2: (mean, mode) -> alpha, q
        txt = {src(st.targets[0]): st.value for st in ast.walk(ini.node) if isinstance(st, ast.Assign) and src(st.targets[0]).startswith("self._")}
        Sx = ScalarSym(sp, spd, m)
        mode1 = Sx.ev(_first(ini.node, "self._mode", 0), {"self._q": q_, "self._alpha": a_}, {})
        mean1 = Sx.ev(_first(ini.node, "self._mean", 0), {"self._q": q_, "self._alpha": a_}, {})
        ok = sp.simplify(mode1 - q_ / (a_ + 1)) == 0 and sp.simplify(mean1 - q_ / (a_ - 1)) == 0
        mo, me = pos("mode"), pos("mean_")
        alpha2 = Sx.ev(_first(ini.node, "self._alpha", 1), {"self._mean": me, "self._mode": mo}, {})
        q2 = Sx.ev(_first(ini.node, "self._q", 1), {"self._mode": mo, "self._alpha": alpha2}, {})
        ok = ok and sp.simplify(q2 / (alpha2 + 1) - mo) == 0 and sp.simplify(q2 / (alpha2 - 1) - me) == 0
        var = IG.methods["var"]
        rr = [r for r in walk_no_nested(var.node) if isinstance(r, ast.Return)]
        v = Sx.ev(rr[-1].value, {"self._q": q_, "self._alpha": a_}, {})
        ok = ok and sp.simplify(v - q_ ** 2 / ((a_ - 1) ** 2 * (a_ - 2))) == 0
        return bool(ok), f"mode {mode1}, mean {mean1}; from (mean, mode): alpha {sp.simplify(alpha2)}, q {sp.simplify(q2)}; var {v}"
    decide("R30.2", f"{IG.key}::(alpha, q) <-> (mode, mean) conversions and the variance agree with mode=q/(a+1), mean=q/(a-1), var=q^2/((a-1)^2(a-2))",
           ig_params, IG.methods["__init__"])

    def ga_params():
        ini = GA.methods["__init__"]
        Sx = ScalarSym(sp, spd, m)
        me, va = pos("mean_"), pos("var_")
        env_ = {"var": va, "mean": me}
        th = al = None
        for _ in range(2):  # either may be written in terms of the other
            for nm_ in ("theta", "alpha"):
                if env_.get(nm_) is None:
                    try:
                        env_[nm_] = Sx.ev(_first(ini.node, nm_, 0), dict(env_), {})
                    except NotUnderstood:
                        env_.pop(nm_, None)
        th, al = env_.get("theta"), env_.get("alpha")
        if th is None or al is None:
            raise NotUnderstood("(mean, var) branch: theta / alpha not expressed in mean and var")
        ok = sp.simplify(al * th - me) == 0 and sp.simplify(al * th ** 2 - va) == 0
        th2 = Sx.ev(_first(ini.node, "theta", 1), {"beta": pos("beta")}, {})
        ok = ok and sp.simplify(th2 - 1 / pos("beta")) == 0
        out = {}
        for prop, want in (("mean", a_ * pos("theta")), ("var", a_ * pos("theta") ** 2), ("mode", (a_ - 1) * pos("theta")), ("beta", 1 / pos("theta"))):
            fi_ = GA.methods[prop]
            rr = [r for r in walk_no_nested(fi_.node) if isinstance(r, ast.Return)]
            v = Sx.ev(rr[-1].value, {"self._alpha": a_, "self._theta": pos("theta")}, {})
            out[prop] = v
            ok = ok and sp.simplify(v - want) == 0
        return bool(ok), f"theta {th}, alpha {sp.simplify(al)}; {out}"
    decide("R30.2", f"{GA.key}::(mean, var) / beta -> (alpha, theta) and the reported mean, var, mode, beta agree with the Gamma(alpha, theta) formulas",
           ga_params, GA.methods["__init__"])
    # classic normal / lognormal transforms
    nm = m.module(NO)
    nt = nm.functions.get("NormalTransform")
    lt = nm.functions.get("LognormalTransform")
    if nt is not None:
        ctx.saw_func(nt)
        rr = [r for r in walk_no_nested(nt.node) if isinstance(r, ast.Return)]
        v_ = rr[0].value if len(rr) == 1 else None
        okk = isinstance(v_, ast.BinOp) and isinstance(v_.op, ast.Add) and any(src(x_) == "mean" for x_ in (v_.left, v_.right)) and \
            any(isinstance(x_, ast.BinOp) and isinstance(x_.op, ast.Mult) and {src(x_.left).split("(")[0], src(x_.right).split("(")[0]} == {"sigma", "ducktape"}
                for x_ in (v_.left, v_.right))
        ctx.check("R30.2", f"{nm.relpath}::NormalTransform is mean + sigma*xi", okk, src(rr[0].value) if rr else None, nt)
    if lt is not None:
        ctx.saw_func(lt)
        ps = lt.params()
        e, _n = _inlined(lt, lambda q: isinstance(q, ast.Return) and q.value is not None, depth=2, unpack=True)
        body_ = src(e.value) if e is not None else ""
        lmc = f"lognormal_moments({ps[0]}, {ps[1]}, {ps[3]})"
        okk = body_ == f"NormalTransform({lmc}[0], {lmc}[1], {ps[2]}, {ps[3]}).ptw('exp')"
        ctx.check("R30.2", f"{nm.relpath}::LognormalTransform is exp(NormalTransform(log-moments of (mean, sigma)))", okk, body_[:200], lt)


def _inlined(fi, pick, depth=5, unpack=False):
    """inline locals into the first expression selected by pick(ast node) inside fi; returns (expr, cfg node) or (None, None)"""
    from ..util import cfg_of, find_nodes
    from ..terms import inline_at
    cfg = cfg_of(fi)
    rd = cfg.reaching_defs(fi.params())
    hits = find_nodes(cfg, pick)
    if not hits:
        return None, None
    n, e = hits[-1]
    return inline_at(cfg, rd, n.id, e, depth=depth, unpack_calls=unpack), n


def _num(e):
    try:
        return float(ast.literal_eval(e))
    except Exception:
        return None


def _first(fn_node, target, idx):
    hits = [st.value for st in ast.walk(fn_node) if isinstance(st, ast.Assign) and len(st.targets) == 1 and src(st.targets[0]) == target]
    # ast.walk is breadth first; order by line
    hits = sorted(hits, key=lambda v: (v.lineno, v.col_offset))
    if len(hits) <= idx:
        raise NotUnderstood(f"{idx + 1}. assignment to {target} not found")
    return hits[idx]


def r30_3(ctx, m):
    """tabulated quantiles: the table reaches the upper end of its range"""
    ctx.rule("R30.3", "interpolated prior transforms: the tabulation nodes cover [xmin, xmax] - they are np.arange(xmin, xmax + step, "
                      "step) / np.linspace(xmin, xmax, num); a node count obtained by truncating a float quotient (int((xmax - xmin) "
                      "/ step)) can fall one step short of xmax, and the interpolation clamps beyond the last node", floor=1)
    fi = m.func(SD, "interpolator", required=False)
    if fi is None:
        ctx.und("R30.3", f"{SD}::interpolator", "function missing", SD)
        return
    ctx.saw_func(fi)
    from ..util import cfg_of
    from ..terms import inline_at
    cfg = cfg_of(fi)
    rd = cfg.reaching_defs(fi.params())
    defs = [n for n in cfg.nodes if n.kind == "stmt" and isinstance(n.ast, ast.Assign) and isinstance(n.ast.targets[0], ast.Name)
            and any(isinstance(c, ast.Call) and call_name(c) in ("arange", "linspace") for c in ast.walk(n.ast.value))]
    if not defs:
        ctx.und("R30.3", f"{fi.key}::tabulation nodes", "no arange/linspace node table found", fi)
    for n in defs:
        e = inline_at(cfg, rd, n.id, n.ast.value, depth=3)
        t = src(e).replace(" ", "")
        key = f"{fi.key}::`{short(n.ast, 60)}` reaches xmax"
        if t in ("np.arange(xmin,xmax+step,step)", "np.arange(xmin,step+xmax,step)") or t.startswith("np.linspace(xmin,xmax,"):
            ctx.ok("R30.3", key, t, fi, n.ast)
        elif any(isinstance(c, ast.Call) and src(c.func) == "int" and c.args and isinstance(c.args[0], ast.BinOp) and isinstance(c.args[0].op, ast.Div)
                 for c in ast.walk(e)):
            ctx.bad("R30.3", key, f"`{src(e)}`: int() truncates the float quotient (16.4/0.1 = 163.99999999999997 -> 163): the last node lies one step below xmax", fi, n.ast)
        else:
            ctx.und("R30.3", key, f"`{src(e)}` not recognised", fi, n.ast)


def r30_4(ctx, m):
    """moment conversions are pure functions of their arguments"""
    ctx.rule("R30.4", "lognormal_moments (both APIs) and value_reshaper never modify their arguments in place: no augmented assignment, "
                      "subscript store or out= targets a parameter or a name bound to value_reshaper(parameter), which returns the "
                      "caller's own array when the shape already fits - a second model built from the same arrays would otherwise see "
                      "different numbers", floor=2)
    for modn, fname in ((UT, "lognormal_moments"), (UT, "value_reshaper"), (PR, "lognormal_moments"), ("nifty.re.num.stats_distributions", "lognormal_moments")):
        fi = m.func(modn, fname, required=False)
        if fi is None:
            continue
        ctx.saw_func(fi)
        tainted = set(fi.params())
        for st in walk_no_nested(fi.node):
            if isinstance(st, ast.Assign) and isinstance(st.value, (ast.GeneratorExp, ast.Tuple, ast.Call)) and "value_reshaper" in src(st.value):
                for t in ast.walk(st.targets[0]):
                    if isinstance(t, ast.Name):
                        tainted.add(t.id)
        bad = []
        for st in walk_no_nested(fi.node):
            if isinstance(st, ast.AugAssign):
                tg = st.target
                base = tg.value if isinstance(tg, ast.Subscript) else tg
                if isinstance(base, ast.Name) and base.id in tainted:
                    bad.append(st)
            elif isinstance(st, ast.Assign) and isinstance(st.targets[0], ast.Subscript) and isinstance(st.targets[0].value, ast.Name) and st.targets[0].value.id in tainted:
                bad.append(st)
            elif isinstance(st, ast.Call) and any(k.arg == "out" and isinstance(k.value, ast.Name) and k.value.id in tainted for k in st.keywords):
                bad.append(st)
        ctx.check("R30.4", f"{fi.key}::arguments are not modified in place", not bad,
                  f"`{src(bad[0])}` writes into an array the caller still owns" if bad else None, fi, bad[0] if bad else None)


_run_c30c = run


def run(ctx):  # noqa: F811
    _run_c30c(ctx)
    r30_3(ctx, ctx.model)
    r30_4(ctx, ctx.model)


# ---------------------------------------------------------------------------------------------------------------- R30.5 - R30.7
_STABLE_SELFTEST = '''
def f(m, s):
    a = log(1.0 + (s / m) ** 2)
    b = np.exp(a) - 1
    c = jnp.log(s**2 / m**2 + 1)
    return a, b, c
'''


def unstable_forms(fn):
    """log(1 + x) and exp(x) - 1 spelled out (lose x below machine epsilon; log1p / expm1 do not)"""
    out = []
    for z in ast.walk(fn):
        if isinstance(z, ast.Call) and call_name(z) == "log" and len(z.args) == 1 and isinstance(z.args[0], ast.BinOp) and isinstance(z.args[0].op, ast.Add):
            a, b = z.args[0].left, z.args[0].right
            if any(isinstance(q, ast.Constant) and q.value in (1, 1.0) for q in (a, b)):
                out.append((z, "log(1 + x)", "log1p"))
        if isinstance(z, ast.BinOp) and isinstance(z.op, ast.Sub) and isinstance(z.right, ast.Constant) and z.right.value in (1, 1.0) \
                and isinstance(z.left, ast.Call) and call_name(z.left) == "exp":
            out.append((z, "exp(x) - 1", "expm1"))
    return out


def r30_5(ctx, m):
    R = "R30.5"
    ctx.rule(R, "moment matching and closed-form transforms over the whole supported parameter range: no log(1 + x) or exp(x) - 1 "
                "spelled out in the prior-transform modules (log1p / expm1 keep x below machine epsilon - a tight log-normal prior "
                "with std/mean < sqrt(eps) otherwise gets log-std 0 and a constant transform)", floor=4)
    t = ast.parse(_STABLE_SELFTEST)
    if len(unstable_forms(t)) != 3:
        from ..model import AnalysisError
        raise AnalysisError("R30.5: self-test of the unstable-form matcher failed")
    for mn, names in ((SD, None), ("nifty.cl.utilities", {"lognormal_moments", "value_reshaper"}), (SPD, None), ("nifty.cl.operators.normal_operators", None)):
        mod = m.module(mn, required=False)
        if mod is None:
            continue
        for fi in mod.all_functions:
            if names is not None and fi.name not in names:
                continue
            if not any(isinstance(z, ast.Call) and call_name(z) in ("log", "log1p", "exp", "expm1", "sqrt") for z in walk_no_nested(fi.node)):
                continue
            ctx.saw_func(fi)
            bad = [(z, a, b) for z, a, b in unstable_forms(fi.node) if any(q is z for q in walk_no_nested(fi.node))]
            ctx.check(R, f"{fi.key}::no cancellation-prone log(1+x) / exp(x)-1", not bad,
                      "; ".join(f"`{short(z, 50)}` is {a}: use {b}" for z, a, b in bad) if bad else "", fi, bad[0][0] if bad else None)


def r30_6(ctx, m):
    R = "R30.6"
    ctx.rule(R, "value_reshaper (parameters of NormalTransform / LognormalTransform): the documented case table is complete - scalars AND "
                "arrays of length one fill the target, arrays of shape (N,) pass; the fill branch must admit shape (1,)", floor=1)
    fi = m.func("nifty.cl.utilities", "value_reshaper", required=False)
    if fi is None:
        ctx.und(R, "nifty.cl.utilities::value_reshaper", "function missing", "nifty/cl/utilities.py")
        return
    ctx.saw_func(fi)
    key = f"{fi.key}::length-one arrays take the fill branch"
    fills = [st for st in walk_no_nested(fi.node) if isinstance(st, ast.If) and any(isinstance(z, ast.Call) and call_name(z) == "full" for b in st.body for z in ast.walk(b))]
    if len(fills) != 1:
        ctx.und(R, key, f"{len(fills)} fill branches", fi)
        return
    t = src(fills[0].test).replace(" ", "")
    covers = "(1,)" in t or "size==1" in t or "size<=1" in t or "size<2" in t
    only_scalar = ("ndim==0" in t or "shape==()" in t) and not covers
    ctx.check(R, key, True if covers else (False if only_scalar else None), f"fill branch under `{src(fills[0].test)}`", fi, fills[0])


def r30_7(ctx, m):
    R = "R30.7"
    ctx.rule(R, "provided inverses are injective where the transform is: inverse() / *_invprior apply no clamp (clip, minimum, maximum, "
                "nan_to_num) to their argument - a clamp maps every tail value onto the clamp's quantile, so inverse(transform(x)) != x "
                "for |x| beyond it", floor=2)
    mods = [(SPD, lambda fi: fi.name == "inverse"), (SD, lambda fi: "invprior" in fi.name or fi.name.endswith("_to_standard"))]
    n = 0
    for mn, sel in mods:
        mod = m.module(mn, required=False)
        if mod is None:
            continue
        for fi in mod.all_functions:
            if not sel(fi):
                continue
            n += 1
            ctx.saw_func(fi)
            bad = [z for z in ast.walk(fi.node) if isinstance(z, ast.Call) and call_name(z) in ("clip", "minimum", "maximum", "nan_to_num", "fmin", "fmax")]
            ctx.check(R, f"{fi.key}::no clamp on the way back", not bad, f"`{short(bad[0], 60)}`" if bad else "", fi, bad[0] if bad else None)
    if not n:
        ctx.und(R, "inverse transforms", "none found", SPD)


_run_c30d = run


def run(ctx):  # noqa: F811
    _run_c30d(ctx)
    r30_5(ctx, ctx.model)
    r30_6(ctx, ctx.model)
    r30_7(ctx, ctx.model)


# ---------------------------------------------------------------------------------------------------------------- R30.8
def r30_8(ctx, m):
    R = "R30.8"
    ctx.rule(R, "tabulated transforms kept in log space (interpolator(..., table_func=log)): the tabulated function is positive for "
                "every admissible parameter - a location shift (`loc=`) is applied outside the table, never inside the quantile "
                "function whose logarithm is stored (for loc < 0 the shifted quantiles are negative and the table is NaN)", floor=2)
    sd = m.module(SD)
    n = 0
    for fi in sd.all_functions:
        if fi.parent is not None:
            continue
        for c in walk_no_nested(fi.node):
            if not (isinstance(c, ast.Call) and call_name(c) == "interpolator"):
                continue
            tf = next((k.value for k in c.keywords if k.arg == "table_func"), None)
            if tf is None or not src(tf).endswith("log"):
                continue
            n += 1
            ctx.saw_func(fi)
            f0 = c.args[0] if c.args else None
            lams = [f0] if isinstance(f0, ast.Lambda) else []
            if isinstance(f0, ast.Name):
                lams = [st.value for st in ast.walk(fi.node) if isinstance(st, ast.Assign) and src(st.targets[0]) == f0.id and isinstance(st.value, ast.Lambda)]
            key = f"{fi.key}::log-space table holds unshifted (positive) quantiles"
            if not lams:
                ctx.und(R, key, f"tabulated function `{src(f0) if f0 is not None else None}` not resolved", fi, c)
                continue
            shifted = [src(l.body) for l in lams if any(isinstance(z, ast.keyword) and z.arg == "loc" for z in ast.walk(l.body))]
            ctx.check(R, key, not shifted, f"`{shifted[0][:80]}` carries the shift into the logarithm" if shifted else "", fi, c)
    if not n:
        ctx.und(R, f"{SD}::log-space tables", "none found", sd.relpath)


_run_c30e = run


def run(ctx):  # noqa: F811
    _run_c30e(ctx)
    r30_8(ctx, ctx.model)


# ---------------------------------------------------------------------------------------------------------------- R30.9
def r30_9(ctx, m):
    R = "R30.9"
    ctx.rule(R, "NormalTransform / LognormalTransform: mean and sigma reach the operator arithmetic through value_reshaper (or "
                "lognormal_moments, which calls it) in EVERY branch on N_copies - the scalar-target branch included - so that scalars "
                "and length-one arrays are accepted alike by both transforms (sibling agreement)", floor=2)
    mod = m.module("nifty.cl.operators.normal_operators", required=False)
    if mod is None:
        ctx.und(R, "nifty.cl.operators.normal_operators", "module missing", "nifty/cl/operators/normal_operators.py")
        return
    for name in ("NormalTransform", "LognormalTransform"):
        fi = mod.functions.get(name)
        if fi is None:
            ctx.und(R, f"{mod.relpath}::{name}", "function missing", mod.relpath)
            continue
        ctx.saw_func(fi)
        pm, ps = fi.params()[:2]
        # every assignment that re-binds mean / sigma must go through one of the reshaping helpers
        bad = []
        for st in walk_no_nested(fi.node):
            if isinstance(st, ast.Assign) and any(isinstance(z, ast.Name) and z.id in (pm, ps) and isinstance(z.ctx, ast.Store) for t in st.targets for z in ast.walk(t)):
                if not any(isinstance(c, ast.Call) and call_name(c) in ("value_reshaper", "lognormal_moments") for c in ast.walk(st.value)):
                    bad.append(st)
        rebinds = [st for st in walk_no_nested(fi.node) if isinstance(st, ast.Assign) and any(isinstance(z, ast.Name) and z.id in (pm, ps) and isinstance(z.ctx, ast.Store)
                                                                                                for t in st.targets for z in ast.walk(t))]
        deleg = any(isinstance(c, ast.Call) and call_name(c) in ("value_reshaper", "lognormal_moments") and
                    {src(a) for a in c.args} >= {pm, ps} for c in ast.walk(fi.node))
        ctx.check(R, f"{fi.key}::parameters pass value_reshaper in every branch", (not bad) if (rebinds or deleg) else None,
                  f"`{short(bad[0], 70)}` bypasses the reshaping helper" if bad else "", fi, bad[0] if bad else None)


_run_c30f = run


def run(ctx):  # noqa: F811
    _run_c30f(ctx)
    r30_9(ctx, ctx.model)
