"""C31 (clause) - nesting geometry of consecutive multi-grid levels, per dimension and on terms.

The index maps of GridAtLevel / OpenGridAtLevel are affine integer maps per dimension; the level recurrences of Grid.at /
OpenGrid.at are products.  Both are read into sympy terms (broadcast subscripts stripped) and the nesting identities are decided
symbolically:  parent(children(i)) = i,  children tile the next level / the parent's cell,  coord2index(index2coord(i)) = i,
children volumes add up to the parent's.  For the flat grid only the delegation structure is decided.
Not decided: HEALPix / logarithmic grids, neighbourhood wrapping, the mixed-radix flat index arithmetic, out-of-range handling.
"""
import ast

from ..model import src, short, walk_no_nested, call_name
from .c03 import _load_sympy

GR = "nifty.re.multi_grid.grid"


class NotUnderstood(Exception):
    pass


def _is_bcast_slice(sl):
    """(slice(None),) + (np.newaxis,) * k  and friends: pure broadcasting subscripts"""
    t = src(sl).replace(" ", "")
    import re
    t2 = re.sub(r"slice\(None\)|np\.newaxis|jnp\.newaxis|None|\w+\.ndim|[0-9]+|[(),+*\-]", "", t)
    return t2 == "" or isinstance(sl, ast.Name)


class DimReader:
    """per-dimension scalar reading of the grid methods"""

    def __init__(self, sp, attrs, env=None):
        self.sp = sp
        self.attrs = attrs      # 'self.shape' -> symbol
        self.env = dict(env or {})
        self.offset = None      # symbol for the np.mgrid child offset

    def ev(self, e):
        sp = self.sp
        if isinstance(e, ast.Constant) and isinstance(e.value, (int, float)) and not isinstance(e.value, bool):
            return sp.nsimplify(e.value)
        if isinstance(e, ast.Name):
            if e.id in self.env:
                return self.env[e.id]
            raise NotUnderstood(f"name {e.id}")
        if isinstance(e, ast.Attribute):
            t = src(e)
            if t in self.attrs:
                return self.attrs[t]
            raise NotUnderstood(t)
        if isinstance(e, ast.Subscript):
            if _is_bcast_slice(e.slice):
                return self.ev(e.value)
            raise NotUnderstood(src(e))
        if isinstance(e, ast.UnaryOp) and isinstance(e.op, ast.USub):
            return -self.ev(e.operand)
        if isinstance(e, ast.BinOp):
            a, b = self.ev(e.left), self.ev(e.right)
            if isinstance(e.op, ast.Add):
                return a + b
            if isinstance(e.op, ast.Sub):
                return a - b
            if isinstance(e.op, ast.Mult):
                return a * b
            if isinstance(e.op, ast.Div):
                return a / b
            if isinstance(e.op, ast.FloorDiv):
                return sp.floor(a / b)
            raise NotUnderstood(src(e))
        if isinstance(e, ast.Call):
            nm = call_name(e)
            if nm == "_parse_index" and len(e.args) == 1:
                return self.ev(e.args[0])            # in-range index
            if nm == "clip" and isinstance(e.func, ast.Attribute) and len(e.args) == 2:
                return self.ev(e.func.value)          # refined (in-range) index: clipping is the identity
            if nm == "astype" and isinstance(e.func, ast.Attribute):
                return self.ev(e.func.value)
            if nm in ("rint",) and len(e.args) == 1:
                return sp.Function("rint")(self.ev(e.args[0]))
            if nm in ("floor",) and len(e.args) == 1:
                return sp.floor(self.ev(e.args[0]))
            if nm in ("asarray", "array") and e.args:
                return self.ev(e.args[0])
            if nm == "children" and isinstance(e.func, ast.Attribute) and isinstance(e.func.value, ast.Call) and call_name(e.func.value) == "super":
                raise NotUnderstood("super().children")  # resolved by the caller
            raise NotUnderstood(src(e))
        raise NotUnderstood(src(e))

    def run(self, fn_node, want):
        """executes the straight-line body; `want` = name of statement kind to return: the returned expression"""
        for st in fn_node.body:
            if isinstance(st, ast.Expr):
                continue
            if isinstance(st, ast.If):
                if all(isinstance(x, ast.Raise) for x in st.body) and not st.orelse:
                    continue
                # dtype dispatch of coord2index: take the integer branch
                if "issubdtype" in src(st.test):
                    live = st.orelse if all(isinstance(x, ast.Raise) for x in st.body) else st.body
                    r = self.run(ast.FunctionDef(name="b", args=fn_node.args, body=live, decorator_list=[]), want)
                    return r
                raise NotUnderstood(f"branch {src(st.test)}")
            if isinstance(st, ast.Assign) and len(st.targets) == 1 and isinstance(st.targets[0], ast.Name):
                t = st.targets[0].id
                v = st.value
                # broadcasting helper tuples
                if isinstance(v, (ast.Tuple,)) or (isinstance(v, ast.BinOp) and _is_bcast_slice(v)):
                    self.env[t] = None
                    continue
                if isinstance(v, ast.Call) and isinstance(v.func, ast.Attribute) and call_name(v) == "astype" and isinstance(v.func.value, ast.Subscript) \
                        and "mgrid" in src(v.func.value):
                    self.env[t] = self.offset
                    continue
                if isinstance(v, ast.Subscript) and "mgrid" in src(v):
                    self.env[t] = self.offset
                    continue
                self.env[t] = self.ev(v)
                continue
            if isinstance(st, ast.Return):
                return self.ev(st.value)
            raise NotUnderstood(f"statement `{short(st)}`")
        raise NotUnderstood("no return")


def run(ctx):
    m = ctx.model
    sp = _load_sympy()
    ctx.rule("R31.1", "periodic grid (per dimension): children(i) = i*split + c with c in [0, split), parent(j) = j // parent_split, the "
                      "parent split of level l+1 is the split of level l and shape(l+1) = shape(l)*split(l): so parent(children(i)) = i "
                      "and the children of all indices tile level l+1; coord2index(index2coord(i)) = i; a child's centre lies in its "
                      "parent's cell; split children volumes add up to the parent's volume", floor=7)
    ctx.rule("R31.2", "open grid (per dimension): children(i) = (i - padding)*split + c, parent(j) = j // parent_split + parent_padding, "
                      "shape(l+1) = split*(shape - 2*padding), shifts(l+1) = split*(shifts + padding): parent(children(i)) = i for refined "
                      "i, the children of the refined block tile level l+1, coordinates of a child lie in the parent's cell (common "
                      "extent shape + 2*shifts), index/coordinate maps round-trip, volumes add up", floor=7)
    ctx.rule("R31.3", "flat grid: every index map converts flat -> tuple index, delegates to the wrapped grid and converts back with the "
                      "level shift of the result (children +1, parent -1, same level 0); serial weights are the row-major strides", floor=5)
    if sp is None:
        ctx.error("sympy not importable: C31 cannot be decided")
        return
    G = m.cls(GR, "GridAtLevel")
    OG = m.cls(GR, "OpenGridAtLevel")
    Gr = m.cls(GR, "Grid")
    OGr = m.cls(GR, "OpenGrid")
    FG = m.cls(GR, "FlatGridAtLevel")
    for c in (G, OG, Gr, OGr, FG):
        ctx.saw_class(c)
    i = sp.Symbol("i", integer=True)
    c_ = sp.Symbol("c", integer=True, nonnegative=True)
    S, F, PF = sp.Symbol("S", integer=True, positive=True), sp.Symbol("F", integer=True, positive=True), sp.Symbol("PF", integer=True, positive=True)
    P, PP, H = sp.Symbol("P", integer=True, nonnegative=True), sp.Symbol("PP", integer=True, nonnegative=True), sp.Symbol("H", integer=True, nonnegative=True)
    rint = sp.Function("rint")

    def floor_rule(e, split):
        """floor(k + c/split) -> k for integer k and 0 <= c < split;  rint(k) -> k"""
        e = sp.simplify(e)
        e = e.replace(lambda t: t.func == sp.floor, lambda t: _floor_simpl(sp, t, c_, split))
        e = e.replace(lambda t: t.func == rint and sp.simplify(t.args[0]).is_integer, lambda t: sp.simplify(t.args[0]))
        return sp.simplify(e)

    def method_term(cls, name, attrs, env, offset=None):
        fi = cls.methods.get(name)
        if fi is None:
            raise NotUnderstood(f"{cls.name}.{name} missing")
        ctx.saw_func(fi)
        rd = DimReader(sp, attrs, env)
        rd.offset = offset
        return rd.run(fi.node, None), fi

    def decide(rule, key, fn, where):
        try:
            v, det = fn()
        except NotUnderstood as exc:
            ctx.und(rule, key, f"term not understood: {exc}", where)
            return
        ctx.check(rule, key, v, det, where)

    # ---------------------------------------------------------------- level recurrences
    def recurrence(cls, names):
        """Grid.at / OpenGrid.at: returns dict of keyword -> source text, and the loop recurrences"""
        at = cls.methods["at"]
        ctx.saw_func(at)
        calls = [c for c in ast.walk(at.node) if isinstance(c, ast.Call) and src(c.func) == "self.atLevel"]
        if len(calls) != 1:
            raise NotUnderstood("self.atLevel(...) call not found")
        kw = {k.arg: src(k.value).replace(" ", "") for k in calls[0].keywords}
        return at, kw
    lv = None

    def periodic_levels():
        at, kw = recurrence(Gr, None)
        lvn = at.params()[1]
        shp = kw.get("shape", "")
        fname = shp[len("self.shape0*"):] if shp.startswith("self.shape0*") else (shp[:-len("*self.shape0")] if shp.endswith("*self.shape0") else None)
        ok = kw.get("splits", "").startswith(f"self.splits[{lvn}]") and kw.get("parent_splits", "").startswith(f"self.splits[{lvn}-1]") and bool(fname)
        fct = [st for st in ast.walk(at.node) if isinstance(st, ast.Assign) and src(st.targets[0]) == fname and "reduce" in src(st.value)]
        strip = lambda z: z.replace(" ", "").replace("(", "").replace(")", "")  # noqa: E731
        ok = ok and len(fct) == 1 and strip(src(fct[0].value)) == strip(f"np.array([reduce(operator.mul,si)forsiinzip(*self.splits[:{lvn}])])")
        return ok, str(kw)
    decide("R31.1", f"{Gr.key}.at::split(l) is the parent split of l+1 and shape(l) = shape0 * prod(splits[:l])", periodic_levels, Gr.methods["at"])
    attrsG = {"self.shape": S, "self.splits": F, "self.parent_splits": PF}

    def per_parent_children():
        ch, fi = method_term(G, "children", attrsG, {"index": i}, offset=c_)
        # next level: parent split = this level's split
        F2 = sp.Symbol("Fnext", integer=True, positive=True)
        pa, _ = method_term(G, "parent", {"self.shape": S * F, "self.parent_splits": F, "self.splits": F2}, {"index": ch})
        r = floor_rule(pa, F)
        ok = sp.simplify(ch - (i * F + c_)) == 0 and r == i
        return bool(ok), f"children = {ch}; parent(children) = {r}"
    decide("R31.1", f"{G.key}::parent(children(i)) = i and children(i) = i*split + c", per_parent_children, G.methods["children"])

    def per_tiling():
        ch, fi = method_term(G, "children", attrsG, {"index": i}, offset=c_)
        lo = ch.subs({i: 0, c_: 0})
        hi = ch.subs({i: S - 1, c_: F - 1})
        step = sp.simplify(ch.subs(i, i + 1).subs(c_, 0) - ch.subs(c_, F - 1))
        return bool(lo == 0 and sp.simplify(hi - (S * F - 1)) == 0 and step == 1), f"first {lo}, last {sp.simplify(hi)}, gap between blocks {step}"
    decide("R31.1", f"{G.key}::children of consecutive indices are consecutive blocks covering [0, shape*split)", per_tiling, G.methods["children"])

    def per_coord_roundtrip():
        co, _ = method_term(G, "index2coord", attrsG, {"index": i})
        ix, _ = method_term(G, "coord2index", attrsG, {"coord": co})
        r = floor_rule(ix, F)
        return bool(r == i), f"index2coord = {co}; coord2index(index2coord(i)) = {r}"
    decide("R31.1", f"{G.key}::coord2index(index2coord(i)) = i", per_coord_roundtrip, G.methods["coord2index"])

    def per_child_in_cell():
        co_p, _ = method_term(G, "index2coord", attrsG, {"index": i})
        ch, _ = method_term(G, "children", attrsG, {"index": i}, offset=c_)
        co_c, _ = method_term(G, "index2coord", {"self.shape": S * F}, {"index": ch})
        left = sp.simplify(co_c - (co_p - sp.Rational(1, 2) / S))     # distance from the parent's left edge
        want = (c_ + sp.Rational(1, 2)) / (S * F)
        return bool(sp.simplify(left - want) == 0), f"child centre - parent left edge = {left}"
    decide("R31.1", f"{G.key}::a child's centre is at (c + 1/2)/split of its parent's cell", per_child_in_cell, G.methods["index2coord"])

    def per_volume():
        fi = G.methods["index2volume"]
        ctx.saw_func(fi)
        rr = [r for r in walk_no_nested(fi.node) if isinstance(r, ast.Return)]
        t = src(rr[0].value).replace(" ", "") if rr else ""
        ok = t.startswith("np.array(1.0/self.size)") or t.startswith("np.array(1/self.size)")
        sz = G.methods.get("size")
        t2 = src([r for r in walk_no_nested(sz.node) if isinstance(r, ast.Return)][0].value).replace(" ", "") if sz else ""
        ok = ok and t2 == "reduce(operator.mul,self.shape,1)"
        return ok, f"volume {t}; size {t2}"
    decide("R31.1", f"{G.key}::cell volume = 1/prod(shape), so split children add up to the parent's volume", per_volume, G.methods["index2volume"])

    def per_neigh():
        fi = G.methods["neighborhood"]
        ctx.saw_func(fi)
        ws = fi.params()[2]
        cen = [st for st in walk_no_nested(fi.node) if isinstance(st, ast.AugAssign) and isinstance(st.op, ast.Sub) and src(st.value).replace(" ", "").startswith(f"({ws}//2)[")]
        grid = [st for st in walk_no_nested(fi.node) if isinstance(st, ast.Assign) and "mgrid" in src(st.value)]
        wrap = [x for x in ast.walk(fi.node) if isinstance(x, ast.BinOp) and isinstance(x.op, ast.Mod) and src(x.right).replace(" ", "").startswith("self.shape[")]
        ok = len(cen) == 1 and len(grid) == 1 and src(cen[0].target) == src(grid[0].targets[0]) and len(wrap) == 1 and src(grid[0].targets[0]) in src(wrap[0].left)
        return ok, None
    decide("R31.1", f"{G.key}::neighbourhood is centred (offsets - window//2) and wraps modulo the shape", per_neigh, G.methods["neighborhood"])
    # ---------------------------------------------------------------- open grid
    def open_levels():
        at, kw = recurrence(OGr, None)
        lvn = at.params()[1]
        A, B = kw.get("shape", ""), kw.get("shifts", "")
        ok = kw.get("splits", "").startswith(f"self.splits[{lvn}]") and kw.get("parent_splits", "").startswith(f"self.splits[{lvn}-1]") and \
            kw.get("padding", "").startswith(f"self.padding[{lvn}]") and kw.get("parent_padding", "").startswith(f"self.padding[{lvn}-1]") and \
            A.isidentifier() and B.isidentifier() and A != B
        loops = [st for st in walk_no_nested(at.node) if isinstance(st, ast.For)]
        rec = {}
        if len(loops) == 1:
            tg = [src(x) for x in loops[0].target.elts] if isinstance(loops[0].target, ast.Tuple) else []
            it = src(loops[0].iter).replace(" ", "")
            ok = ok and it == f"zip(self.splits[:{lvn}],self.padding[:{lvn}])" and len(tg) == 2
            rdr = DimReader(sp, {}, {tg[0]: F, tg[1]: P, A: S, B: H}) if len(tg) == 2 else None
            for st in loops[0].body:
                if isinstance(st, ast.Assign) and rdr is not None:
                    rec[src(st.targets[0])] = rdr.ev(st.value)
        ok = ok and sp.simplify(rec.get(A, 0) - F * (S - 2 * P)) == 0 and sp.simplify(rec.get(B, 0) - F * (H + P)) == 0
        init = {src(st.targets[0]): src(st.value).replace(" ", "") for st in at.node.body if isinstance(st, ast.Assign) and src(st.targets[0]) in (A, B)}
        ok = ok and init.get(A) == "self.shape0" and init.get(B) == f"np.zeros_like({A})"
        return bool(ok), f"{kw}; recurrences {rec}"
    decide("R31.2", f"{OGr.key}.at::shape(l+1) = split*(shape - 2*padding), shifts(l+1) = split*(shifts + padding), paddings/splits handed to the right level",
           open_levels, OGr.methods["at"])
    attrsO = {"self.shape": S, "self.splits": F, "self.parent_splits": PF, "self.padding": P, "self.parent_padding": PP, "self.shifts": H}

    clip_problem = []

    def open_children_term():
        del clip_problem[:]
        fi = OG.methods["children"]
        ctx.saw_func(fi)
        rdr = DimReader(sp, attrsO, {"index": i})
        arg = None
        for st in fi.node.body:
            if isinstance(st, ast.Assign) and isinstance(st.targets[0], ast.Name):
                rdr.env[st.targets[0].id] = rdr.ev(st.value)
            if isinstance(st, ast.Return):
                v = st.value
                if isinstance(v, ast.Call) and call_name(v) == "children" and isinstance(v.func, ast.Attribute) and "super()" in src(v.func.value) and len(v.args) == 1:
                    a = v.args[0]
                    # index.clip(lo, hi - 1) - lo : identity on refined indices; check the clip bounds
                    clips = [x for x in ast.walk(a) if isinstance(x, ast.Call) and call_name(x) == "clip"]
                    if len(clips) != 1:
                        raise NotUnderstood("clip of the index not found")
                    lo, hi = rdr.ev(clips[0].args[0]), rdr.ev(clips[0].args[1])
                    if sp.simplify(lo - P) != 0 or sp.simplify(hi - (S - P - 1)) != 0:
                        clip_problem.append(f"clip bounds [{lo}, {sp.simplify(hi)}] are not the refined block [padding, shape - padding - 1]")
                    arg = rdr.ev(a)
        if arg is None:
            raise NotUnderstood("return super().children(...) not found")
        ch, _ = method_term(G, "children", attrsG, {"index": arg}, offset=c_)
        return ch

    def open_parent_children():
        ch = open_children_term()
        # next level: shape' = F*(S-2P); parent split = F; parent padding = P
        F2, P2 = sp.Symbol("Fnext", integer=True, positive=True), sp.Symbol("Pnext", integer=True, nonnegative=True)
        pa, _ = method_term(OG, "parent", {"self.shape": F * (S - 2 * P), "self.parent_splits": F, "self.parent_padding": P, "self.splits": F2,
                                           "self.padding": P2}, {"index": ch})
        r = floor_rule(pa, F)
        ok = sp.simplify(ch - ((i - P) * F + c_)) == 0 and r == i and not clip_problem
        return bool(ok), f"children = {sp.simplify(ch)}; parent(children) = {r}" + ("; " + clip_problem[0] if clip_problem else "")
    decide("R31.2", f"{OG.key}::parent(children(i)) = i and children(i) = (i - padding)*split + c", open_parent_children, OG.methods["children"])

    def open_tiling():
        ch = open_children_term()
        lo = sp.simplify(ch.subs({i: P, c_: 0}))
        hi = sp.simplify(ch.subs({i: S - P - 1, c_: F - 1}))
        return bool(lo == 0 and sp.simplify(hi - (F * (S - 2 * P) - 1)) == 0), f"children of the refined block span [{lo}, {hi}]"
    decide("R31.2", f"{OG.key}::children of the refined block [padding, shape-padding) tile [0, shape(l+1))", open_tiling, OG.methods["children"])

    def open_refined():
        fi = OG.methods["refined_indices"]
        ctx.saw_func(fi)
        strip = lambda z: z.replace(" ", "").replace("(", "").replace(")", "")  # noqa: E731
        t = " ".join(strip(src(st)) for st in fi.node.body)
        ok = strip("tuple(slice(pp,sh-pp)forsh,ppinzip(self.shape,self.padding))") in t
        fi2 = OG.methods["_is_index_refined"]
        t2 = " ".join(strip(src(st)) for st in fi2.node.body)
        ok = ok and any(strip(w_) in t2 for w_ in ("(ii>=pp)*(ii<sh-pp)", "(ii<sh-pp)*(ii>=pp)", "(pp<=ii)*(ii<sh-pp)", "(ii<sh-pp)*(pp<=ii)")) and \
            strip("zip(index,self.padding,self.shape)") in t2
        return ok, None
    decide("R31.2", f"{OG.key}::refined indices are exactly [padding, shape - padding)", open_refined, OG.methods["refined_indices"])

    def open_coord_roundtrip():
        co, _ = method_term(OG, "index2coord", attrsO, {"index": i})
        ix, _ = method_term(OG, "coord2index", attrsO, {"coord": co})
        r = floor_rule(ix, F)
        fwd = sp.simplify(co - (i + H + sp.Rational(1, 2)) / (S + 2 * H)) == 0
        # the shifts are real numbers (derived grids re-base them to fractions): besides the symbolic reduction for integer
        # shifts, exact evaluation at fractional instances
        wit = []
        for hv in (sp.Integer(0), sp.Integer(2), sp.Rational(1, 4), sp.Rational(7, 4)):
            at_ = {k: (hv if v is H else v) for k, v in attrsO.items()}
            co_, _ = method_term(OG, "index2coord", at_, {"index": i})
            ix_, _ = method_term(OG, "coord2index", at_, {"coord": co_})
            rv = floor_rule(ix_, F)
            if sp.simplify(rv - i) != 0:
                wit.append((hv, rv))
        if wit:
            return False, f"index2coord = {co}; round trip = {r}: for shifts = {wit[0][0]} it gives {wit[0][1]} instead of {i}"
        if r == i:
            return bool(fwd), f"index2coord = {co}; round trip = {r} (also for shifts 1/4 and 7/4)"
        raise NotUnderstood(f"round trip {r} not reduced")
    decide("R31.2", f"{OG.key}::index2coord(i) = (i + shifts + 1/2)/(shape + 2*shifts) and coord2index undoes it", open_coord_roundtrip, OG.methods["coord2index"])

    def open_child_in_cell():
        co_p, _ = method_term(OG, "index2coord", attrsO, {"index": i})
        ch = open_children_term()
        nxt = {"self.shape": F * (S - 2 * P), "self.shifts": F * (H + P)}
        co_c, _ = method_term(OG, "index2coord", nxt, {"index": ch})
        width = 1 / (S + 2 * H)
        left = sp.simplify(co_c - (co_p - width / 2))
        want = (c_ + sp.Rational(1, 2)) / F * width
        return bool(sp.simplify(left - want) == 0), f"child centre - parent left edge = {left}"
    decide("R31.2", f"{OG.key}::a child's centre is at (c + 1/2)/split of its parent's cell (both levels span shape + 2*shifts)", open_child_in_cell, OG.methods["index2coord"])

    def open_volume():
        fi = OG.methods["index2volume"]
        ctx.saw_func(fi)
        szd = [st for st in walk_no_nested(fi.node) if isinstance(st, ast.Assign) and src(st.value).replace(" ", "") in ("np.prod(self.shape+2*self.shifts)", "np.prod(self.shape+self.shifts*2)")]
        rr = [r for r in walk_no_nested(fi.node) if isinstance(r, ast.Return)]
        ok = len(szd) == 1 and len(rr) == 1 and src(rr[0].value).replace(" ", "").startswith(f"np.array(1.0/{src(szd[0].targets[0])})")
        # extent of the next level = split * extent of this level
        ext_next = sp.simplify(F * (S - 2 * P) + 2 * F * (H + P))
        ok = ok and sp.simplify(ext_next - F * (S + 2 * H)) == 0
        return bool(ok), f"extent(l+1) = {ext_next}"
    decide("R31.2", f"{OG.key}::cell volume = 1/prod(shape + 2*shifts); the extent grows by exactly the split, so children volumes add up", open_volume, OG.methods["index2volume"])
    # ---------------------------------------------------------------- flat grid delegation
    for name, inner, shift in (("children", "children", "+1"), ("parent", "parent", "-1"), ("neighborhood", "neighborhood", None)):
        fi = FG.methods.get(name)
        if fi is None:
            ctx.und("R31.3", f"{FG.key}.{name}", "missing", FG)
            continue
        ctx.saw_func(fi)
        body = [src(st).replace(" ", "") for st in fi.node.body]
        rr = [r for r in walk_no_nested(fi.node) if isinstance(r, ast.Return)]
        ret = src(rr[0].value).replace(" ", "") if len(rr) == 1 else ""
        ok = any(b == "index=self._parse_index(index)" for b in body) and any(b == "index=self.flatindex2index(index)" for b in body) \
            and any(f"self.grid_at_level.{inner}(index" in b for b in body)
        if shift is None:
            ok = ok and ret.startswith("self.index2flatindex(") and not ret.rstrip(")").endswith(("+1", "-1"))
        else:
            ok = ok and ret.startswith("self.index2flatindex(") and ret.endswith(f",{shift})")
        ctx.check("R31.3", f"{fi.key}::flat -> index, delegate to the wrapped grid's {inner}, back to flat at level shift {shift or 0}", ok, ret, fi)
    ws = FG.methods.get("_weights_serial")
    if ws is not None:
        ctx.saw_func(ws)
        rr = [r for r in walk_no_nested(ws.node) if isinstance(r, ast.Return)]
        t = src(rr[0].value).replace(" ", "") if rr else ""
        sh = [st for st in walk_no_nested(ws.node) if isinstance(st, ast.Assign) and src(st.value).replace(" ", "") == f"self.all_shapes[{ws.params()[1]}-2]"]
        shn = src(sh[0].targets[0]) if len(sh) == 1 else "?"
        ok = t == f"np.cumprod(np.append({shn}[1:],1)[::-1])[::-1]" and len(sh) == 1
        ctx.check("R31.3", f"{ws.key}::serial weights are the row-major strides of the shape at the shifted level", ok, t, ws)
    ini = FG.methods.get("__init__")
    if ini is not None:
        sc = [c for c in ast.walk(ini.node) if isinstance(c, ast.Call) and isinstance(c.func, ast.Attribute) and c.func.attr == "__init__" and "super" in src(c.func.value)]
        kw = {k.arg: src(k.value).replace(" ", "") for k in sc[0].keywords} if len(sc) == 1 else {}
        g = ini.params()[1]
        ok = kw.get("shape", "").startswith(f"np.prod({g}.shape,keepdims=True)") and f"np.prod({g}.splits,keepdims=True)" in kw.get("splits", "") \
            and f"np.prod({g}.parent_splits,keepdims=True)" in kw.get("parent_splits", "")
        ctx.check("R31.3", f"{ini.key}::flat shape / split / parent split are the products over the dimensions of the wrapped grid", ok, str(kw)[:200], ini)


def _floor_simpl(sp, t, c_, split):
    """floor(integer + c/split) with 0 <= c < split  ->  integer"""
    a = sp.expand(t.args[0])
    rest = sp.simplify(a - c_ / split)
    if rest.is_integer:
        return rest
    if sp.simplify(a).is_integer:
        return sp.simplify(a)
    return t


def r31_4(ctx, m):
    """the physical extent used by the scaled open grid is the same expression in all three coordinate maps"""
    from ..terms import canon
    GI = "nifty.re.multi_grid.grid_impl"
    C = m.cls(GI, "SimpleOpenGridAtLevel")
    ctx.rule("R31.4", "SimpleOpenGridAtLevel: index2coord multiplies, coord2index divides and index2volume scales by the SAME extent "
                      "(shape + 2*shifts)*distances, each around the parent class' normalised map", floor=3)
    ctx.saw_class(C)
    ext = {}
    for name, op in (("index2coord", ast.Mult), ("coord2index", ast.Div), ("index2volume", ast.Mult)):
        fi = C.methods.get(name)
        if fi is None:
            ctx.und("R31.4", f"{C.key}.{name}", "missing", C)
            return
        ctx.saw_func(fi)
        sup = any(isinstance(c, ast.Call) and isinstance(c.func, ast.Attribute) and c.func.attr == name and "super()" in src(c.func.value) for c in ast.walk(fi.node))
        cand = [b for b in ast.walk(fi.node) if isinstance(b, ast.BinOp) and isinstance(b.op, op) and
                ("self.distances" in src(b.right)) != ("self.distances" in src(b.left)) and (isinstance(b.op, ast.Mult) or "self.distances" in src(b.right))]
        if name == "index2volume" or not cand:
            cand = cand or [b for b in ast.walk(fi.node) if isinstance(b, ast.BinOp) and isinstance(b.op, op) and "self.distances" in src(b)]
        if len(cand) < 1 or not sup:
            ctx.und("R31.4", f"{fi.key}::extent factor", f"{len(cand)} candidate factors, delegates to super: {sup}", fi)
            return
        f_ = cand[0].right if "self.distances" in src(cand[0].right) else cand[0].left
        # strip broadcasting subscript and np.prod
        while True:
            if isinstance(f_, ast.Subscript):
                f_ = f_.value
            elif isinstance(f_, ast.Call) and call_name(f_) == "prod" and f_.args:
                f_ = f_.args[0]
            else:
                break
        ext[name] = canon(f_, add=True)
    want = canon("(self.shape + 2 * self.shifts) * self.distances", add=True)
    for name, t in ext.items():
        ctx.check("R31.4", f"{C.key}.{name}::extent = (shape + 2*shifts)*distances", t == want,
                  f"uses `{t}`" + ("" if t == want else f": differs from the extent of the sibling maps ({sorted(set(ext.values()) - {t})}), so index -> coordinate -> index does not round-trip on padded levels"),
                  C.methods[name])


_run_c31b = run


def run(ctx):  # noqa: F811
    _run_c31b(ctx)
    r31_4(ctx, ctx.model)


def r31_5(ctx, m):
    """mixed-radix flat index (nest ordering): digits pushed by Horner's scheme are popped in the reverse order"""
    ctx.rule("R31.5", "FlatGridAtLevel, nest ordering: index2flatindex pushes one digit per (level, axis) with Horner's scheme "
                      "(j = j*w + digit; fid = fid*prod(w) + j) walking levels and axes forward; flatindex2index must pop the digits "
                      "with % and // walking BOTH loops in the opposite direction, with the same per-axis radix ww[ax] and the same "
                      "place value wgts[(n+1):, ax].prod() - otherwise the two maps are not inverse to each other for more than one axis", floor=4)
    F = m.cls(GR, "FlatGridAtLevel")
    enc, dec = F.methods.get("index2flatindex"), F.methods.get("flatindex2index")
    if enc is None or dec is None:
        ctx.und("R31.5", f"{F.key}::flat index maps", "methods missing", F)
        return
    ctx.saw_func(enc)
    ctx.saw_func(dec)

    def nest_branch(fi):
        for st in ast.walk(fi.node):
            if isinstance(st, ast.If):
                cur = st
                while True:
                    if "nest" in src(cur.test):
                        return cur.body
                    if len(cur.orelse) == 1 and isinstance(cur.orelse[0], ast.If):
                        cur = cur.orelse[0]
                    else:
                        break
        return None

    def direction(it):
        t = src(it).replace(" ", "")
        if t.startswith("reversed(") or t.endswith("[::-1]"):
            return "backward"
        return "forward"

    def loops(body):
        outer = [st for st in body if isinstance(st, ast.For)]
        if len(outer) != 1:
            return None
        inner = [st for st in outer[0].body if isinstance(st, ast.For)]
        if len(inner) != 1:
            return None
        return outer[0], inner[0]
    be, bd = nest_branch(enc), nest_branch(dec)
    le, ld = (loops(be) if be else None), (loops(bd) if bd else None)
    if le is None or ld is None:
        ctx.und("R31.5", f"{F.key}::nest loops", "two nested loops per map not found", F)
        return
    for (a, b, what) in ((le[0], ld[0], "levels"), (le[1], ld[1], "axes")):
        da, db = direction(a.iter), direction(b.iter)
        ctx.check("R31.5", f"{F.key}::{what}: the decoder walks against the encoder", da != db,
                  f"encoder `for {src(a.target)} in {src(a.iter)}` ({da}), decoder `for {src(b.target)} in {src(b.iter)}` ({db})", dec, b)
    # radix and place value
    te, td = " ".join(src(s_) for s_ in le[1].body).replace(" ", ""), " ".join(src(s_) for s_ in ld[1].body).replace(" ", "")
    ax_e, ax_d = src(le[1].target), src(ld[1].target)
    n_e = [x.id for x in ast.walk(le[0].target) if isinstance(x, ast.Name)]
    n_d = [x.id for x in ast.walk(ld[0].target) if isinstance(x, ast.Name)]
    ww_e, ww_d = (n_e[-1] if n_e else "?"), (n_d[-1] if n_d else "?")
    lv_e, lv_d = (n_e[0] if n_e else "?"), (n_d[0] if n_d else "?")
    rad = f"%{ww_e}[{ax_e}]" in te and f"*={ww_e}[{ax_e}]" in te and f"%{ww_d}[{ax_d}]" in td and f"//={ww_d}[{ax_d}]" in td
    ctx.check("R31.5", f"{F.key}::same radix per axis: push `*= w[ax]; += digit % w[ax]`, pop `digit = j % w[ax]; j //= w[ax]`", True if rad else None, f"{te} | {td}", dec, ld[1])
    pv_e = f"wgts[{lv_e}+1:,{ax_e}].prod()" in te or f"wgts[({lv_e}+1):,{ax_e}].prod()" in te
    pv_d = f"wgts[{lv_d}+1:,{ax_d}].prod()" in td or f"wgts[({lv_d}+1):,{ax_d}].prod()" in td
    ctx.check("R31.5", f"{F.key}::same place value wgts[(level+1):, ax].prod() in both maps", True if (pv_e and pv_d) else None, f"{te} | {td}", dec, ld[1])


def r31_6(ctx, m):
    """neighbourhoods consist of valid pixel indices"""
    ctx.rule("R31.6", "HEALPix level: the 3x3 neighbourhood is built with the neighbour routine that replaces missing neighbours "
                      "(get_all_neighbours_valid); the raw routine, which reports a missing neighbour as -1, is used only inside the "
                      "jhealpix module itself", floor=1)
    for modn in ("nifty.re.multi_grid.grid_impl", GR):
        mod = m.module(modn, required=False)
        if mod is None:
            continue
        for fi in mod.all_functions:
            raw = [c for c in walk_no_nested(fi.node) if isinstance(c, (ast.Attribute, ast.Name)) and
                   (src(c).endswith(".get_all_neighbours") or src(c) == "get_all_neighbours" or src(c).endswith(".neighbors"))]
            ok_ = [c for c in walk_no_nested(fi.node) if isinstance(c, (ast.Attribute, ast.Name)) and src(c).endswith("get_all_neighbours_valid")]
            if raw or ok_:
                ctx.saw_func(fi)
                ctx.check("R31.6", f"{fi.key}::neighbours come from the validating routine", not raw,
                          f"`{src(raw[0])}` may return -1 for the 24 pixels per map without a full set of 8 neighbours" if raw else None, fi, raw[0] if raw else ok_[0])


_run_c31c = run


def run(ctx):  # noqa: F811
    _run_c31c(ctx)
    r31_5(ctx, ctx.model)
    r31_6(ctx, ctx.model)


# ---------------------------------------------------------------------------------------------------------------- R31.7 - R31.9
GIMPL = "nifty.re.multi_grid.grid_impl"
GMOD = "nifty.re.multi_grid.grid"


def r31_7(ctx, m):
    R = "R31.7"
    ctx.rule(R, "parent() and children() of one level agree on the refinement factor: every parent override in the grid classes divides "
                "by the level's own `parent_splits` (or delegates to the base class); a literal factor (>> 2, // 4) is right only for "
                "one admissible split and breaks parent(children(i)) = i for the others", floor=1)
    n = 0
    for mn in (GIMPL, GMOD):
        mod = m.module(mn)
        for c in mod.classes.values():
            fi = c.methods.get("parent")
            if fi is None:
                continue
            n += 1
            ctx.saw_func(fi)
            rets = [r for r in walk_no_nested(fi.node) if isinstance(r, ast.Return) and r.value is not None]
            lit = []
            for r in rets:
                for z in ast.walk(r.value):
                    if isinstance(z, ast.BinOp) and isinstance(z.op, (ast.RShift, ast.FloorDiv, ast.Div)) and isinstance(z.right, ast.Constant) \
                            and isinstance(z.right.value, (int, float)) and z.right.value not in (1,):
                        lit.append(src(z))
            uses = any("parent_splits" in src(z) or "super()" in src(z) or "grid_at_level" in src(z) or "gridAtLevel" in src(z) for z in ast.walk(fi.node) if isinstance(z, (ast.Attribute, ast.Call)))
            uses = uses or any(isinstance(z, ast.Call) and isinstance(z.func, ast.Attribute) and z.func.attr == "parent" for z in ast.walk(fi.node)) \
                or "parent_mapping" in src(fi.node)
            ctx.check(R, f"{fi.key}::refinement factor is the level's parent_splits", False if lit else (True if uses else None),
                      f"literal factor in `{lit[0]}`" if lit else "", fi)
    if not n:
        ctx.und(R, "grid classes::parent", "no parent method found", GIMPL)


def r31_8(ctx, m):
    R = "R31.8"
    ctx.rule(R, "FlatGrid.at: the per-level shapes and splits handed to the flat index arithmetic are READ from the wrapped grid's levels "
                "(`self.grid.at(lvl).shape` / `.splits`), never re-derived by multiplying shapes with splits - open grids shrink by "
                "their padding before they are refined, so a running product gives the wrong strides", floor=1)
    C = m.cls(GMOD, "FlatGrid")
    fi = C.methods.get("at")
    if fi is None:
        ctx.und(R, f"{C.key}::at", "missing", C)
        return
    ctx.saw_func(fi)
    env = {st.targets[0].id: st.value for st in ast.walk(fi.node) if isinstance(st, ast.Assign) and len(st.targets) == 1 and isinstance(st.targets[0], ast.Name)}
    apps = [z for z in ast.walk(fi.node) if isinstance(z, ast.Call) and isinstance(z.func, ast.Attribute) and z.func.attr == "append"
            and isinstance(z.func.value, ast.Name) and z.func.value.id in ("shapes", "splits") and z.args
            and not (isinstance(z.args[0], ast.Constant) and z.args[0].value is None)]
    if not apps:
        ctx.und(R, f"{fi.key}::per-level shapes", "no appends found", fi)
        return
    for a in apps:
        v = a.args[0]
        good = isinstance(v, ast.Attribute) and v.attr in ("shape", "splits") and (
            (isinstance(v.value, ast.Name) and v.value.id in env and "grid.at(" in src(env[v.value.id])) or "grid.at(" in src(v.value))
        ctx.check(R, f"{fi.key}::`{src(a)}` reads the wrapped level", True if good else False,
                  "" if good else f"`{src(v)}` is not an attribute of self.grid.at(level)", fi, a)


def r31_9(ctx, m):
    R = "R31.9"
    ctx.rule(R, "logarithmic grid: the volume of a pixel is the exact difference of the coordinates of its two edges (index +/- 1/2), "
                "so the children of a pixel add up to their parent; the Jacobian form r(i) * dlog r is larger on coarse levels "
                "(convexity of exp): refinement would create volume", floor=1)
    C = m.cls(GIMPL, "LogGridAtLevel", required=False)
    fi = C.methods.get("index2volume") if C is not None else None
    if fi is None:
        ctx.und(R, "LogGridAtLevel.index2volume", "missing", GIMPL)
        return
    ctx.saw_func(fi)
    t = src(fi.node)
    halves = "-0.5" in t.replace(" ", "") and "0.5" in t
    subs = any(isinstance(z, ast.BinOp) and isinstance(z.op, ast.Sub) and isinstance(z.left, ast.Subscript) and isinstance(z.right, ast.Subscript) for z in ast.walk(fi.node))
    jac = any(isinstance(z, ast.BinOp) and isinstance(z.op, ast.Mult) and any(isinstance(q, ast.Call) and call_name(q) == "index2coord" and q.args and isinstance(q.args[0], ast.Name)
              for q in (z.left, z.right)) for z in ast.walk(fi.node))
    ctx.check(R, f"{fi.key}::edge difference", True if (halves and subs and not jac) else (False if jac else None),
              "pixel volume as r(i) times a step (Jacobian approximation)" if jac else "", fi)


_run_c31x = run


def run(ctx):  # noqa: F811
    _run_c31x(ctx)
    r31_7(ctx, ctx.model)
    r31_8(ctx, ctx.model)
    r31_9(ctx, ctx.model)
