"""C32 - leapfrog is a palindromic composition of shears (kick-drift-kick)."""
import ast

from ..consteval import ConstEval, TOP
from ..model import src, short, walk_no_nested, call_name
from ..terms import inline_at
from ..util import cfg_of

MOD = "nifty.re.hmc"


def _names(e):
    return {x.id for x in ast.walk(e) if isinstance(x, ast.Name)}


def _split_update(e):
    """X (+|-) C * F(args)  ->  (base expr, sign, coef expr, call)  or None."""
    if not (isinstance(e, ast.BinOp) and isinstance(e.op, (ast.Add, ast.Sub))):
        return None
    sign = 1 if isinstance(e.op, ast.Add) else -1
    base, term = e.left, e.right
    if isinstance(term, ast.BinOp) and isinstance(term.op, ast.Mult):
        a, b = term.left, term.right
        if isinstance(b, ast.Call):
            return base, sign, a, b
        if isinstance(a, ast.Call):
            return base, sign, b, a
    if isinstance(term, ast.BinOp) and isinstance(term.op, ast.Div) and isinstance(term.left, ast.BinOp) \
            and isinstance(term.left.op, ast.Mult):
        return None
    return None


def _factor(coef, var):
    """coef == k * var ?  -> k (float) or None"""
    try:
        v1 = ConstEval({var: 1.0})
        v2 = ConstEval({var: 3.0})
        import operator
        # allow true division
        class CE(ConstEval):
            def eval(self, n):
                if isinstance(n, ast.BinOp) and isinstance(n.op, ast.Div):
                    return self.eval(n.left) / self.eval(n.right)
                return super().eval(n)
        a = CE({var: 1.0}).eval(coef)
        b = CE({var: 3.0}).eval(coef)
        if abs(b - 3 * a) < 1e-12:
            return float(a)
    except Exception:
        return None
    return None


def run(ctx):
    m = ctx.model
    fi = m.func(MOD, "leapfrog_step")
    ctx.saw_func(fi)
    ctx.rule("R32.1", "leapfrog_step is kick-drift-kick: two momentum updates p' = p - c*gradV(q*) with q* the position "
                      "current at that point and no other momentum dependence, one position update q' = q + 2c*gradK(M^-1, p_half) "
                      "with no other position dependence, equal half steps, returned pair = (new q, second-kick p); "
                      "flip_momentum negates only the momentum", floor=10)
    cfg = cfg_of(fi)
    params = fi.params()
    rd = cfg.reaching_defs(params)
    if len(params) < 5:
        ctx.error("leapfrog_step signature changed")
        return
    gV, gK, eps, Minv, qp = params[:5]
    rets = [n for n in cfg.nodes if n.kind == "stmt" and isinstance(n.ast, ast.Return)]
    K = fi.key
    if len(rets) != 1:
        ctx.und("R32.1", f"{K}::single return", f"{len(rets)} returns", fi)
        return
    r = rets[0]
    # do not inline through the state names: resolve one level at a time
    def definition(name, at):
        defs = rd[at].get(name, frozenset())
        if len(defs) != 1:
            return None, None
        d = next(iter(defs))
        n = cfg.nodes[d]
        if n.kind == "stmt" and isinstance(n.ast, ast.Assign) and len(n.ast.targets) == 1 and isinstance(n.ast.targets[0], ast.Name):
            return n.ast.value, d
        return None, None
    rv = r.ast.value
    at = r.id
    if isinstance(rv, ast.Name):
        rv, at = definition(rv.id, r.id)
    if not (isinstance(rv, ast.Call) and call_name(rv) == "QP"):
        ctx.und("R32.1", f"{K}::returns QP(position=..., momentum=...)", f"returns {src(rv)}", fi)
        return
    kw = {k.arg: k.value for k in rv.keywords}
    if not (isinstance(kw.get("position"), ast.Name) and isinstance(kw.get("momentum"), ast.Name)):
        ctx.und("R32.1", f"{K}::returned components are locals", src(rv), fi)
        return
    q1, p1 = kw["position"].id, kw["momentum"].id
    e_p1, at_p1 = definition(p1, at)
    e_q1, at_q1 = definition(q1, at)
    u2 = _split_update(e_p1) if e_p1 is not None else None
    ud = _split_update(e_q1) if e_q1 is not None else None
    if u2 is None or ud is None:
        ctx.und("R32.1", f"{K}::update shapes", f"momentum: {src(e_p1)}; position: {src(e_q1)}", fi)
        return
    base2, s2, c2, call2 = u2
    based, sd, cd, calld = ud
    # second kick
    ph = base2.id if isinstance(base2, ast.Name) else None
    ctx.check("R32.1", f"{K}::second kick evaluates gradV at the NEW position",
              call_name(call2) == gV and len(call2.args) == 1 and src(call2.args[0]) == q1,
              f"second kick uses `{src(call2)}`, the returned position is `{q1}`", fi, e_p1)
    e_ph, at_ph = definition(ph, at_p1) if ph else (None, None)
    u1 = _split_update(e_ph) if e_ph is not None else None
    if u1 is None:
        ctx.und("R32.1", f"{K}::first kick shape", src(e_ph), fi)
        return
    base1, s1, c1, call1 = u1
    # original position / momentum names
    def resolves_to(e, attr, at_):
        if src(e) == f"{qp}.{attr}":
            return True
        if isinstance(e, ast.Name):
            d, _ = definition(e.id, at_)
            return d is not None and src(d) == f"{qp}.{attr}"
        return False
    ctx.check("R32.1", f"{K}::first kick starts from the incoming momentum and evaluates gradV at the OLD position",
              resolves_to(base1, "momentum", at_ph) and call_name(call1) == gV and len(call1.args) == 1
              and resolves_to(call1.args[0], "position", at_ph),
              f"first kick: {src(e_ph)}", fi, e_ph)
    # drift
    ctx.check("R32.1", f"{K}::drift starts from the old position and uses the HALF-STEP momentum",
              resolves_to(based, "position", at_q1) and call_name(calld) == gK and len(calld.args) == 2
              and src(calld.args[0]) == Minv and src(calld.args[1]) == ph,
              f"drift: {src(e_q1)}; half-step momentum is `{ph}`", fi, e_q1)
    # shears: kick terms do not read momentum, drift term does not read position
    mom_names = {p1, ph} | ({base1.id} if isinstance(base1, ast.Name) else set())
    pos_names = {q1} | ({based.id} if isinstance(based, ast.Name) else set())
    ctx.check("R32.1", f"{K}::kicks are shears (their increment does not depend on the momentum)",
              not ((_names(c1) | _names(call1) | _names(c2) | _names(call2)) & mom_names) and
              f"{qp}.momentum" not in src(call1) + src(call2) + src(c1) + src(c2),
              "a kick whose increment reads the momentum is not volume preserving", fi)
    ctx.check("R32.1", f"{K}::drift is a shear (its increment does not depend on the position)",
              not ((_names(cd) | {x for a in calld.args[1:] for x in _names(a)}) & pos_names)
              and f"{qp}.position" not in src(cd) + src(calld),
              "a drift whose increment reads the position is not volume preserving", fi)
    f1, f2, fd = _factor(c1, eps), _factor(c2, eps), _factor(cd, eps)
    ctx.check("R32.1", f"{K}::equal half steps", (f1 == f2) if None not in (f1, f2) else (True if src(c1) == src(c2) else None),
              f"kick coefficients {src(c1)} and {src(c2)}", fi)
    ctx.check("R32.1", f"{K}::drift step is twice the kick step",
              (abs(fd - 2 * f1) < 1e-12) if None not in (f1, fd) else None, f"kick {src(c1)}, drift {src(cd)}", fi)
    ctx.check("R32.1", f"{K}::signs follow Hamilton's equations (kicks subtract gradV, drift adds gradK)",
              s1 == -1 and s2 == -1 and sd == 1 and (f1 or 1) > 0, f"signs kick1={s1} kick2={s2} drift={sd}", fi)
    # flip_momentum
    fm = m.func(MOD, "flip_momentum")
    ctx.saw_func(fm)
    rr = [n for n in walk_no_nested(fm.node) if isinstance(n, ast.Return)]
    ok_ = False
    if len(rr) == 1 and isinstance(rr[0].value, ast.Call) and call_name(rr[0].value) == "QP":
        kw = {k.arg: src(k.value) for k in rr[0].value.keywords}
        a0 = fm.params()[0]
        ok_ = kw.get("position") == f"{a0}.position" and kw.get("momentum") == f"-{a0}.momentum"
    ctx.check("R32.1", f"{fm.key}::negates the momentum and keeps the position", ok_, None, fm)
    # every integrator user goes through leapfrog_step (who-may-call): stepper bound to it
    users = 0
    for mod in (m.module(MOD), m.module("nifty.re.hmc_oo")):
        for n in ast.walk(mod.tree):
            if isinstance(n, ast.Name) and n.id == "leapfrog_step" and isinstance(n.ctx, ast.Load):
                users += 1
    ctx.check("R32.1", f"{MOD}::samplers use leapfrog_step as their stepper", users >= 1, f"{users} references", fi)


# ---------------------------------------------------------------------------------------------------------------- R32.2-R32.5
OO = "nifty.re.hmc_oo"


def _const(e):
    class CE(ConstEval):
        def eval(self, n):
            if isinstance(n, ast.BinOp) and isinstance(n.op, ast.Div):
                return self.eval(n.left) / self.eval(n.right)
            return super().eval(n)
    try:
        v = CE({}).eval(e)
        return None if v is TOP else v
    except Exception:
        return None


def _is_neg_inf(e):
    return isinstance(e, ast.UnaryOp) and isinstance(e.op, ast.USub) and src(e.operand).split(".")[-1] in ("inf", "infty", "Inf")


from ..poly import poly as _poly_, p_diff as _pdiff, p_str as _pstr  # noqa: E402


def _poly(e, env):
    return _poly_(e, env)


def r32_2(ctx, m):
    """momenta are drawn from N(0, M) for the same M whose inverse defines the kinetic energy and the drift"""
    ctx.rule("R32.2", "mass matrix consistency: the samplers draw momenta with `mass_matrix_sqrt = inverse_mass_matrix ** -1/2` "
                      "(the attribute handed to sample_momentum_from_diagonal), the kinetic energy is vdot(M^-1, p^2/2) and the "
                      "stepper's kinetic gradient M^-1 * p is its derivative; sample_momentum_from_diagonal scales unit normals "
                      "by that square root", floor=5)
    S = m.cls(OO, "_Sampler")
    ini = S.methods["__init__"]
    ctx.saw_func(ini)
    # attribute handed to the momentum sampler
    attrs = set()
    sites = 0
    oo = m.module(OO)
    for c in ast.walk(oo.tree):
        if isinstance(c, ast.Call) and call_name(c) == "sample_momentum_from_diagonal":
            sites += 1
            for k in c.keywords:
                if k.arg == "mass_matrix_sqrt":
                    attrs.add(src(k.value))
    key = f"{OO}::momentum refreshments use one attribute of the sampler"
    if sites < 2 or len(attrs) != 1 or not next(iter(attrs)).startswith("self."):
        ctx.und("R32.2", key, f"{sites} call sites, arguments {sorted(attrs)}", ini)
        return
    ctx.ok("R32.2", key, f"{sites} call sites pass {sorted(attrs)}", ini)
    an = next(iter(attrs))[5:]
    defs = [st for st in walk_no_nested(ini.node) if isinstance(st, ast.Assign) and any(src(t) == f"self.{an}" for t in st.targets)]
    key = f"{ini.key}::momentum scale = (inverse mass) ** -1/2"
    if len(defs) != 1:
        ctx.und("R32.2", key, f"{len(defs)} definitions of self.{an}", ini)
    else:
        v = defs[0].value
        verdict, det = None, src(v)
        if isinstance(v, ast.BinOp) and isinstance(v.op, ast.Pow) and src(v.left) == "self.inverse_mass_matrix":
            ex = _const(v.right)
            if ex is not None:
                verdict = abs(ex + 0.5) < 1e-15
                det = f"exponent {ex}: momenta would be drawn with covariance M^{-2 * ex:g}... the kinetic energy uses M^-1, so the exponent must be -0.5"
        elif isinstance(v, ast.BinOp) and isinstance(v.op, ast.Div) and _const(v.left) == 1 and isinstance(v.right, ast.Call) \
                and call_name(v.right) == "sqrt" and src(v.right.args[0]) == "self.inverse_mass_matrix":
            verdict = True
        ctx.check("R32.2", key, verdict, det, ini, defs[0])
    # kinetic energy and its gradient
    ke = [n for n in ini.node.body if isinstance(n, ast.FunctionDef) and n.name == "kinetic_energy"]
    kg = [st for st in walk_no_nested(ini.node) if isinstance(st, ast.Assign) and isinstance(st.value, ast.Lambda)
          and any(isinstance(t, ast.Name) and "kinetic" in t.id and "grad" in t.id for t in st.targets)]
    key = f"{ini.key}::kinetic gradient is the derivative of the kinetic energy"
    if len(ke) != 1 or len(kg) != 1:
        ctx.und("R32.2", key, f"{len(ke)} kinetic_energy defs, {len(kg)} gradient lambdas", ini)
    else:
        kef, lam = ke[0], kg[0].value
        r = [x for x in walk_no_nested(kef) if isinstance(x, ast.Return)]
        ea, eb = [a.arg for a in kef.args.args][:2]
        la, lb = [a.arg for a in lam.args.args][:2]
        verdict, det = None, None
        if len(r) == 1:
            # scalar model: vdot(a, b) -> a*b ; d/dp
            try:
                K = _poly(r[0].value, {ea: "Mi", eb: "P"})
                G = _poly(lam.body, {la: "Mi", lb: "P"})
                from fractions import Fraction
                verdict = _pdiff(K, "P") == G and K == {(("Mi", 1), ("P", 2)): Fraction(1, 2)}
                det = f"K = {_pstr(K)}, gradient = {_pstr(G)}"
            except KeyError as exc:
                det = f"term not polynomial: {exc}"
        ctx.check("R32.2", key, verdict, det, ini, kg[0])
    # the stepper is leapfrog_step with (potential gradient, kinetic gradient) in this order
    st = [s_ for s_ in walk_no_nested(ini.node) if isinstance(s_, ast.Assign) and any(src(t) == "self.stepper" for t in s_.targets)]
    okk = None
    if len(st) == 1 and isinstance(st[0].value, ast.Call) and call_name(st[0].value) == "partial":
        a = st[0].value.args
        okk = len(a) == 3 and src(a[0]) == "leapfrog_step" and "potential" in src(a[1]) and "kinetic" in src(a[2]) and kg and src(a[2]) == kg[0].targets[0].id
        pg = [s_ for s_ in walk_no_nested(ini.node) if isinstance(s_, ast.Assign) and len(a) == 3 and src(s_.targets[0]) == src(a[1])]
        okk = okk and len(pg) == 1 and src(pg[0].value) == "grad(self.potential_energy)"
    ctx.check("R32.2", f"{ini.key}::stepper = leapfrog_step(grad(potential), kinetic gradient)", okk, None, ini)
    # the momentum sampler scales unit normals
    sm = m.func(MOD, "sample_momentum_from_diagonal")
    ctx.saw_func(sm)
    cfg = cfg_of(sm)
    rd = cfg.reaching_defs(sm.params())
    rets = [n for n in cfg.nodes if n.kind == "stmt" and isinstance(n.ast, ast.Return)]
    key = f"{sm.key}::momentum = sqrt(M) * unit normal, leaf by leaf"
    if len(rets) != 1:
        ctx.und("R32.2", key, f"{len(rets)} returns", sm)
    else:
        e = inline_at(cfg, rd, rets[0].id, rets[0].ast.value, depth=3)
        t = src(e)
        okk = None
        if isinstance(e, ast.Call) and call_name(e) == "tree_map" and len(e.args) == 3 and src(e.args[0]).split(".")[-1] in ("multiply", "mul"):
            ops = [src(a) for a in e.args[1:]]
            nrm = [a for a in e.args[1:] if isinstance(a, ast.Call) and call_name(a) == "random_like"]
            okk = "mass_matrix_sqrt" in ops and len(nrm) == 1 and any(k.arg == "rng" and src(k.value).endswith("random.normal") for k in nrm[0].keywords) \
                and any(k.arg == "primals" and src(k.value) == "mass_matrix_sqrt" for k in nrm[0].keywords)
        ctx.check("R32.2", key, okk, t[:200], sm)


def r32_3(ctx, m):
    """multinomial / biased progressive sampling: the candidate in the TRUE slot of select() is weighted by its own tree"""
    ctx.rule("R32.3", "candidate selection: in merge_trees and add_single_qp_to_tree the Bernoulli probability of the candidate in "
                      "the true slot of select() is expit(w_true - w_false) (unbiased) or min(1, exp(w_true - w_false)) (biased), "
                      "with w the log-weight of the tree each candidate comes from (log-weights are never exponentiated individually); the "
                      "merged log-weight is logaddexp of both", floor=5)
    mt = m.func(MOD, "merge_trees")
    ctx.saw_func(mt)
    bias = mt.params()[4] if len(mt.params()) >= 5 else None
    for val in (True, False):
        sp = Spec(m, None, mt, {bias: val}).run() if bias else None
        key = f"{mt.key}::bias_transition={val}"
        if sp is None:
            ctx.und("R32.3", key, "signature changed", mt)
            continue
        _selection_check(ctx, mt, key, sp_env=sp, biased=val)
    aq = m.func(MOD, "add_single_qp_to_tree")
    ctx.saw_func(aq)
    _selection_check(ctx, aq, f"{aq.key}::single endpoint", sp_env=None, biased=False)
    # merged weight
    for fi in (mt, aq):
        cfg = cfg_of(fi)
        rd = cfg.reaching_defs(fi.params())
        found = []
        for n in cfg.nodes:
            if n.kind == "stmt" and isinstance(n.ast, ast.Return) and n.ast.value is not None:
                e = inline_at(cfg, rd, n.id, n.ast.value, depth=2)
                if isinstance(e, ast.Call) and call_name(e) == "Tree":
                    args = {k.arg: k.value for k in e.keywords}
                    lw = args.get("logweight") or (e.args[2] if len(e.args) > 2 else None)
                    found.append(lw)
        okk = bool(found) and all(isinstance(lw, ast.Call) and call_name(lw) == "logaddexp" and len(lw.args) == 2 for lw in found)
        ctx.check("R32.3", f"{fi.key}::merged log-weight = logaddexp(both log-weights)", okk if found else None,
                  "; ".join(src(lw) for lw in found if lw is not None), fi)


from ..modespec import Spec  # noqa: E402


def _weight_of(slot, fi, cfg, rd, nid):
    """log-weight expression belonging to the candidate expression in a select slot"""
    if isinstance(slot, ast.Attribute) and slot.attr == "proposal_candidate":
        return f"{src(slot.value)}.logweight"
    return None


def _selection_check(ctx, fi, key, sp_env, biased):
    cfg = cfg_of(fi)
    rd = cfg.reaching_defs(fi.params())
    sels = []
    from ..util import find_nodes
    for n, c in find_nodes(cfg, lambda q: isinstance(q, ast.Call) and call_name(q) == "select" and len(q.args) == 3):
        cond = inline_at(cfg, rd, n.id, c.args[0], depth=1)
        if isinstance(cond, ast.Call) and call_name(cond) == "bernoulli" and len(cond.args) >= 2:
            sels.append((n, c, cond))
    if len(sels) != 1:
        ctx.und("R32.3", key, f"{len(sels)} select(bernoulli(...), a, b) sites", fi)
        return
    n, c, cond = sels[0]
    wt, wf = _weight_of(c.args[1], fi, cfg, rd, n.id), _weight_of(c.args[2], fi, cfg, rd, n.id)
    # probability expression: specialised (merge_trees) or inlined
    pname = cond.args[1]
    if sp_env is not None and isinstance(pname, ast.Name):
        cands = [e for e in (sp_env.final_env_values(pname.id) if hasattr(sp_env, "final_env_values") else [])]
    else:
        cands = []
    if not cands:
        # collect the reaching definitions of the probability that are consistent with the mode
        exprs = []
        if isinstance(pname, ast.Name):
            for d in sorted((rd.get(n.id) or {}).get(pname.id, ())):
                dn = cfg.nodes[d]
                if dn.kind == "stmt" and isinstance(dn.ast, ast.Assign):
                    from ..util import known_atoms
                    atoms = known_atoms(cfg, dn.id)
                    pol = [p for t, p in atoms if src(t) == (fi.params()[4] if len(fi.params()) >= 5 else "")]
                    if sp_env is not None and pol and pol[0] != biased:
                        continue
                    exprs.append(dn.ast.value)
        else:
            exprs.append(pname)
        cands = exprs
    if len(cands) != 1:
        ctx.und("R32.3", key, f"{len(cands)} candidate probability expressions", fi)
        return
    p = cands[0]
    # unwrap
    diff = None
    form = None
    if isinstance(p, ast.Call) and call_name(p) == "expit" and len(p.args) == 1:
        diff, form = p.args[0], "expit"
    elif isinstance(p, ast.Call) and call_name(p) == "minimum" and len(p.args) == 2:
        one, ex = p.args
        if _const(one) != 1:
            one, ex = ex, one
        if _const(one) == 1 and isinstance(ex, ast.Call) and call_name(ex) == "exp" and len(ex.args) == 1:
            diff, form = ex.args[0], "min1exp"
    if diff is None:
        # a ratio of individually exponentiated log-weights is the same number on paper but not in floating point
        pin = inline_at(cfg, rd, n.id, p, depth=3)
        bare = [x for x in ast.walk(pin) if isinstance(x, ast.Call) and call_name(x) == "exp" and len(x.args) == 1
                and not (isinstance(x.args[0], ast.BinOp) and isinstance(x.args[0].op, ast.Sub))]
        if bare and any(isinstance(x, ast.BinOp) and isinstance(x.op, ast.Div) for x in ast.walk(pin)):
            ctx.bad("R32.3", key, f"P(true slot) = {src(pin)}: the log-weight `{src(bare[0].args[0])}` is exponentiated on its own; "
                                  "for |log-weight| beyond ~709 the ratio is 0/0 or inf/inf = NaN and bernoulli(NaN) is always False "
                                  "(the weights are only defined up to a common factor, so only exp of a DIFFERENCE is admissible)", fi, c)
            return
    if diff is None or not (isinstance(diff, ast.BinOp) and isinstance(diff.op, ast.Sub)):
        ctx.und("R32.3", key, f"probability `{src(p)}` not of the form expit(a-b) / minimum(1, exp(a-b))", fi)
        return
    a, b = src(diff.left), src(diff.right)
    # a bare endpoint (qp) in a slot: its weight is the logaddexp operand that is not the other slot's weight
    if wt is None or wf is None:
        other = wt or wf
        lae = [x for nn in cfg.nodes if nn.ast is not None and nn.kind == "stmt" for x in ast.walk(nn.ast)
               if isinstance(x, ast.Call) and call_name(x) == "logaddexp" and len(x.args) == 2]
        rest = [src(y) for x in lae for y in x.args if src(y) != other]
        if other is None or len(set(rest)) != 1:
            ctx.und("R32.3", key, "weights of the select slots not identified", fi)
            return
        if wt is None:
            wt = rest[0]
        else:
            wf = rest[0]
    want_form = "min1exp" if biased else "expit"
    good = (a, b) == (wt, wf) and form == want_form
    ctx.check("R32.3", key, good,
              f"P(true slot) = {src(p)}; true slot carries weight {wt}, false slot {wf}"
              + ("" if form == want_form else f"; expected the {'biased min(1, exp(.))' if biased else 'unbiased expit(.)'} form"), fi, c)


def r32_4(ctx, m):
    """PRNG key discipline"""
    from ..util import find_nodes
    ctx.rule("R32.4", "PRNG keys: within a function a key is consumed at most once per binding along every path (split, draw, "
                      "handed to a callee - also inside a tuple - or returned to the caller), and no closure mapped over pytree leaves / loop iterations consumes a captured key "
                      "(every leaf would see the same stream)", floor=12)
    import re
    keyre = re.compile(r"^(sub)?key(s)?(_|$)|_key$")
    mods = [m.module(MOD), m.module(OO), m.module("nifty.re.tree_math.forest_math")]
    for mod in mods:
        fns = [n for n in ast.walk(mod.tree) if isinstance(n, (ast.FunctionDef, ast.Lambda))]
        for fn in fns:
            if isinstance(fn, ast.Lambda):
                continue
            names = set()
            for x in walk_no_nested(fn):
                if isinstance(x, ast.Name) and keyre.search(x.id):
                    names.add(x.id)
            for a in fn.args.args + fn.args.kwonlyargs:
                if keyre.search(a.arg):
                    names.add(a.arg)
            if not names:
                continue
            cfg = _cfg_node(fn)
            params = [a.arg for a in fn.args.posonlyargs + fn.args.args + fn.args.kwonlyargs]
            rd = cfg.reaching_defs(params)
            qn = f"{mod.relpath}::{_qual(mod, fn)}"
            for k in sorted(names):
                uses = []
                for n in cfg.nodes:
                    if n.ast is None or n.kind in ("with_exit",):
                        continue
                    roots = [n.ast] if n.kind in ("stmt", "test") else []
                    for r in roots:
                        cnt = _count_consumes(r, k)
                        if cnt:
                            uses.append((n, cnt))
                if not uses:
                    continue
                bad = None
                for n, cnt in uses:
                    if cnt > 1:
                        bad = (n, n)
                        break
                if bad is None:
                    defnodes = {d for n in cfg.nodes for d in ()}  # placeholder
                    for n1, _ in uses:
                        # nodes reachable after n1 without passing a redefinition of k
                        redef = [x.id for x in cfg.nodes if k in (cfg.node_defs(x) or ())]
                        # n1 itself may rebind k (key, sub = split(key)): then later uses see the new binding
                        if n1.id in redef:
                            continue
                        reach = cfg.reachable_after(n1.id, avoid=redef, include_exc=False)
                        for n2, _ in uses:
                            if n2.id in reach:
                                bad = (n1, n2)
                                break
                        if bad:
                            break
                ctx.check("R32.4", f"{qn}::key `{_role(k)}` is consumed at most once per binding", bad is None,
                          None if bad is None else f"`{short(bad[0].ast)}` and `{short(bad[1].ast)}` consume the same key `{k}`",
                          mod.relpath, bad[1].ast if bad else fn)
        # closures mapped over leaves / iterations
        for c in ast.walk(mod.tree):
            if not (isinstance(c, ast.Call) and call_name(c) in ("tree_map", "vmap", "map", "fori_loop", "while_loop", "scan")):
                continue
            encl = _enclosing_function(mod.tree, c)
            cands = list(c.args) + [k.value for k in c.keywords]
            for a in cands:
                target = None
                if isinstance(a, ast.Lambda):
                    target = a
                elif isinstance(a, ast.Name) and encl is not None:
                    for st in ast.walk(encl):
                        if isinstance(st, ast.FunctionDef) and st.name == a.id and st is not encl:
                            target = st
                if target is None:
                    continue
                own = {x.arg for x in target.args.posonlyargs + target.args.args + target.args.kwonlyargs}
                bound = {x.id for x in ast.walk(target) if isinstance(x, ast.Name) and isinstance(x.ctx, ast.Store)}
                body = target.body if isinstance(target.body, list) else [target.body]
                captured = sorted({x.id for b in body for x in ast.walk(b) if isinstance(x, ast.Name) and isinstance(x.ctx, ast.Load)
                                   and keyre.search(x.id) and x.id not in own and x.id not in bound})
                nm = getattr(target, "name", "<lambda>")
                ctx.check("R32.4", f"{mod.relpath}::{_qual(mod, encl) if encl else '<module>'}::{call_name(c)}({nm}) does not consume a captured key",
                          not captured, f"captures {captured}: every leaf/iteration draws from the same key" if captured else None,
                          mod.relpath, c)


def _role(k):
    return k


_cfgs = {}


def _cfg_node(fn):
    from ..cfg import CFG
    c = _cfgs.get(id(fn))
    if c is None:
        c = _cfgs[id(fn)] = (CFG(fn), fn)
    return c[0]


def _qual(mod, fn):
    # qualified name by nesting
    path = []

    def rec(node, trail):
        for ch in ast.iter_child_nodes(node):
            if ch is fn:
                path.extend(trail + [getattr(fn, "name", "<lambda>")])
                return True
            t2 = trail + [ch.name] if isinstance(ch, (ast.FunctionDef, ast.ClassDef)) else trail
            if rec(ch, t2):
                return True
        return False
    rec(mod.tree, [])
    return ".".join(path) or getattr(fn, "name", "?")


def _enclosing_function(tree, node):
    best = None
    for f in ast.walk(tree):
        if isinstance(f, ast.FunctionDef):
            for x in ast.walk(f):
                if x is node:
                    if best is None or any(y is f for y in ast.walk(best)):
                        best = f
    return best


def _count_consumes(root, k):
    """number of times key name k is passed to a call / stored into a tuple within this statement (isinstance tests and
    PRNGKey(seed) conversions excluded)"""
    cnt = 0
    skip = set()
    for x in ast.walk(root):
        if isinstance(x, (ast.FunctionDef, ast.Lambda)):
            for y in ast.walk(x):
                skip.add(id(y))
        if isinstance(x, ast.Call) and call_name(x) in ("isinstance", "PRNGKey", "type", "repr", "str"):
            for y in ast.walk(x):
                skip.add(id(y))
    for x in ast.walk(root):
        if id(x) in skip:
            continue
        if isinstance(x, ast.Call):
            for a in list(x.args) + [kw.value for kw in x.keywords]:
                cnt += _key_leaves(a, k, skip)
    # a key that leaves the function in its return value is handed to the caller: that is a use of the binding as well
    if isinstance(root, ast.Return) and root.value is not None:
        cnt += _key_leaves(root.value, k, skip)
    return cnt


def _key_leaves(a, k, skip):
    """occurrences of the key name as the argument itself or as a leaf of a tuple/list display"""
    if id(a) in skip:
        return 0
    if isinstance(a, ast.Name):
        return 1 if a.id == k else 0
    if isinstance(a, ast.Starred):
        return _key_leaves(a.value, k, skip)
    if isinstance(a, (ast.Tuple, ast.List)):
        return sum(_key_leaves(e, k, skip) for e in a.elts)
    return 0


def r32_5(ctx, m):
    """Metropolis test of the fixed-length HMC transition"""
    from ..util import find_nodes
    ctx.rule("R32.5", "generate_hmc_acc_rej: the proposal is the momentum-flipped end point of the trajectory; it is accepted with "
                      "probability min(1, exp(H(initial) - H(proposed))); an undefined (NaN) energy difference is mapped to "
                      "rejection (-inf); select() returns (proposed, initial) when accepted and (initial, proposed) otherwise", floor=4)
    fi = m.func(MOD, "generate_hmc_acc_rej")
    ctx.saw_func(fi)
    cfg = cfg_of(fi)
    rd = cfg.reaching_defs(fi.params())
    sels = [(n, c) for n, c in find_nodes(cfg, lambda q: isinstance(q, ast.Call) and call_name(q) == "select" and len(q.args) == 3)]
    key = f"{fi.key}::accept/reject"
    if len(sels) != 1:
        ctx.und("R32.5", key, f"{len(sels)} select sites", fi)
        return
    n, c = sels[0]
    t, f = c.args[1], c.args[2]
    if not (isinstance(t, ast.Tuple) and isinstance(f, ast.Tuple) and len(t.elts) == 2 and len(f.elts) == 2):
        ctx.und("R32.5", key, "select slots are not pairs", fi)
        return
    prop, init = src(t.elts[0]), src(t.elts[1])
    ctx.check("R32.5", f"{fi.key}::slots are (proposed, initial) when accepted and (initial, proposed) otherwise",
              [src(x) for x in f.elts] == [init, prop] and prop != init, f"true {src(t)}, false {src(f)}", fi, c)
    # which is the initial state: the parameter
    params = fi.params()
    ctx.check("R32.5", f"{fi.key}::the fallback of a rejected move is the incoming state", init in params, f"`{init}`", fi, c)
    pe = inline_at(cfg, rd, n.id, ast.Name(id=prop, ctx=ast.Load()), depth=1)
    ctx.check("R32.5", f"{fi.key}::the proposal is the momentum-flipped trajectory end",
              isinstance(pe, ast.Call) and call_name(pe) == "flip_momentum", src(pe), fi)
    cond = inline_at(cfg, rd, n.id, c.args[0], depth=1)
    if not (isinstance(cond, ast.Call) and call_name(cond) == "bernoulli" and len(cond.args) >= 2):
        ctx.und("R32.5", key, f"acceptance `{src(cond)}` is not a Bernoulli draw", fi)
        return
    pnode = n
    p = inline_at(cfg, rd, n.id, cond.args[1], depth=1)
    diffname = None
    if isinstance(p, ast.Call) and call_name(p) == "minimum" and len(p.args) == 2:
        one, ex = p.args
        if _const(one) != 1:
            one, ex = ex, one
        if _const(one) == 1 and isinstance(ex, ast.Call) and call_name(ex) == "exp" and len(ex.args) == 1:
            diffname = ex.args[0]
    if diffname is None:
        ctx.und("R32.5", key, f"probability `{src(p)}` is not minimum(1, exp(.))", fi)
        return
    # chase the definitions of the difference: [where(isnan(d), C, d)]* ; d = H(init) - H(prop)
    guard_consts = []
    e = diffname
    at = None
    for dn in cfg.nodes:
        if dn.kind == "stmt" and isinstance(dn.ast, ast.Assign) and isinstance(dn.ast.targets[0], ast.Name) and isinstance(diffname, ast.Name) \
                and dn.ast.targets[0].id == diffname.id:
            v = dn.ast.value
            if isinstance(v, ast.Call) and call_name(v) == "where" and len(v.args) == 3 and "isnan" in src(v.args[0]):
                guard_consts.append((v.args[1], dn))
            elif isinstance(v, ast.Call) and call_name(v) == "nan_to_num" and v.args:
                # numpy semantics: NaN -> `nan` keyword (default 0.0)
                nk = [k.value for k in v.keywords if k.arg == "nan"]
                guard_consts.append((nk[0] if nk else ast.Constant(value=0.0), dn))
            elif isinstance(v, ast.BinOp) and isinstance(v.op, ast.Sub):
                at = (v, dn)
    if at is None:
        ctx.und("R32.5", key, "definition of the energy difference not found", fi)
        return
    v, dn = at

    def arg_of(call):
        return src(call.args[0]) if isinstance(call, ast.Call) and len(call.args) == 1 else None
    same_fn = isinstance(v.left, ast.Call) and isinstance(v.right, ast.Call) and src(v.left.func) == src(v.right.func)
    ctx.check("R32.5", f"{fi.key}::energy difference is H(initial) - H(proposed)",
              same_fn and arg_of(v.left) == init and arg_of(v.right) == prop, src(v), fi, dn.ast)
    if not guard_consts:
        ctx.und("R32.5", f"{fi.key}::NaN energy difference means rejection", "no NaN guard found", fi)
    for cst, gn in guard_consts:
        ctx.check("R32.5", f"{fi.key}::NaN energy difference means rejection", _is_neg_inf(cst),
                  f"NaN is replaced by `{src(cst)}`; min(1, exp({src(cst)})) must be 0", fi, gn.ast)
    # total energy = potential(position) + kinetic(momentum)
    te = m.func(MOD, "total_energy_of_qp")
    rr = [x for x in walk_no_nested(te.node) if isinstance(x, ast.Return)]
    a0, pe_, ke_ = te.params()[:3]
    okk = len(rr) == 1 and isinstance(rr[0].value, ast.BinOp) and isinstance(rr[0].value.op, ast.Add) and \
        {src(rr[0].value.left), src(rr[0].value.right)} == {f"{pe_}({a0}.position)", f"{ke_}({a0}.momentum)"}
    ctx.check("R32.5", f"{te.key}::H = V(position) + K(momentum)", okk, src(rr[0].value) if rr else None, te)


_run_c32b = run


def run(ctx):  # noqa: F811
    _run_c32b(ctx)
    r32_2(ctx, ctx.model)
    r32_3(ctx, ctx.model)
    r32_4(ctx, ctx.model)
    r32_5(ctx, ctx.model)


# ---------------------------------------------------------------------------------------------------------------- R32.6 - R32.8
def _ilin(e, env=None, depth=4):
    """integer linear normal form {name: coeff, '': const} of an index expression; local single assignments unfolded; None if not linear"""
    if isinstance(e, ast.Constant) and isinstance(e.value, int) and not isinstance(e.value, bool):
        return {"": e.value} if e.value else {}
    if isinstance(e, ast.Name):
        return {e.id: 1}
    if isinstance(e, ast.UnaryOp) and isinstance(e.op, ast.USub):
        a = _ilin(e.operand, env, depth)
        return None if a is None else {k: -v for k, v in a.items()}
    if isinstance(e, ast.BinOp) and isinstance(e.op, (ast.Add, ast.Sub)):
        a, b = _ilin(e.left, env, depth), _ilin(e.right, env, depth)
        if a is None or b is None:
            return None
        sg = 1 if isinstance(e.op, ast.Add) else -1
        out = dict(a)
        for k, v in b.items():
            out[k] = out.get(k, 0) + sg * v
        return {k: v for k, v in out.items() if v}
    return None


def r32_6(ctx, m):
    R = "R32.6"
    ctx.rule(R, "NUTS doubling (generate_nuts_tree): a new sub-tree that is turning (or diverging) is never merged into the trajectory - "
                "the predicate of the `cond` that keeps the old tree contains `<new>.turning` and `<new>.diverging` as unconditional "
                "disjuncts (a depth- or flag-qualified disjunct lets a U-turning sub-tree into the sample set and breaks reversibility)", floor=1)
    fi = m.func("nifty.re.hmc", "generate_nuts_tree")
    ctx.saw_func(fi)
    step = fi.nested.get("cond_tree_doubling") or next((f for f in fi.nested.values()), None)
    key = f"{fi.key}::turning/diverging sub-tree is discarded unconditionally"
    conds = [c for c in ast.walk(fi.node) if isinstance(c, ast.Call) and call_name(c) == "cond"
             and any("merge_trees" in src(k.value) for k in c.keywords if k.arg in ("true_fun", "false_fun")) or
             (isinstance(c, ast.Call) and call_name(c) == "cond" and len(c.args) >= 3 and any("merge_trees" in src(a) for a in c.args[1:3]))]
    if len(conds) != 1:
        ctx.und(R, key, f"{len(conds)} cond(...) calls around merge_trees", fi)
        return
    c = conds[0]
    kw = {k.arg: k.value for k in c.keywords}
    pred = kw.get("pred", c.args[0] if c.args else None)
    tf = kw.get("true_fun", c.args[1] if len(c.args) > 1 else None)
    ff = kw.get("false_fun", c.args[2] if len(c.args) > 2 else None)
    if pred is None or tf is None or ff is None:
        ctx.und(R, key, "cond arguments not recognised", fi, c)
        return
    merge_on_false = "merge_trees" in src(ff) and "merge_trees" not in src(tf)
    merge_on_true = "merge_trees" in src(tf) and "merge_trees" not in src(ff)

    def disj(e):
        if isinstance(e, ast.BinOp) and isinstance(e.op, ast.BitOr):
            return disj(e.left) + disj(e.right)
        if isinstance(e, ast.BoolOp) and isinstance(e.op, ast.Or):
            return [d for v in e.values for d in disj(v)]
        return [e]
    if merge_on_false:
        ds = [src(d) for d in disj(pred)]
        flags = {d.rsplit(".", 1)[-1] for d in ds if isinstance(ast.parse(d, mode="eval").body, ast.Attribute)}
        qualified = [d for d in ds if ("turning" in d or "diverging" in d) and not isinstance(ast.parse(d, mode="eval").body, ast.Attribute)]
        ok_ = {"turning", "diverging"} <= flags
        ctx.check(R, key, True if ok_ else (False if qualified else None),
                  f"keep-old predicate `{src(pred)}`" + (f": {qualified} only holds under an extra condition" if qualified and not ok_ else ""), fi, c)
    elif merge_on_true:
        ctx.und(R, key, f"merge under `{src(pred)}` (polarity swapped form not modelled)", fi, c)
    else:
        ctx.und(R, key, "merge branch not identified", fi, c)


def r32_7(ctx, m):
    R = "R32.7"
    ctx.rule(R, "NUTS sub-tree U-turn checks (iterative_build_tree): the loop over the stored left endpoints visits exactly the index "
                "range [lower, upper) it declares - the index handed to tree_index_get is the loop variable k, or its reflection "
                "lower + (upper - 1) - k (linear normal form); any other affine index checks endpoints of sub-trees that do not end at "
                "the current point", floor=1)
    fi = m.func("nifty.re.hmc", "iterative_build_tree")
    ctx.saw_func(fi)
    n = 0
    for fn in ast.walk(fi.node):
        if not isinstance(fn, ast.FunctionDef):
            continue
        env = {}
        for st in fn.body:
            if isinstance(st, ast.Assign) and len(st.targets) == 1 and isinstance(st.targets[0], ast.Name):
                env[st.targets[0].id] = st.value
        for c in walk_no_nested(fn):
            if not (isinstance(c, ast.Call) and call_name(c) == "fori_loop"):
                continue
            kw = {k.arg: k.value for k in c.keywords}
            lo = kw.get("lower", c.args[0] if c.args else None)
            up = kw.get("upper", c.args[1] if len(c.args) > 1 else None)
            body = kw.get("body_fun", c.args[2] if len(c.args) > 2 else None)
            if lo is None or up is None or not isinstance(body, ast.Lambda) or not body.args.args:
                continue
            kname = body.args.args[0].arg
            gets = [g for g in ast.walk(body.body) if isinstance(g, ast.Call) and call_name(g) == "tree_index_get" and len(g.args) == 2]
            for g in gets:
                n += 1
                key = f"{fi.key}::{fn.name}: index `{src(g.args[1])}` stays in [{src(lo)}, {src(up)})"
                idx, L, U = _ilin(g.args[1]), _ilin(lo), _ilin(up)
                if idx is None or L is None or U is None:
                    ctx.und(R, key, "index or bounds not affine", fi, g)
                    continue
                if idx == {kname: 1}:
                    ctx.ok(R, key, "identity", fi, g)
                    continue
                if idx.get(kname) == -1:
                    rest = {k: v for k, v in idx.items() if k != kname}
                    want = dict(L)
                    for k, v in U.items():
                        want[k] = want.get(k, 0) + v
                    want[""] = want.get("", 0) - 1
                    want = {k: v for k, v in want.items() if v}
                    ctx.check(R, key, rest == want, f"reflection constant is {rest}, the range needs lower + upper - 1 = {want}", fi, g)
                    continue
                ctx.bad(R, key, f"index {idx} is neither k nor its reflection", fi, g)
    if not n:
        ctx.und(R, f"{fi.key}::U-turn loop", "no fori_loop over tree_index_get found", fi)


def r32_8(ctx, m):
    R = "R32.8"
    ctx.rule(R, "merge_trees: a NaN log-weight difference (a sub-tree that left the support of the target) never yields a positive "
                "transition probability - abstract evaluation of the probability expression with the difference = NaN: arithmetic, exp, "
                "expit and minimum/maximum propagate NaN (bernoulli(NaN) keeps the old proposal), comparisons with NaN are False, "
                "fmin/fmax/nan_to_num drop it; a result that is a non-NaN constant is a certain jump to a point of zero mass", floor=1)
    fi = m.func("nifty.re.hmc", "merge_trees")
    ctx.saw_func(fi)
    NAN, UNK = "nan", "unknown"

    def ev(e, env):
        if isinstance(e, ast.Constant) and isinstance(e.value, (int, float)):
            return float(e.value)
        if isinstance(e, ast.Name):
            return env.get(e.id, UNK)
        if isinstance(e, ast.Attribute) and e.attr == "logweight":
            return NAN if src(e.value).startswith("new") else UNK
        if isinstance(e, ast.BinOp):
            a, b = ev(e.left, env), ev(e.right, env)
            return NAN if NAN in (a, b) else UNK
        if isinstance(e, ast.UnaryOp):
            a = ev(e.operand, env)
            return a if a in (NAN, UNK) else UNK
        if isinstance(e, ast.Compare):
            vals = [ev(e.left, env)] + [ev(c, env) for c in e.comparators]
            if NAN in vals:
                return True if isinstance(e.ops[0], ast.NotEq) else False
            return UNK
        if isinstance(e, ast.Call):
            f = call_name(e)
            args = [ev(a, env) for a in e.args]
            if f in ("where", "select") and len(args) == 3:
                c = args[0]
                if c is True:
                    return args[1]
                if c is False:
                    return args[2]
                return NAN if NAN in args[1:] and args[1] == args[2] else UNK
            if f in ("fmin", "fmax", "nanmin", "nanmax"):
                others = [a for a in args if a != NAN]
                return others[0] if others and NAN in args else (NAN if NAN in args else UNK)
            if f == "nan_to_num":
                return 0.0 if args and args[0] == NAN else UNK
            if f in ("isnan",):
                return True if args and args[0] == NAN else UNK
            return NAN if NAN in args else UNK
        return UNK
    from ..util import cfg_of
    n = 0
    for st in ast.walk(fi.node):
        if isinstance(st, ast.Assign) and len(st.targets) == 1 and src(st.targets[0]) == "transition_probability":
            n += 1
            # environment: straight-line assignments that precede it in the same block
            env = {}
            for blk in ast.walk(fi.node):
                body = getattr(blk, "body", None)
                if isinstance(body, list) and st in body:
                    for s2 in body[:body.index(st)]:
                        if isinstance(s2, ast.Assign) and len(s2.targets) == 1 and isinstance(s2.targets[0], ast.Name):
                            env[s2.targets[0].id] = ev(s2.value, env)
            v = ev(st.value, env)
            key = f"{fi.key}::`{short(st.value, 50)}` is NaN (or undecided) for a NaN log-weight difference"
            if v == NAN:
                ctx.ok(R, key, "NaN propagates: the old proposal is kept", fi, st)
            elif isinstance(v, float):
                ctx.check(R, key, v <= 0.0, f"evaluates to {v} for a NaN difference: the new (undefined-energy) sub-tree is chosen with that probability", fi, st)
            else:
                ctx.und(R, key, "abstract value unknown", fi, st)
    if not n:
        ctx.und(R, f"{fi.key}::transition probability", "assignment not found", fi)


_run_c32c = run


def run(ctx):  # noqa: F811
    _run_c32c(ctx)
    r32_6(ctx, ctx.model)
    r32_7(ctx, ctx.model)
    r32_8(ctx, ctx.model)
