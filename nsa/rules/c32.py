"""C32 - leapfrog is a palindromic composition of shears (kick-drift-kick)."""
import ast

from ..consteval import ConstEval, TOP
from ..model import src, short, walk_no_nested, call_name
from ..terms import inline_at
from ..util import cfg_of

MOD = "nifty.re.hmc"


def _names(e):
    return {x.id for x in ast.walk(e) if isinstance(x, ast.Name)}


def _split_update(e):
    """X (+|-) C * F(args)  ->  (base expr, sign, coef expr, call)  or None."""
    if not (isinstance(e, ast.BinOp) and isinstance(e.op, (ast.Add, ast.Sub))):
        return None
    sign = 1 if isinstance(e.op, ast.Add) else -1
    base, term = e.left, e.right
    if isinstance(term, ast.BinOp) and isinstance(term.op, ast.Mult):
        a, b = term.left, term.right
        if isinstance(b, ast.Call):
            return base, sign, a, b
        if isinstance(a, ast.Call):
            return base, sign, b, a
    if isinstance(term, ast.BinOp) and isinstance(term.op, ast.Div) and isinstance(term.left, ast.BinOp) \
            and isinstance(term.left.op, ast.Mult):
        return None
    return None


def _factor(coef, var):
    """coef == k * var ?  -> k (float) or None"""
    try:
        v1 = ConstEval({var: 1.0})
        v2 = ConstEval({var: 3.0})
        import operator
        # allow true division
        class CE(ConstEval):
            def eval(self, n):
                if isinstance(n, ast.BinOp) and isinstance(n.op, ast.Div):
                    return self.eval(n.left) / self.eval(n.right)
                return super().eval(n)
        a = CE({var: 1.0}).eval(coef)
        b = CE({var: 3.0}).eval(coef)
        if abs(b - 3 * a) < 1e-12:
            return float(a)
    except Exception:
        return None
    return None


def run(ctx):
    m = ctx.model
    fi = m.func(MOD, "leapfrog_step")
    ctx.saw_func(fi)
    ctx.rule("R32.1", "leapfrog_step is kick-drift-kick: two momentum updates p' = p - c*gradV(q*) with q* the position "
                      "current at that point and no other momentum dependence, one position update q' = q + 2c*gradK(M^-1, p_half) "
                      "with no other position dependence, equal half steps, returned pair = (new q, second-kick p); "
                      "flip_momentum negates only the momentum", floor=10)
    cfg = cfg_of(fi)
    params = fi.params()
    rd = cfg.reaching_defs(params)
    if len(params) < 5:
        ctx.error("leapfrog_step signature changed")
        return
    gV, gK, eps, Minv, qp = params[:5]
    rets = [n for n in cfg.nodes if n.kind == "stmt" and isinstance(n.ast, ast.Return)]
    K = fi.key
    if len(rets) != 1:
        ctx.und("R32.1", f"{K}::single return", f"{len(rets)} returns", fi)
        return
    r = rets[0]
    # do not inline through the state names: resolve one level at a time
    def definition(name, at):
        defs = rd[at].get(name, frozenset())
        if len(defs) != 1:
            return None, None
        d = next(iter(defs))
        n = cfg.nodes[d]
        if n.kind == "stmt" and isinstance(n.ast, ast.Assign) and len(n.ast.targets) == 1 and isinstance(n.ast.targets[0], ast.Name):
            return n.ast.value, d
        return None, None
    rv = r.ast.value
    at = r.id
    if isinstance(rv, ast.Name):
        rv, at = definition(rv.id, r.id)
    if not (isinstance(rv, ast.Call) and call_name(rv) == "QP"):
        ctx.und("R32.1", f"{K}::returns QP(position=..., momentum=...)", f"returns {src(rv)}", fi)
        return
    kw = {k.arg: k.value for k in rv.keywords}
    if not (isinstance(kw.get("position"), ast.Name) and isinstance(kw.get("momentum"), ast.Name)):
        ctx.und("R32.1", f"{K}::returned components are locals", src(rv), fi)
        return
    q1, p1 = kw["position"].id, kw["momentum"].id
    e_p1, at_p1 = definition(p1, at)
    e_q1, at_q1 = definition(q1, at)
    u2 = _split_update(e_p1) if e_p1 is not None else None
    ud = _split_update(e_q1) if e_q1 is not None else None
    if u2 is None or ud is None:
        ctx.und("R32.1", f"{K}::update shapes", f"momentum: {src(e_p1)}; position: {src(e_q1)}", fi)
        return
    base2, s2, c2, call2 = u2
    based, sd, cd, calld = ud
    # second kick
    ph = base2.id if isinstance(base2, ast.Name) else None
    ctx.check("R32.1", f"{K}::second kick evaluates gradV at the NEW position",
              call_name(call2) == gV and len(call2.args) == 1 and src(call2.args[0]) == q1,
              f"second kick uses `{src(call2)}`, the returned position is `{q1}`", fi, e_p1)
    e_ph, at_ph = definition(ph, at_p1) if ph else (None, None)
    u1 = _split_update(e_ph) if e_ph is not None else None
    if u1 is None:
        ctx.und("R32.1", f"{K}::first kick shape", src(e_ph), fi)
        return
    base1, s1, c1, call1 = u1
    # original position / momentum names
    def resolves_to(e, attr, at_):
        if src(e) == f"{qp}.{attr}":
            return True
        if isinstance(e, ast.Name):
            d, _ = definition(e.id, at_)
            return d is not None and src(d) == f"{qp}.{attr}"
        return False
    ctx.check("R32.1", f"{K}::first kick starts from the incoming momentum and evaluates gradV at the OLD position",
              resolves_to(base1, "momentum", at_ph) and call_name(call1) == gV and len(call1.args) == 1
              and resolves_to(call1.args[0], "position", at_ph),
              f"first kick: {src(e_ph)}", fi, e_ph)
    # drift
    ctx.check("R32.1", f"{K}::drift starts from the old position and uses the HALF-STEP momentum",
              resolves_to(based, "position", at_q1) and call_name(calld) == gK and len(calld.args) == 2
              and src(calld.args[0]) == Minv and src(calld.args[1]) == ph,
              f"drift: {src(e_q1)}; half-step momentum is `{ph}`", fi, e_q1)
    # shears: kick terms do not read momentum, drift term does not read position
    mom_names = {p1, ph} | ({base1.id} if isinstance(base1, ast.Name) else set())
    pos_names = {q1} | ({based.id} if isinstance(based, ast.Name) else set())
    ctx.check("R32.1", f"{K}::kicks are shears (their increment does not depend on the momentum)",
              not ((_names(c1) | _names(call1) | _names(c2) | _names(call2)) & mom_names) and
              f"{qp}.momentum" not in src(call1) + src(call2) + src(c1) + src(c2),
              "a kick whose increment reads the momentum is not volume preserving", fi)
    ctx.check("R32.1", f"{K}::drift is a shear (its increment does not depend on the position)",
              not ((_names(cd) | {x for a in calld.args[1:] for x in _names(a)}) & pos_names)
              and f"{qp}.position" not in src(cd) + src(calld),
              "a drift whose increment reads the position is not volume preserving", fi)
    f1, f2, fd = _factor(c1, eps), _factor(c2, eps), _factor(cd, eps)
    ctx.check("R32.1", f"{K}::equal half steps", (f1 == f2) if None not in (f1, f2) else (True if src(c1) == src(c2) else None),
              f"kick coefficients {src(c1)} and {src(c2)}", fi)
    ctx.check("R32.1", f"{K}::drift step is twice the kick step",
              (abs(fd - 2 * f1) < 1e-12) if None not in (f1, fd) else None, f"kick {src(c1)}, drift {src(cd)}", fi)
    ctx.check("R32.1", f"{K}::signs follow Hamilton's equations (kicks subtract gradV, drift adds gradK)",
              s1 == -1 and s2 == -1 and sd == 1 and (f1 or 1) > 0, f"signs kick1={s1} kick2={s2} drift={sd}", fi)
    # flip_momentum
    fm = m.func(MOD, "flip_momentum")
    ctx.saw_func(fm)
    rr = [n for n in walk_no_nested(fm.node) if isinstance(n, ast.Return)]
    ok_ = False
    if len(rr) == 1 and isinstance(rr[0].value, ast.Call) and call_name(rr[0].value) == "QP":
        kw = {k.arg: src(k.value) for k in rr[0].value.keywords}
        a0 = fm.params()[0]
        ok_ = kw.get("position") == f"{a0}.position" and kw.get("momentum") == f"-{a0}.momentum"
    ctx.check("R32.1", f"{fm.key}::negates the momentum and keeps the position", ok_, None, fm)
    # every integrator user goes through leapfrog_step (who-may-call): stepper bound to it
    users = 0
    for mod in (m.module(MOD), m.module("nifty.re.hmc_oo")):
        for n in ast.walk(mod.tree):
            if isinstance(n, ast.Name) and n.id == "leapfrog_step" and isinstance(n.ctx, ast.Load):
                users += 1
    ctx.check("R32.1", f"{MOD}::samplers use leapfrog_step as their stepper", users >= 1, f"{users} references", fi)
