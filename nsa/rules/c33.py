"""C33 - pytree vector arithmetic: the operator table of Vector binds every dunder to its own operator
with the right operand order."""
import ast

from ..model import src, short, walk_no_nested, call_name

MOD = "nifty.re.tree_math.vector"
ALIASES = {"or_": "or", "and_": "and", "not_": "not", "inv": "invert", "truediv": "truediv"}
BIN = ["add", "sub", "mul", "truediv", "floordiv", "pow", "mod", "or", "xor", "and", "lshift", "rshift"]
CMP = ["lt", "le", "eq", "ne", "ge", "gt"]
UNARY = ["neg", "pos", "abs", "invert"]


def _opname(e):
    """operator.add -> 'add' (aliases folded), jnp.conj -> 'conj'"""
    if isinstance(e, ast.Attribute):
        return ALIASES.get(e.attr, e.attr)
    return None


def run(ctx):
    m = ctx.model
    mod = m.module(MOD)
    V = m.cls(MOD, "Vector")
    ctx.saw_class(V)
    ctx.rule("R33.1", "Vector's dunder table: every arithmetic/comparison/unary dunder is bound to its own operator; "
                      "forward variants pass (lhs, rhs), reflected variants (rhs, lhs); divmod keeps operand order; "
                      "conj/real/imag map to their jnp namesakes", floor=30)
    # helper semantics: which argument order each factory uses
    order = {}
    for fname in ("_binary_op", "_rev_binary_op"):
        fi = mod.functions.get(fname)
        if fi is None:
            ctx.error(f"{MOD}.{fname} missing")
            return
        ctx.saw_func(fi)
        inner = [n for n in fi.node.body if isinstance(n, ast.FunctionDef)]
        got = None
        if inner:
            ps = [a.arg for a in inner[0].args.args]
            for c in ast.walk(inner[0]):
                if isinstance(c, ast.Call) and call_name(c) == "_broadcast_binary_op" and len(c.args) == 3:
                    got = (src(c.args[1]), src(c.args[2]), ps)
        order[fname] = got
    b = order["_binary_op"]
    r = order["_rev_binary_op"]
    ctx.check("R33.1", f"{MOD}::_binary_op applies op(lhs, rhs)", b is not None and (b[0], b[1]) == (b[2][0], b[2][1]), str(b), mod.functions["_binary_op"])
    ctx.check("R33.1", f"{MOD}::_rev_binary_op applies op(rhs, lhs)", r is not None and (r[0], r[1]) == (r[2][1], r[2][0]), str(r), mod.functions["_rev_binary_op"])
    bb = mod.functions.get("_broadcast_binary_op")
    if bb is not None:
        ctx.saw_func(bb)
        rets = [n for n in walk_no_nested(bb.node) if isinstance(n, ast.Return)]
        ps = bb.params()
        okk = len(rets) == 1 and isinstance(rets[0].value, ast.Call) and call_name(rets[0].value) == "tree_map" \
            and [src(a) for a in rets[0].value.args] == ps[:3]
        ctx.check("R33.1", f"{MOD}::_broadcast_binary_op maps op over (lhs, rhs) in order", okk, None, bb)
    fr = mod.functions.get("_fwd_rev_binary_op")
    if fr is None:
        ctx.error("_fwd_rev_binary_op missing")
        return
    ctx.saw_func(fr)
    rets = [n for n in walk_no_nested(fr.node) if isinstance(n, ast.Return)]
    okk = len(rets) == 1 and isinstance(rets[0].value, ast.Tuple) and len(rets[0].value.elts) == 2 and \
        call_name(rets[0].value.elts[0]) == "_binary_op" and call_name(rets[0].value.elts[1]) == "_rev_binary_op" and \
        src(rets[0].value.elts[0].args[0]) == src(rets[0].value.elts[1].args[0]) == fr.params()[0]
    ctx.check("R33.1", f"{MOD}::_fwd_rev_binary_op returns (forward, reflected) of the same op", okk, None, fr)
    # the class table
    seen = set()
    for st in V.node.body:
        if not isinstance(st, ast.Assign):
            continue
        v = st.value
        tg = st.targets
        names = []
        for t in tg:
            names += [e.id for e in (t.elts if isinstance(t, ast.Tuple) else [t]) if isinstance(e, ast.Name)]
        if isinstance(v, ast.Call) and call_name(v) in ("_fwd_rev_binary_op", "_binary_op", "_unary_op", "_rev_binary_op"):
            fac = call_name(v)
            op = _opname(v.args[0]) if v.args else None
            if len(v.args) > 1 and isinstance(v.args[1], ast.Constant):
                op_label = v.args[1].value
            else:
                op_label = op
            key = f"{V.key}::{', '.join(names)} = {src(v)}"
            if fac == "_fwd_rev_binary_op":
                good = len(names) == 2 and names[0] == f"__{op}__" and names[1] == f"__r{op}__" and op in BIN and op_label == op
                seen.update(names)
                ctx.check("R33.1", key, good, f"dunders {names} bound to operator `{op}`", V, st)
            elif fac == "_binary_op":
                good = all(n == f"__{op}__" for n in names) and (op in CMP or op in BIN)
                seen.update(names)
                ctx.check("R33.1", key, good, f"dunders {names} bound to operator `{op}`", V, st)
            elif fac == "_unary_op":
                good = all(n == f"__{op}__" for n in names if n.startswith("__")) and \
                    all(n in (op, {"conj": "conjugate"}.get(op, op)) for n in names if not n.startswith("__"))
                seen.update(names)
                ctx.check("R33.1", key, good, f"{names} bound to `{op}`", V, st)
        elif isinstance(v, ast.Call) and call_name(v) == "property" and v.args and isinstance(v.args[0], ast.Call) \
                and call_name(v.args[0]) == "_unary_op":
            op = _opname(v.args[0].args[0])
            ctx.check("R33.1", f"{V.key}::{', '.join(names)} = {src(v)}", names == [op], f"{names} bound to `{op}`", V, st)
            seen.update(names)
        elif isinstance(v, ast.Name) and v.id == "matmul":
            seen.update(names)
            ctx.ok("R33.1", f"{V.key}::{', '.join(names)} = matmul", "commutative contraction", V, st)
    for dm, first in (("__divmod__", 1), ("__rdivmod__", 0)):
        fi = V.methods.get(dm)
        if fi is None:
            continue
        ctx.saw_func(fi)
        seen.add(dm)
        a0, a1 = fi.params()[:2]
        rr = [n for n in walk_no_nested(fi.node) if isinstance(n, ast.Return)]
        exp = (f"({a0} // {a1}, {a0} % {a1})" if dm == "__divmod__" else f"({a1} // {a0}, {a1} % {a0})")
        ctx.check("R33.1", f"{fi.key}::operand order", len(rr) == 1 and src(rr[0].value) == exp, f"returns {src(rr[0].value) if rr else None}, expected {exp}", fi)
    want = {f"__{o}__" for o in BIN + CMP + UNARY} | {f"__r{o}__" for o in BIN}
    missing = sorted(want - seen)
    ctx.check("R33.1", f"{V.key}::all arithmetic dunders are bound", not missing, f"missing {missing}", V)


# ---------------------------------------------------------------------------------------------------------------- R33.2 / R33.3
VM = "nifty.re.tree_math.vector_math"
CM = "nifty.re.custom_map"


def _leaf_fn(mod, fn_node, expr):
    """resolve the per-leaf function expression of a tree_map call: partial(f, ...) / lambda / local or module function"""
    kw = {}
    while isinstance(expr, ast.Call) and call_name(expr) == "partial" and expr.args:
        kw.update({k.arg: src(k.value) for k in expr.keywords})
        expr = expr.args[0]
    if isinstance(expr, ast.Name):
        for st in ast.walk(fn_node):
            if isinstance(st, ast.FunctionDef) and st.name == expr.id and st is not fn_node:
                return st, kw
        fi = mod.functions.get(expr.id)
        if fi is not None:
            return fi.node, kw
    return expr, kw


def r33_2(ctx, m):
    from ..util import cfg_of, known_atoms
    mod = m.module(VM)
    ctx.rule("R33.2", "tree reductions equal the flat-array operation: size sums leaf sizes; dot/vdot map the jnp namesake over "
                      "(a, b) in this order on ravelled leaves and add up from 0 (a vdot leaf function may skip the conjugation only "
                      "under a realness test of its FIRST operand); sum/min/max/any/all reduce leaves and pairs with the same jnp "
                      "function; norm composes per-leaf p-norms with the same ord and treats ord=0 (count of non-zeros, which does "
                      "not compose) by summing counts; conjugate maps conj over the leaves", floor=12)

    def fn(name):
        fi = mod.functions.get(name)
        if fi is not None:
            ctx.saw_func(fi)
        return fi
    # ---- size
    fi = fn("size")
    if fi is not None:
        rr = [r for r in walk_no_nested(fi.node) if isinstance(r, ast.Return) and r.value is not None]
        last = rr[-1].value if rr else None
        okk = isinstance(last, ast.Call) and call_name(last) == "tree_reduce" and len(last.args) == 3 and src(last.args[0]).endswith("add") \
            and isinstance(last.args[1], ast.Call) and call_name(last.args[1]) == "tree_map" and src(last.args[1].args[0]) == "_size" \
            and src(last.args[2]) == "0"
        ctx.check("R33.2", f"{fi.key}::sum of the leaf sizes", okk, src(last) if last is not None else None, fi)
    # ---- dot / vdot
    for name, leafop, conj in (("dot", "dot", False), ("vdot", "vdot", True)):
        fi = fn(name)
        if fi is None:
            ctx.und("R33.2", f"{VM}::{name}", "function missing", mod.relpath)
            continue
        a, b = fi.params()[:2]
        cfg = cfg_of(fi)
        rd = cfg.reaching_defs(fi.params())
        rets = [n for n in cfg.nodes if n.kind == "stmt" and isinstance(n.ast, ast.Return)]
        from ..terms import inline_at
        key = f"{fi.key}::per-leaf jnp.{leafop} over (a, b), summed from zero"
        if len(rets) != 1:
            ctx.und("R33.2", key, f"{len(rets)} returns", fi)
            continue
        e = inline_at(cfg, rd, rets[0].id, rets[0].ast.value, depth=2)
        if not (isinstance(e, ast.Call) and call_name(e) == "tree_reduce" and len(e.args) == 3 and isinstance(e.args[1], ast.Call)
                and call_name(e.args[1]) == "tree_map"):
            ctx.und("R33.2", key, f"`{src(e)}` is not tree_reduce(add, tree_map(...), 0)", fi)
            continue
        red, tm, init = e.args
        okk = src(red).split(".")[-1] == "add" and src(init) in ("0.0", "0") and [src(x) for x in tm.args[1:]] == [a, b]
        ctx.check("R33.2", key + " [reduction]", okk, src(e)[:200], fi)
        lf, kw = _leaf_fn(mod, fi.node, tm.args[0])
        lkey = f"{fi.key}::leaf function"
        if isinstance(lf, ast.Attribute):
            ctx.check("R33.2", lkey, lf.attr == leafop and src(lf.value) in ("jnp", "jax.numpy", "np"), src(lf), fi)
        elif isinstance(lf, ast.Lambda) or isinstance(lf, ast.FunctionDef):
            ps = [x.arg for x in lf.args.args][:2]
            if isinstance(lf, ast.Lambda):
                bodies = [(lf.body, [])]
            else:
                from ..cfg import CFG
                c2 = CFG(lf)
                bodies = [(n.ast.value, known_atoms(c2, n.id)) for n in c2.nodes if n.kind == "stmt" and isinstance(n.ast, ast.Return) and n.ast.value is not None]
            verdict, det = True, []
            if len(ps) < 2 or not bodies:
                verdict = None
            for body, atoms in bodies:
                if isinstance(body, ast.Call) and call_name(body) == "einsum" and body.args and isinstance(body.args[0], ast.Constant) \
                        and "..." in str(body.args[0].value):
                    verdict = False
                    det.append(f"`{src(body)}` broadcasts the operands against each other: leaves of equal size but different "
                               "(broadcast-compatible) shapes are not paired entry by entry as in the flat-array product")
                    continue
                if not (isinstance(body, ast.Call) and call_name(body) in ("dot", "vdot") and len(body.args) >= 2):
                    verdict = None
                    det.append(f"`{src(body)}` not a dot/vdot call")
                    continue

                def strip(x):
                    while isinstance(x, ast.Call) and call_name(x) in ("_ravel", "ravel") and (x.args or isinstance(x.func, ast.Attribute)):
                        x = x.args[0] if x.args else x.func.value
                    return x
                x0, x1 = strip(body.args[0]), strip(body.args[1])
                if call_name(body) == "dot" and (x0 is body.args[0] or x1 is body.args[1]):
                    verdict = False
                    det.append(f"`{src(body)}`: jnp.dot of unravelled leaves is a matrix product, not the flat dot product")
                    continue
                conj0 = isinstance(x0, ast.Call) and call_name(x0) in ("conj", "conjugate", "_conj")
                if conj0:
                    x0 = strip(x0.args[0] if x0.args else x0.func.value)
                if [src(x0), src(x1)] != ps:
                    verdict = False
                    det.append(f"`{src(body)}` does not combine ({ps[0]}, {ps[1]}) in this order")
                    continue
                conjugates = call_name(body) == "vdot" or conj0
                if conj and not conjugates:
                    real_first = any(isinstance(t, ast.Call) and call_name(t) in ("iscomplexobj", "iscomplextype", "iscomplex") and
                                     src(t.args[0]) in (ps[0], f"{ps[0]}.dtype") and pol is False for t, pol in atoms)
                    if not real_first:
                        verdict = False
                        det.append(f"`{src(body)}` drops the conjugation of `{ps[0]}` without knowing that `{ps[0]}` is real "
                                   f"(guards: {[('' if p else 'not ') + src(t) for t, p in atoms]})")
                if not conj and conjugates:
                    verdict = False
                    det.append(f"`{src(body)}` conjugates in the non-conjugating product")
            ctx.check("R33.2", lkey, verdict, "; ".join(det) or None, fi, lf)
        else:
            ctx.und("R33.2", lkey, f"leaf function `{src(tm.args[0])}` not resolved", fi)
    # ---- unary reductions
    ur = fn("_unary_reduction")
    if ur is not None:
        p0 = ur.params()[0]
        inner = {n.name: n for n in ur.node.body if isinstance(n, ast.FunctionDef)}
        rr = [r for r in walk_no_nested(ur.node) if isinstance(r, ast.Return)]
        outer = inner.get(src(rr[0].value)) if len(rr) == 1 else None
        okk = None
        if outer is not None:
            r2 = [r for r in walk_no_nested(outer) if isinstance(r, ast.Return)]
            v = r2[0].value if len(r2) == 1 else None
            if isinstance(v, ast.Call) and call_name(v) == "tree_reduce" and len(v.args) == 2 and isinstance(v.args[1], ast.Call) \
                    and call_name(v.args[1]) == "tree_map" and src(v.args[1].args[1]) == outer.args.args[0].arg:
                f_pair, f_leaf = inner.get(src(v.args[0])), inner.get(src(v.args[1].args[0]))
                if f_pair is not None and f_leaf is not None:
                    bp = [r.value for r in walk_no_nested(f_pair) if isinstance(r, ast.Return)]
                    bl = [r.value for r in walk_no_nested(f_leaf) if isinstance(r, ast.Return)]
                    pa_ = [x.arg for x in f_pair.args.args]
                    okk = len(bp) == 1 and len(bl) == 1 and call_name(bp[0]) == p0 and call_name(bl[0]) == p0 \
                        and src(bp[0].args[0]).replace(" ", "") in (f"jnp.array([{pa_[0]},{pa_[1]}])", f"jnp.stack([{pa_[0]},{pa_[1]}])") \
                        and f_leaf.args.args[0].arg in src(bl[0].args[0])
        ctx.check("R33.2", f"{ur.key}::leaves and pairs are reduced with the same function", okk, None, ur)
        table = {}
        for st in mod.tree.body:
            if isinstance(st, ast.Assign) and isinstance(st.value, ast.Call) and call_name(st.value) == "_unary_reduction" and st.value.args:
                for t in st.targets:
                    if isinstance(t, ast.Name):
                        table[t.id] = src(st.value.args[0])
                        ctx.check("R33.2", f"{mod.relpath}::{t.id} = _unary_reduction(...)", src(st.value.args[0]) == f"jnp.{t.id}",
                                  f"bound to {src(st.value.args[0])}", mod.relpath, st)
    # ---- norm
    fi = fn("norm")
    if fi is not None:
        tr, od = fi.params()[:2]
        cfg = cfg_of(fi)
        rets = [n for n in cfg.nodes if n.kind == "stmt" and isinstance(n.ast, ast.Return) and n.ast.value is not None]
        zero_rets, gen_rets = [], []
        for n in rets:
            at = known_atoms(cfg, n.id)
            z = [pol for t, pol in at if src(t).replace(" ", "") in (f"{od}==0", f"0=={od}")]
            (zero_rets if (z and z[0]) else gen_rets).append(n)
        key = f"{fi.key}::ord=0 is handled by summing the per-leaf counts of non-zeros"
        if not zero_rets:
            ctx.bad("R33.2", key, "no branch for ord == 0: norm(per-leaf counts, ord=0) counts the leaves that contain a non-zero entry, "
                                  "not the non-zero entries", fi)
        else:
            rd = cfg.reaching_defs(fi.params())
            from ..terms import inline_at
            e = inline_at(cfg, rd, zero_rets[0].id, zero_rets[0].ast.value, depth=2)
            t = src(e)
            ctx.check("R33.2", key, ("count_nonzero" in t or "!= 0" in t) and "tree_reduce" in t and "add" in t, t[:160], fi)
        # further special cases: keyed by the exact order (norms of order p and -p differ)
        special = []
        for n in list(gen_rets):
            at = [(t, pol) for t, pol in known_atoms(cfg, n.id) if any(isinstance(z, ast.Name) and z.id == od for z in ast.walk(t))
                  and src(t).replace(" ", "") not in (f"{od}==0", f"0=={od}")]
            pos = [t for t, pol in at if pol]
            if pos:
                special.append((n, pos))
                gen_rets.remove(n)
        for n, pos in special:
            t = pos[0]
            skey = f"{fi.key}::special case `{src(t)}` is keyed by the exact order"
            if any(isinstance(z, ast.Call) and call_name(z) in ("abs", "fabs", "absolute") and any(isinstance(q, ast.Name) and q.id == od for q in ast.walk(z))
                   for z in ast.walk(t)):
                ctx.bad("R33.2", skey, f"`{src(t)}` sends the orders p and -p into the same branch (`{short(n.ast, 50)}`): for ord=-inf the "
                                       "flat-array norm is the MINIMUM absolute value", fi, n.ast)
                continue
            v = src(n.ast.value)
            neg = "-" in src(t) and "inf" in src(t)
            if "inf" in src(t) and isinstance(t, ast.Compare) and isinstance(t.ops[0], ast.Eq):
                want = "min" if neg else "max"
                ctx.check("R33.2", skey, True if (want in v and "abs" in v) else None, f"returns `{v[:80]}`", fi, n.ast)
            else:
                ctx.und("R33.2", skey, f"returns `{v[:80]}`", fi, n.ast)
        key = f"{fi.key}::p-norms compose: norm(per-leaf norms with the same ord, ord)"
        okk = None
        if len(gen_rets) == 1:
            v = gen_rets[0].ast.value
            if isinstance(v, ast.Call) and call_name(v) == "norm" and any(k.arg == "ord" and src(k.value) == od for k in v.keywords):
                tms = [c for c in ast.walk(v) if isinstance(c, ast.Call) and call_name(c) == "tree_map"]
                if len(tms) == 1:
                    lf, _ = _leaf_fn(mod, fi.node, tms[0].args[0])
                    if isinstance(lf, ast.FunctionDef):
                        inner_norms = [c for c in ast.walk(lf) if isinstance(c, ast.Call) and call_name(c) == "norm"]
                        okk = bool(inner_norms) and all(any(k.arg == "ord" and src(k.value) == od for k in c.keywords) for c in inner_norms) \
                            and src(tms[0].args[1]) == tr
        ctx.check("R33.2", key, okk, None, fi)
    # ---- conjugate
    fi = fn("conjugate")
    cj = fn("_conj")
    if fi is not None and cj is not None:
        rr = [r for r in walk_no_nested(fi.node) if isinstance(r, ast.Return)]
        ctx.check("R33.2", f"{fi.key}::maps the conjugation over the leaves",
                  len(rr) == 1 and src(rr[0].value) == f"tree_map(_conj, {fi.params()[0]})", src(rr[0].value) if rr else None, fi)
        r2 = [r for r in walk_no_nested(cj.node) if isinstance(r, ast.Return)]
        ctx.check("R33.2", f"{cj.key}::conjugates", len(r2) == 1 and all("conj" in src(x) for x in
                  ([r2[0].value.body, r2[0].value.orelse] if isinstance(r2[0].value, ast.IfExp) else [r2[0].value])), None, cj)


def r33_3(ctx, m):
    from ..util import cfg_of, find_nodes
    mod = m.module(CM)
    ctx.rule("R33.3", "sequential maps: mapped inputs are moved from their in-axis to axis 0 and outputs from axis 0 to their "
                      "out-axis with _moveaxis(array, source, destination) = jnp.moveaxis in this order (a hand-written permutation "
                      "must normalise negative axes before using them as list positions); every returned leaf is derived from the "
                      "scan's stacked output (an unmapped output is its first slice), never from an input", floor=5)
    mv = mod.functions.get("_moveaxis")
    gs = mod.functions.get("_generic_smap")
    if mv is None or gs is None:
        ctx.error(f"{CM}: _moveaxis/_generic_smap missing")
        return
    ctx.saw_func(mv)
    ctx.saw_func(gs)
    a0, s0, d0 = mv.params()[:3]
    cfg = cfg_of(mv)
    rd = cfg.reaching_defs(mv.params())
    calls = find_nodes(cfg, lambda q: isinstance(q, ast.Call) and call_name(q) == "moveaxis")
    key = f"{mv.key}::delegates to jnp.moveaxis(array, source, destination)"
    if calls:
        ctx.check("R33.3", key, all([src(x) for x in c.args] == [a0, s0, d0] for n, c in calls), "; ".join(src(c) for n, c in calls), mv)
    # early return only for source == destination
    for n in cfg.nodes:
        if n.kind == "stmt" and isinstance(n.ast, ast.Return) and src(n.ast.value) == a0:
            from ..util import known_atoms
            at = known_atoms(cfg, n.id)
            okk = any(pol and src(t).replace(" ", "") in (f"{s0}=={d0}", f"{d0}=={s0}") for t, pol in at)
            ctx.check("R33.3", f"{mv.key}::returns the array unchanged only if source == destination", okk, None, mv, n.ast)
    # hand-written permutations: positions must be normalised
    sinks = []
    for n, c in find_nodes(cfg, lambda q: isinstance(q, ast.Call) and isinstance(q.func, ast.Attribute) and q.func.attr in ("insert", "pop") and q.args):
        sinks.append((n, c.args[0], c))
    for n, c in find_nodes(cfg, lambda q: isinstance(q, ast.Call) and call_name(q) == "range"):
        for a in c.args:
            sinks.append((n, a, c))
    for n, s_ in find_nodes(cfg, lambda q: isinstance(q, ast.Slice)):
        for a in (s_.lower, s_.upper):
            if a is not None:
                sinks.append((n, a, s_))
    n_perm = 0
    for n, e, site in sinks:
        for nm in [x.id for x in ast.walk(e) if isinstance(x, ast.Name) and x.id in (s0, d0)]:
            n_perm += 1
            defs = (rd.get(n.id) or {}).get(nm, frozenset())
            normalised = bool(defs) and all(
                cfg.nodes[d].kind == "stmt" and isinstance(cfg.nodes[d].ast, (ast.Assign, ast.AugAssign)) and
                ("% " in src(cfg.nodes[d].ast) or "normalize_axis" in src(cfg.nodes[d].ast) or "canonicalize_axis" in src(cfg.nodes[d].ast))
                for d in defs)
            ctx.check("R33.3", f"{mv.key}::`{nm}` is normalised before it is used as a list position", normalised,
                      f"`{short(site)}` uses `{nm}` (may be negative, as in jax.vmap) with Python list semantics" if not normalised else None, mv, site)
    if not calls and not n_perm:
        ctx.und("R33.3", key, "neither jnp.moveaxis nor a recognisable permutation", mv)
    # call sites in _generic_smap
    cfg = cfg_of(gs)
    rd = cfg.reaching_defs(gs.params())
    sites = find_nodes(cfg, lambda q: isinstance(q, ast.Call) and call_name(q) == "_moveaxis" and len(q.args) == 3)
    ins = [(n, c) for n, c in sites if src(c.args[2]) == "0"]
    outs = [(n, c) for n, c in sites if src(c.args[1]) == "0"]
    ctx.check("R33.3", f"{gs.key}::one input move (axis -> 0) and one output move (0 -> axis)", len(ins) == 1 and len(outs) == 1 and len(sites) == 2,
              "; ".join(src(c) for n, c in sites), gs)

    def loop_of(n):
        # the For statement whose body contains the node's statement
        for f in ast.walk(gs.node):
            if isinstance(f, ast.For) and any(x is n.ast for b in f.body for x in ast.walk(b)):
                return f
        return None
    scan_y = None
    for n in cfg.nodes:
        if n.kind == "stmt" and isinstance(n.ast, ast.Assign) and isinstance(n.ast.value, ast.Call) and src(n.ast.value.func) == "_scan":
            t = n.ast.targets[0]
            if isinstance(t, ast.Tuple) and len(t.elts) == 2 and isinstance(t.elts[1], ast.Name):
                scan_y = t.elts[1].id
    for (n, c), what, it_role in ((ins[0] if ins else (None, None), "input", "in_axes"), (outs[0] if outs else (None, None), "output", "out_axes")):
        if n is None:
            continue
        lp = loop_of(n)
        okk = None
        if lp is not None and isinstance(lp.iter, ast.Call) and call_name(lp.iter) == "zip" and isinstance(lp.target, ast.Tuple) and len(lp.target.elts) == 2:
            ax, el = [src(x) for x in lp.target.elts]
            zi = [src(x) for x in lp.iter.args]
            want_src = "x" if what == "input" else scan_y
            okk = src(c.args[0]) == el and (src(c.args[1]) if what == "input" else src(c.args[2])) == ax and zi[0] == gs.params()[1 if what == "input" else 2] \
                and zi[1] == (gs.node.args.vararg.arg if what == "input" and gs.node.args.vararg else want_src)
        ctx.check("R33.3", f"{gs.key}::{what} leaf is paired with its own entry of {it_role}", okk, src(c), gs, c)
    # outputs derive from the scan result
    rets = [n for n in cfg.nodes if n.kind == "stmt" and isinstance(n.ast, ast.Return) and n.ast.value is not None]
    key = f"{gs.key}::every returned leaf derives from the scan output"
    if len(rets) != 1 or scan_y is None or not outs:
        ctx.und("R33.3", key, "return / scan result not identified", gs)
        return
    rv = rets[0].ast.value
    outlist = src(rv.args[1]) if isinstance(rv, ast.Call) and call_name(rv) == "tree_unflatten" and len(rv.args) == 2 else None
    lp = loop_of(outs[0][0])
    if outlist is None or lp is None:
        ctx.und("R33.3", key, "output list not identified", gs)
        return
    el = src(lp.target.elts[1])
    apps = [c for c in ast.walk(gs.node) if isinstance(c, ast.Call) and isinstance(c.func, ast.Attribute) and c.func.attr in ("append", "extend", "insert")
            and src(c.func.value) == outlist]
    inputs = {gs.node.args.vararg.arg if gs.node.args.vararg else "x", "unmapped", "mapped"}
    for c in apps:
        names = {x.id for x in ast.walk(c.args[-1]) if isinstance(x, ast.Name)}
        from_out = el in names and any(x is c for b in lp.body for x in ast.walk(b))
        from_in = sorted(names & inputs)
        ctx.check("R33.3", f"{gs.key}::{outlist}.append(<{'mapped' if '_moveaxis' in src(c) else 'unmapped'} output>)", from_out and not from_in,
                  f"`{src(c)}` returns {'an INPUT (' + ', '.join(from_in) + ')' if from_in else 'a value'} that does not derive from the "
                  f"function's output `{el}`" if not (from_out and not from_in) else src(c), gs, c)


_run_c33b = run


def run(ctx):  # noqa: F811
    _run_c33b(ctx)
    r33_2(ctx, ctx.model)
    r33_3(ctx, ctx.model)


FMM = "nifty.re.tree_math.forest_math"


def r33_4(ctx, m):
    """sequential maps return what vmap returns: output buffers keep the mapped function's dtype"""
    ctx.rule("R33.4", "sequential scan behind lmap: the output buffer of every leaf is allocated with the shape (length,) + shape(y) "
                      "and the DTYPE OF THE MAPPED OUTPUT y (empty_like/zeros_like/full_like of y, or an explicit dtype=y.dtype); a "
                      "promoted or default dtype turns integer/boolean outputs into floats, unlike jax.vmap", floor=1)
    fi = m.func(CM, "_lscan", required=False)
    if fi is None:
        ctx.error("R33.4: _lscan missing")
        return
    ctx.saw_func(fi)
    allocs = []
    for lam in ast.walk(fi.node):
        if isinstance(lam, ast.Lambda) and len(lam.args.args) == 1 and isinstance(lam.body, ast.Call):
            nm = call_name(lam.body)
            if nm in ("empty_like", "zeros_like", "full_like", "ones_like", "empty", "zeros", "full", "ones"):
                allocs.append(lam)
    if not allocs:
        ctx.und("R33.4", f"{fi.key}::output buffer", "allocation not found", fi)
        return
    for lam in allocs:
        x = lam.args.args[0].arg
        c = lam.body
        nm = call_name(c)
        kw = {k.arg: k.value for k in c.keywords}
        key = f"{fi.key}::`{short(c, 60)}` keeps the dtype of the mapped output"
        if nm.endswith("_like"):
            proto_ok = c.args and src(c.args[0]) == x
            dt = kw.get("dtype")
            if not proto_ok:
                ctx.und("R33.4", key, "prototype is not the mapped output", fi, c)
            elif dt is not None and src(dt) not in (f"{x}.dtype", f"jnp.result_type({x})"):
                ctx.bad("R33.4", key, f"dtype overridden with `{src(dt)}`", fi, c)
            else:
                shp = kw.get("shape")
                ctx.check("R33.4", key, True if shp is not None and src(shp).replace(" ", "") in (f"(length,)+jnp.shape({x})", f"(length,)+{x}.shape", f"(length,*jnp.shape({x}))") else None,
                          f"shape {src(shp) if shp is not None else None}", fi, c)
        else:
            dt = kw.get("dtype") or (c.args[2] if nm == "full" and len(c.args) > 2 else (c.args[1] if nm != "full" and len(c.args) > 1 else None))
            if dt is None:
                ctx.bad("R33.4", key, "no dtype given: the buffer is float by default whatever the mapped function returns", fi, c)
            elif src(dt) in (f"{x}.dtype", f"jnp.result_type({x})", f"jnp.asarray({x}).dtype"):
                ctx.ok("R33.4", key, None, fi, c)
            else:
                ctx.bad("R33.4", key, f"dtype `{src(dt)}` is not the dtype of the mapped output `{x}`", fi, c)


def r33_5(ctx, m):
    """stack / unstack are inverse to each other along one axis"""
    ctx.rule("R33.5", "forest_math.stack joins the leaves with jnp.stack(..., axis=axis); unstack splits every leaf into its "
                      "shape[axis]... pieces along that axis and removes exactly that axis again (squeeze with axis=axis): a squeeze "
                      "without axis also removes genuine length-1 dimensions of the leaves", floor=2)
    st_, us = m.func(FMM, "stack", required=False), m.func(FMM, "unstack", required=False)
    if st_ is None or us is None:
        ctx.error("R33.5: stack/unstack missing")
        return
    ctx.saw_func(st_)
    ctx.saw_func(us)
    ax = st_.params()[1] if len(st_.params()) > 1 else None
    calls = [c for c in ast.walk(st_.node) if isinstance(c, ast.Call) and call_name(c) == "stack" and src(c.func) != "stack"]
    ok = len(calls) == 1 and any(k.arg == "axis" and src(k.value) == ax for k in calls[0].keywords)
    ctx.check("R33.5", f"{st_.key}::jnp.stack along `{ax}`", ok if calls else None, src(calls[0]) if calls else None, st_)
    ax = us.params()[1] if len(us.params()) > 1 else None
    sq = [x for x in ast.walk(us.node) if (isinstance(x, ast.Attribute) and x.attr == "squeeze") or (isinstance(x, ast.Name) and x.id == "squeeze")]
    key = f"{us.key}::removes exactly the split axis"
    if len(sq) != 1:
        ctx.und("R33.5", key, f"{len(sq)} squeeze references", us)
        return
    # the enclosing call: partial(jnp.squeeze, axis=axis) or jnp.squeeze(x, axis=axis)
    pm = {}
    for p_ in ast.walk(us.node):
        for c_ in ast.iter_child_nodes(p_):
            pm[id(c_)] = p_
    par = pm.get(id(sq[0]))
    if isinstance(par, ast.Call) and (par.func is sq[0] or (call_name(par) == "partial" and par.args and par.args[0] is sq[0])):
        kws = {k.arg: src(k.value) for k in par.keywords}
        posax = src(par.args[1]) if par.func is sq[0] and len(par.args) > 1 else None
        given = kws.get("axis") or posax
        if given is None:
            ctx.bad("R33.5", key, f"`{src(par)}` squeezes every length-1 axis", us, par)
        else:
            ctx.check("R33.5", key, given == ax, f"`{src(par)}`", us, par)
    else:
        ctx.bad("R33.5", key, f"`{src(sq[0])}` is used without an axis argument: every length-1 axis is removed", us, sq[0])
    sp = [c for c in ast.walk(us.node) if isinstance(c, ast.Call) and (call_name(c) == "partial" and c.args and src(c.args[0]).endswith("split") or call_name(c) == "split")]
    okk = len(sp) == 1 and any(k.arg == "axis" and src(k.value) == ax for k in sp[0].keywords)
    ctx.check("R33.5", f"{us.key}::splits along `{ax}`", okk if sp else None, src(sp[0]) if sp else None, us)
    # the number of pieces is the length of the split axis
    key = f"{us.key}::number of pieces = length of axis `{ax}`"
    cnt = None
    if sp:
        ks = {k.arg: k.value for k in sp[0].keywords}
        cnt = ks.get("indices_or_sections")
    defs = [st for st in walk_no_nested(us.node) if isinstance(st, ast.Assign) and cnt is not None and isinstance(cnt, ast.Name)
            and len(st.targets) == 1 and src(st.targets[0]) == cnt.id]
    e = defs[0].value if defs else cnt
    subs = [z for z in ast.walk(e)] if e is not None else []
    shp = [z for z in subs if isinstance(z, ast.Subscript) and isinstance(z.value, ast.Attribute) and z.value.attr == "shape"]
    if len(shp) == 1:
        ctx.check("R33.5", key, src(shp[0].slice) == ax, f"`{src(e)}`" + ("" if src(shp[0].slice) == ax else f": counts along axis {src(shp[0].slice)} whatever `{ax}` is"), us, shp[0])
    else:
        ctx.und("R33.5", key, f"piece count `{src(e) if e is not None else None}` not of the form <leaf>.shape[<axis>]", us)


_run_c33c = run


def run(ctx):  # noqa: F811
    _run_c33c(ctx)
    r33_4(ctx, ctx.model)
    r33_5(ctx, ctx.model)


# ---------------------------------------------------------------------------------------------------------------- R33.6
def r33_6(ctx, m):
    R = "R33.6"
    ctx.rule(R, "vector_math.where(condition, x, y): the structure every operand is broadcast to is chosen among the structures of ALL "
                "THREE arguments (a pytree condition with two scalar branches is a legal np.where pattern), and each of the three "
                "operands is compared against it before the leaf-wise jnp.where", floor=2)
    mod = m.module(VM)
    fi = next((f for f in mod.all_functions if f.name == "where" and f.parent is None), None)
    if fi is None:
        ctx.und(R, f"{VM}::where", "function missing", mod.relpath)
        return
    ctx.saw_func(fi)
    ps = fi.params()[:3]
    struct = {}
    for st in walk_no_nested(fi.node):
        if isinstance(st, ast.Assign) and len(st.targets) == 1 and isinstance(st.targets[0], ast.Name) and isinstance(st.value, ast.Call) \
                and call_name(st.value) == "tree_structure" and st.value.args and src(st.value.args[0]) in ps:
            struct[st.targets[0].id] = src(st.value.args[0])
    tgt = [st for st in walk_no_nested(fi.node) if isinstance(st, ast.Assign) and len(st.targets) == 1 and isinstance(st.targets[0], ast.Name)
           and st.targets[0].id not in struct and {struct[z.id] for z in ast.walk(st.value) if isinstance(z, ast.Name) and z.id in struct}]
    key = f"{fi.key}::broadcast target chosen among condition, x and y"
    if not tgt or len(struct) != 3:
        ctx.und(R, key, f"structures {struct}; target selection not found", fi)
        return
    st = tgt[0]
    used = {struct[z.id] for z in ast.walk(st.value) if isinstance(z, ast.Name) and z.id in struct}
    ctx.check(R, key, used == set(ps), f"`{short(st, 90)}` considers {sorted(used)}" + ("" if used == set(ps) else f"; {sorted(set(ps) - used)} is never a candidate"), fi, st)
    tn = st.targets[0].id
    cmp_ = set()
    for z in walk_no_nested(fi.node):
        if isinstance(z, ast.Compare) and tn in src(z):
            cmp_ |= {struct[q.id] for q in ast.walk(z) if isinstance(q, ast.Name) and q.id in struct}
    ctx.check(R, f"{fi.key}::every operand is compared with the target structure", cmp_ == set(ps), f"compared: {sorted(cmp_)}", fi)


_run_c33d = run


def run(ctx):  # noqa: F811
    _run_c33d(ctx)
    r33_6(ctx, ctx.model)


# ---------------------------------------------------------------------------------------------------------------- R33.7
def r33_7(ctx, m):
    R = "R33.7"
    ctx.rule(R, "forest_math.mean_and_std: second moments are Hermitian - every square entering the variance (of a tree of the forest "
                "and of the mean) is the square of an absolute value (or a product with the conjugate); a plain square gives the "
                "pseudo-variance and a complex 'standard deviation' for complex trees", floor=2)
    fi = m.func(FMM, "mean_and_std", required=False)
    if fi is None:
        ctx.und(R, f"{FMM}::mean_and_std", "function missing", FMM)
        return
    ctx.saw_func(fi)
    n = 0
    for z in ast.walk(fi.node):
        if isinstance(z, ast.BinOp) and isinstance(z.op, ast.Pow) and isinstance(z.right, ast.Constant) and z.right.value == 2:
            n += 1
            b = z.left
            herm = isinstance(b, ast.Call) and call_name(b) in ("abs", "absolute", "fabs")
            ctx.check(R, f"{fi.key}::`{src(z)}` is a squared modulus", herm, None if herm else f"`{src(z)}` squares a possibly complex value without the modulus", fi, z)
    if not n:
        ctx.und(R, f"{fi.key}::squares", "no squares found (variance computed differently)", fi)


_run_c33e = run


def run(ctx):  # noqa: F811
    _run_c33e(ctx)
    r33_7(ctx, ctx.model)


# ---------------------------------------------------------------------------------------------------------------- R33.8
def r33_8(ctx, m):
    R = "R33.8"
    ctx.rule(R, "custom_map._generic_smap: all three documented forms of the axis specifications (None = unmapped, int = the same axis "
                "for every leaf, tree) are expanded against the tree they describe: on a path where the specification is known to be "
                "None it is not itself flattened/used as data (tree_flatten(None) is the empty list and pairs with nothing), the "
                "per-leaf list is built from the mapped output / input", floor=1)
    from ..util import cfg_of, find_nodes, known_atoms
    fi = m.func("nifty.re.custom_map", "_generic_smap", required=False)
    if fi is None:
        ctx.und(R, "nifty.re.custom_map::_generic_smap", "function missing", "nifty/re/custom_map.py")
        return
    ctx.saw_func(fi)
    cfg = cfg_of(fi)
    rd = cfg.reaching_defs(params=fi.params())
    n = 0
    for spec in ("out_axes",):  # jax.vmap itself refuses in_axes=None
        if spec not in fi.params():
            continue
        tests = [t for t in cfg.nodes if t.kind == "test" and src(t.ast).replace(" ", "") == f"{spec}isNone"]
        if not tests:
            ctx.und(R, f"{fi.key}::{spec}=None", f"no branch for {spec} is None (vmap accepts it)", fi)
            n += 1
            continue
        for node, call in find_nodes(cfg, lambda q: isinstance(q, ast.Call) and any(isinstance(a, ast.Name) and a.id == spec for a in q.args)):
            at = known_atoms(cfg, node.id)
            defs = (rd.get(node.id) or {}).get(spec) or ()
            if any(cfg.nodes[d].kind != "entry" and cfg.nodes[d].ast is not None for d in defs):
                continue  # re-bound on this path: no longer the None that was tested
            if any(src(t).replace(" ", "") == f"{spec}isNone" and pol for t, pol in at):
                n += 1
                ctx.bad(R, f"{fi.key}::{spec} known to be None is not used as data", f"`{short(call, 60)}` under `{spec} is None`: flattens/uses None itself", fi, call)
        # positive: the None branch builds the list from the described tree
        for t in tests:
            body = t.ast if isinstance(t.ast, ast.If) else None
        ifs = [s for s in ast.walk(fi.node) if isinstance(s, ast.If) and src(s.test).replace(" ", "") == f"{spec}isNone"]
        for s in ifs:
            n += 1
            uses_tree = any(isinstance(c, ast.Call) and call_name(c) in ("tree_map", "tree_flatten", "tree_leaves", "tree_structure")
                            and any(isinstance(a, ast.Name) and a.id not in (spec,) and a.id in ("y", "x", "args") for a in ast.walk(c)) for b in s.body for c in ast.walk(b))
            raises = any(isinstance(b, ast.Raise) for b in s.body)
            ctx.check(R, f"{fi.key}::{spec}=None expands against the described tree", True if (uses_tree or raises) else None,
                      f"branch body: {[short(b, 60) for b in s.body]}", fi, s)
    if not n:
        ctx.und(R, f"{fi.key}::axis specifications", "no None branch found", fi)


_run_c33f = run


def run(ctx):  # noqa: F811
    _run_c33f(ctx)
    r33_8(ctx, ctx.model)


# ---------------------------------------------------------------------------------------------------------------- R33.9
def r33_9(ctx, m):
    R = "R33.9"
    ctx.rule(R, "a nifty.re container that is both a SEQUENCE for NumPy (__len__ with __getitem__ or __iter__) and defines reflected "
                "arithmetic operators opts out of NumPy's ufunc dispatch (`__array_ufunc__ = None`, or an own __array_ufunc__ / "
                "__array_priority__): otherwise `np.float64(2.) * v` is evaluated by np.multiply on the vector converted to an array "
                "- a bare ndarray without the tree structure (or a UFuncTypeError for dict trees) - while `v * np.float64(2.)` is right",
             floor=1)
    n = 0
    for c in sorted(m.all_classes(), key=lambda c_: c_.module.name + "." + c_.qualname):
        if not c.module.name.startswith("nifty.re"):
            continue
        names = set()
        for st in c.node.body:
            if isinstance(st, (ast.FunctionDef,)):
                names.add(st.name)
            elif isinstance(st, ast.Assign):
                for t in st.targets:
                    for e in (t.elts if isinstance(t, ast.Tuple) else [t]):
                        if isinstance(e, ast.Name):
                            names.add(e.id)
        refl = sorted(x for x in names if x in ("__radd__", "__rsub__", "__rmul__", "__rtruediv__", "__rpow__", "__rmatmul__", "__rfloordiv__", "__rmod__"))
        seq = "__len__" in names and ({"__getitem__", "__iter__"} & names)
        if not refl or not seq:
            continue
        n += 1
        opt = names & {"__array_ufunc__", "__array_priority__"}
        key = f"{c.module.relpath}::{c.qualname}::defers NumPy left operands to its reflected operators"
        ctx.check(R, key, bool(opt), f"defines {', '.join(refl[:3])}... and the sequence protocol; " + (f"opts out through {sorted(opt)}" if opt else
                  "neither __array_ufunc__ nor __array_priority__ is set: a NumPy scalar on the left consumes it as a sequence"), c.module.relpath, c.node)
    if not n:
        ctx.und(R, "nifty.re::sequence-like containers with reflected operators", "none found", "nifty/re/tree_math/vector.py")


_run_c33g = run


def run(ctx):  # noqa: F811
    _run_c33g(ctx)
    r33_9(ctx, ctx.model)
