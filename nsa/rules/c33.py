"""C33 - pytree vector arithmetic: the operator table of Vector binds every dunder to its own operator
with the right operand order."""
import ast

from ..model import src, short, walk_no_nested, call_name

MOD = "nifty.re.tree_math.vector"
ALIASES = {"or_": "or", "and_": "and", "not_": "not", "inv": "invert", "truediv": "truediv"}
BIN = ["add", "sub", "mul", "truediv", "floordiv", "pow", "mod", "or", "xor", "and", "lshift", "rshift"]
CMP = ["lt", "le", "eq", "ne", "ge", "gt"]
UNARY = ["neg", "pos", "abs", "invert"]


def _opname(e):
    """operator.add -> 'add' (aliases folded), jnp.conj -> 'conj'"""
    if isinstance(e, ast.Attribute):
        return ALIASES.get(e.attr, e.attr)
    return None


def run(ctx):
    m = ctx.model
    mod = m.module(MOD)
    V = m.cls(MOD, "Vector")
    ctx.saw_class(V)
    ctx.rule("R33.1", "Vector's dunder table: every arithmetic/comparison/unary dunder is bound to its own operator; "
                      "forward variants pass (lhs, rhs), reflected variants (rhs, lhs); divmod keeps operand order; "
                      "conj/real/imag map to their jnp namesakes", floor=30)
    # helper semantics: which argument order each factory uses
    order = {}
    for fname in ("_binary_op", "_rev_binary_op"):
        fi = mod.functions.get(fname)
        if fi is None:
            ctx.error(f"{MOD}.{fname} missing")
            return
        ctx.saw_func(fi)
        inner = [n for n in fi.node.body if isinstance(n, ast.FunctionDef)]
        got = None
        if inner:
            ps = [a.arg for a in inner[0].args.args]
            for c in ast.walk(inner[0]):
                if isinstance(c, ast.Call) and call_name(c) == "_broadcast_binary_op" and len(c.args) == 3:
                    got = (src(c.args[1]), src(c.args[2]), ps)
        order[fname] = got
    b = order["_binary_op"]
    r = order["_rev_binary_op"]
    ctx.check("R33.1", f"{MOD}::_binary_op applies op(lhs, rhs)", b is not None and (b[0], b[1]) == (b[2][0], b[2][1]), str(b), mod.functions["_binary_op"])
    ctx.check("R33.1", f"{MOD}::_rev_binary_op applies op(rhs, lhs)", r is not None and (r[0], r[1]) == (r[2][1], r[2][0]), str(r), mod.functions["_rev_binary_op"])
    bb = mod.functions.get("_broadcast_binary_op")
    if bb is not None:
        ctx.saw_func(bb)
        rets = [n for n in walk_no_nested(bb.node) if isinstance(n, ast.Return)]
        ps = bb.params()
        okk = len(rets) == 1 and isinstance(rets[0].value, ast.Call) and call_name(rets[0].value) == "tree_map" \
            and [src(a) for a in rets[0].value.args] == ps[:3]
        ctx.check("R33.1", f"{MOD}::_broadcast_binary_op maps op over (lhs, rhs) in order", okk, None, bb)
    fr = mod.functions.get("_fwd_rev_binary_op")
    if fr is None:
        ctx.error("_fwd_rev_binary_op missing")
        return
    ctx.saw_func(fr)
    rets = [n for n in walk_no_nested(fr.node) if isinstance(n, ast.Return)]
    okk = len(rets) == 1 and isinstance(rets[0].value, ast.Tuple) and len(rets[0].value.elts) == 2 and \
        call_name(rets[0].value.elts[0]) == "_binary_op" and call_name(rets[0].value.elts[1]) == "_rev_binary_op" and \
        src(rets[0].value.elts[0].args[0]) == src(rets[0].value.elts[1].args[0]) == fr.params()[0]
    ctx.check("R33.1", f"{MOD}::_fwd_rev_binary_op returns (forward, reflected) of the same op", okk, None, fr)
    # the class table
    seen = set()
    for st in V.node.body:
        if not isinstance(st, ast.Assign):
            continue
        v = st.value
        tg = st.targets
        names = []
        for t in tg:
            names += [e.id for e in (t.elts if isinstance(t, ast.Tuple) else [t]) if isinstance(e, ast.Name)]
        if isinstance(v, ast.Call) and call_name(v) in ("_fwd_rev_binary_op", "_binary_op", "_unary_op", "_rev_binary_op"):
            fac = call_name(v)
            op = _opname(v.args[0]) if v.args else None
            if len(v.args) > 1 and isinstance(v.args[1], ast.Constant):
                op_label = v.args[1].value
            else:
                op_label = op
            key = f"{V.key}::{', '.join(names)} = {src(v)}"
            if fac == "_fwd_rev_binary_op":
                good = len(names) == 2 and names[0] == f"__{op}__" and names[1] == f"__r{op}__" and op in BIN and op_label == op
                seen.update(names)
                ctx.check("R33.1", key, good, f"dunders {names} bound to operator `{op}`", V, st)
            elif fac == "_binary_op":
                good = all(n == f"__{op}__" for n in names) and (op in CMP or op in BIN)
                seen.update(names)
                ctx.check("R33.1", key, good, f"dunders {names} bound to operator `{op}`", V, st)
            elif fac == "_unary_op":
                good = all(n == f"__{op}__" for n in names if n.startswith("__")) and \
                    all(n in (op, {"conj": "conjugate"}.get(op, op)) for n in names if not n.startswith("__"))
                seen.update(names)
                ctx.check("R33.1", key, good, f"{names} bound to `{op}`", V, st)
        elif isinstance(v, ast.Call) and call_name(v) == "property" and v.args and isinstance(v.args[0], ast.Call) \
                and call_name(v.args[0]) == "_unary_op":
            op = _opname(v.args[0].args[0])
            ctx.check("R33.1", f"{V.key}::{', '.join(names)} = {src(v)}", names == [op], f"{names} bound to `{op}`", V, st)
            seen.update(names)
        elif isinstance(v, ast.Name) and v.id == "matmul":
            seen.update(names)
            ctx.ok("R33.1", f"{V.key}::{', '.join(names)} = matmul", "commutative contraction", V, st)
    for dm, first in (("__divmod__", 1), ("__rdivmod__", 0)):
        fi = V.methods.get(dm)
        if fi is None:
            continue
        ctx.saw_func(fi)
        seen.add(dm)
        a0, a1 = fi.params()[:2]
        rr = [n for n in walk_no_nested(fi.node) if isinstance(n, ast.Return)]
        exp = (f"({a0} // {a1}, {a0} % {a1})" if dm == "__divmod__" else f"({a1} // {a0}, {a1} % {a0})")
        ctx.check("R33.1", f"{fi.key}::operand order", len(rr) == 1 and src(rr[0].value) == exp, f"returns {src(rr[0].value) if rr else None}, expected {exp}", fi)
    want = {f"__{o}__" for o in BIN + CMP + UNARY} | {f"__r{o}__" for o in BIN}
    missing = sorted(want - seen)
    ctx.check("R33.1", f"{V.key}::all arithmetic dunders are bound", not missing, f"missing {missing}", V)
