"""C34 (clause) - structure of the Lanczos recurrence, the quadrature rules and the ELBO assembly.

Decided on terms / structure: the three-term recurrence of `_lanczos_tridiag`, the Gauss and Gauss-Radau quadrature formulas,
the trace scaling of the stochastic estimator, and the way both `estimate_evidence_lower_bound` implementations assemble an ELBO
sample from trace-log, dimension, sample energy and prior term (with the sibling comparison of the two).
Not decided: convergence / exactness in the limit, eigenvalue accuracy, the SLQ error estimates.
"""
import ast

from ..model import src, short, walk_no_nested, call_name
from ..poly import poly, p_str
from ..terms import inline_at
from ..util import cfg_of, find_nodes, known_atoms

LZ = "nifty.re.num.lanczos"
EJ = "nifty.re.evidence_lower_bound"
EC = "nifty.cl.evidence_lower_bound"


def _n(e):
    return src(e).replace(" ", "")


def run(ctx):
    m = ctx.model
    r34_1(ctx, m)
    r34_2(ctx, m)
    r34_3(ctx, m)


# ---------------------------------------------------------------------------------------------------------------- Lanczos
def r34_1(ctx, m):
    mod = m.module(LZ)
    lt = mod.functions.get("_lanczos_tridiag")
    ctx.rule("R34.1", "Lanczos step (three-term recurrence): w = A v_j; alpha_j = <v_j, w>; w <- w - alpha_j v_j - beta_(j-1) v_(j-1) "
                      "(the last term only for j > 0); beta_j = ||w||; v_(j+1) = w / beta_j; alpha_j, beta_j are stored at position j; "
                      "the carried (previous, current) vectors become (current, next); off-diagonal = beta[:-1]; an exhausted "
                      "recurrence (beta <= eps) freezes the state", floor=8)
    if lt is None:
        ctx.error("_lanczos_tridiag missing")
        return
    ctx.saw_func(lt)
    steps = [f for f in ast.walk(lt.node) if isinstance(f, ast.FunctionDef) and f.name != lt.node.name and any(
        isinstance(c, ast.Call) and call_name(c) == "matvec" for c in walk_no_nested(f))]
    key = f"{lt.key}::step body"
    if len(steps) != 1:
        ctx.und("R34.1", key, f"{len(steps)} nested functions call matvec", lt)
        return
    st = steps[0]
    outer = [f for f in ast.walk(lt.node) if isinstance(f, ast.FunctionDef) and any(x is st for x in f.body)]
    ivar = outer[0].args.args[0].arg if outer else "i"
    # state unpacking
    unp = [s_ for s_ in st.body if isinstance(s_, ast.Assign) and isinstance(s_.targets[0], ast.Tuple) and isinstance(s_.value, ast.Name)
           and s_.value.id == st.args.args[0].arg]
    if len(unp) != 1:
        ctx.und("R34.1", key, "state tuple unpacking not found", lt)
        return
    names = [src(x) for x in unp[0].targets[0].elts]
    # role identification by use: the vector given to matvec is "current"
    mv = [c for c in walk_no_nested(st) if isinstance(c, ast.Call) and call_name(c) == "matvec"]
    cur = src(mv[0].args[0])
    wdefs = [s_ for s_ in st.body if isinstance(s_, ast.Assign) and isinstance(s_.targets[0], ast.Name)]
    env = {}
    for s_ in wdefs:
        env.setdefault(src(s_.targets[0]), []).append(s_.value)
    wname = None
    for k, vs in env.items():
        if any(v is mv[0] for v in vs):
            wname = k
    if wname is None:
        ctx.und("R34.1", key, "w = matvec(v) not found", lt)
        return
    # alpha
    adef = [(k, v) for k, vs in env.items() for v in vs if isinstance(v, ast.Call) and call_name(v) in ("dot", "vdot") and sorted(_n(a) for a in v.args) == sorted([cur, wname])]
    ctx.check("R34.1", f"{lt.key}::alpha_j = <v_j, A v_j>", len(adef) == 1, f"{[(k, src(v)) for k, v in adef]}", lt)
    aname = adef[0][0] if adef else None
    # three-term update
    upd = [v for v in env.get(wname, []) if isinstance(v, ast.BinOp) and isinstance(v.op, ast.Sub)]
    okk, det, prev, bname_arr = None, None, None, None
    if upd and aname:
        u = upd[0]
        det = src(u)
        # w - a*v - where(i > 0, beta[i-1]*v_prev, 0.0)
        t3 = u.right
        t12 = u.left
        okk = isinstance(t12, ast.BinOp) and isinstance(t12.op, ast.Sub) and _n(t12.left) == wname and sorted(_n(t12.right).split("*")) == sorted([aname, cur])
        if isinstance(t3, ast.Call) and call_name(t3) == "where" and len(t3.args) == 3:
            cond, tv, fv = t3.args
            okk = okk and _n(cond) in (f"{ivar}>0", f"0<{ivar}") and _n(fv) in ("0.0", "0")
            if isinstance(tv, ast.BinOp) and isinstance(tv.op, ast.Mult):
                parts = [tv.left, tv.right]
                sub = [p for p in parts if isinstance(p, ast.Subscript)]
                vec = [p for p in parts if isinstance(p, ast.Name)]
                if len(sub) == 1 and len(vec) == 1 and _n(sub[0].slice) == f"{ivar}-1":
                    prev = vec[0].id
                    bname_arr = src(sub[0].value)
                else:
                    okk = False
            else:
                okk = False
        else:
            okk = False
        okk = okk and prev in names and cur in names and prev != cur
    ctx.check("R34.1", f"{lt.key}::w <- w - alpha_j v_j - beta_(j-1) v_(j-1) (last term only for j > 0)", okk, det, lt)
    # beta, next vector
    bdef = [(k, v) for k, vs in env.items() for v in vs if isinstance(v, ast.Call) and call_name(v) == "norm" and _n(v.args[0]) == wname]
    ctx.check("R34.1", f"{lt.key}::beta_j = ||w||", len(bdef) == 1, f"{[(k, src(v)) for k, v in bdef]}", lt)
    bname = bdef[0][0] if bdef else None
    goods = [k for k, vs in env.items() for v in vs if isinstance(v, ast.Compare) and _n(v) in (f"{bname}>eps", f"eps<{bname}")]
    nxt = [(k, v) for k, vs in env.items() for v in vs if isinstance(v, ast.Call) and call_name(v) == "where" and len(v.args) == 3
           and isinstance(v.args[1], ast.BinOp) and isinstance(v.args[1].op, ast.Div) and _n(v.args[1].left) == wname]
    okn = len(nxt) == 1 and len(goods) == 1 and _n(nxt[0][1].args[0]) == goods[0] and _n(nxt[0][1].args[2]) == cur
    den = _n(nxt[0][1].args[1].right) if nxt else None
    dd = [v for v in env.get(den, [])] if den else []
    okn = okn and len(dd) == 1 and isinstance(dd[0], ast.Call) and call_name(dd[0]) == "where" and _n(dd[0].args[0]) == goods[0] and _n(dd[0].args[1]) == bname
    ctx.check("R34.1", f"{lt.key}::v_(j+1) = w / beta_j while beta_j > eps (unchanged vector otherwise)", okn, src(nxt[0][1]) if nxt else None, lt)
    vnext = nxt[0][0] if nxt else None
    # stores at position j
    sets = {}
    for k, vs in env.items():
        for v in vs:
            if isinstance(v, ast.Call) and isinstance(v.func, ast.Attribute) and v.func.attr == "set" and isinstance(v.func.value, ast.Subscript) \
                    and isinstance(v.func.value.value, ast.Attribute) and v.func.value.value.attr == "at":
                sets[k] = (_n(v.func.value.value.value), _n(v.func.value.slice), _n(v.args[0]))
    a_arr = [k for k, (base, idx, val) in sets.items() if val == aname and idx == ivar and base == k]
    b_arr = [k for k, (base, idx, val) in sets.items() if val == bname and idx == ivar and base == k]
    ctx.check("R34.1", f"{lt.key}::alpha_j and beta_j are stored at position j of their arrays (and beta_(j-1) is read from the same array)",
              len(a_arr) == 1 and len(b_arr) == 1 and b_arr[0] == bname_arr, f"{sets}", lt)
    # returned state: positions of (prev, cur) receive (cur, next)
    rets = [r for r in walk_no_nested(st) if isinstance(r, ast.Return) and isinstance(r.value, ast.Tuple)]
    okr = None
    if len(rets) == 1 and prev and vnext and len(rets[0].value.elts) == len(names):
        out = [_n(x) for x in rets[0].value.elts]

        def resolve(nm):
            vs = env.get(nm, [])
            return _n(vs[-1]) if len(vs) == 1 and isinstance(vs[0], ast.Name) else nm
        okr = resolve(out[names.index(prev)]) == cur and resolve(out[names.index(cur)]) == vnext and \
            (not a_arr or out[names.index(a_arr[0])] == a_arr[0]) and (not b_arr or out[names.index(b_arr[0])] == b_arr[0])
        det = f"state {names} -> {out}"
    ctx.check("R34.1", f"{lt.key}::carried vectors (previous, current) become (current, next)", okr, det if okr is not None else None, lt)
    # alive flag and freeze
    conds = [c for c in ast.walk(lt.node) if isinstance(c, ast.Call) and call_name(c) == "cond" and len(c.args) >= 3 and _n(c.args[1]) == st.name]
    okc = len(conds) == 1 and isinstance(conds[0].args[2], ast.Lambda) and _n(conds[0].args[2].body) == conds[0].args[2].args.args[0].arg
    ctx.check("R34.1", f"{lt.key}::an exhausted recurrence keeps its state (cond(alive, step, identity))", okc, src(conds[0])[:120] if conds else None, lt)
    offd = [s_ for s_ in walk_no_nested(lt.node) if isinstance(s_, ast.Assign) and _n(s_.value).endswith("[:-1]")]
    loopc = [c for c in ast.walk(lt.node) if isinstance(c, ast.Call) and call_name(c) == "fori_loop" and len(c.args) == 4]
    okk = len(offd) == 1 and len(loopc) == 1 and _n(loopc[0].args[0]) == "0" and _n(loopc[0].args[1]) == "order"
    ctx.check("R34.1", f"{lt.key}::`order` steps from 0; off-diagonal = beta[:-1]", okk, src(offd[0]) if offd else None, lt)


# ---------------------------------------------------------------------------------------------------------------- quadrature
def r34_2(ctx, m):
    mod = m.module(LZ)
    ctx.rule("R34.2", "quadrature: the dense tridiagonal is symmetric (off-diagonal on +1 and -1); e1^T f(T) e1 = sum_k (first component "
                      "of eigenvector k)^2 f(theta_k); Gauss-Radau modifies the last diagonal entry to mu + beta_last^2 * sum_k "
                      "(last component_k)^2 / (theta_k - mu) of the leading block; the trace estimate is dimension * mean of the unit "
                      "quadratures", floor=5)
    dt = mod.functions.get("_dense_tridiag")
    if dt is not None:
        ctx.saw_func(dt)
        a, o = dt.params()[:2]
        rr = [r for r in walk_no_nested(dt.node) if isinstance(r, ast.Return)]
        terms = sorted(_n(rr[0].value).split("+")) if rr else []
        ctx.check("R34.2", f"{dt.key}::diag(alpha) + diag(off, 1) + diag(off, -1)",
                  terms == sorted([f"jnp.diag({a})", f"jnp.diag({o},1)", f"jnp.diag({o},-1)"]), str(terms), dt)
    qe = mod.functions.get("_quadrature_from_eigh")
    if qe is not None:
        ctx.saw_func(qe)
        ev, fc, f_ = qe.params()[:3]
        tdef = [s_ for s_ in walk_no_nested(qe.node) if isinstance(s_, ast.Assign) and isinstance(s_.value, ast.BinOp) and isinstance(s_.value.op, ast.Mult)
                and f"{fc}**2" in _n(s_.value)]
        fe = [s_ for s_ in walk_no_nested(qe.node) if isinstance(s_, ast.Assign) and isinstance(s_.value, ast.Call) and call_name(s_.value) == "_apply_f_safely"]
        okk = len(tdef) == 1 and len(fe) == 1 and sorted(_n(tdef[0].value).split("*", 1)) is not None and \
            _n(tdef[0].value) in (f"{fc}**2*{src(fe[0].targets[0])}", f"{src(fe[0].targets[0])}*{fc}**2") and \
            [_n(x) for x in fe[0].value.args[:2]] == [f_, ev]
        rr = [r for r in walk_no_nested(qe.node) if isinstance(r, ast.Return)]
        okk = okk and all(call_name(r.value) in ("sum", "nansum") and _n(r.value.args[0]) == src(tdef[0].targets[0]) for r in rr) and bool(rr)
        ctx.check("R34.2", f"{qe.key}::sum_k (first eigenvector component)^2 * f(eigenvalue_k)", okk, src(tdef[0].value) if tdef else None, qe)
    gm = mod.functions.get("_gauss_unit_multi")
    if gm is not None:
        ctx.saw_func(gm)
        calls = [c for c in ast.walk(gm.node) if isinstance(c, ast.Call) and call_name(c) == "_quadrature_from_eigh"]
        eg = [s_ for s_ in walk_no_nested(gm.node) if isinstance(s_, ast.Assign) and isinstance(s_.value, ast.Call) and call_name(s_.value) == "eigh"]
        okk = len(calls) == 1 and len(eg) == 1 and isinstance(eg[0].targets[0], ast.Tuple)
        if okk:
            evn, vcn = [src(x) for x in eg[0].targets[0].elts]
            okk = [_n(x) for x in calls[0].args[:2]] == [evn, f"{vcn}[0,:]"]
            tdef = [s_ for s_ in walk_no_nested(gm.node) if isinstance(s_, ast.Assign) and src(s_.targets[0]) == _n(eg[0].value.args[0])]
            okk = okk and len(tdef) == 1 and _n(tdef[0].value) == f"_dense_tridiag({gm.params()[0]},{gm.params()[1]})"
        ctx.check("R34.2", f"{gm.key}::eigen-decomposition of the tridiagonal; weights from the FIRST row of the eigenvector matrix", okk,
                  src(calls[0])[:120] if calls else None, gm)
    ru = mod.functions.get("_radau_unit")
    if ru is not None:
        ctx.saw_func(ru)
        al, of, mu = ru.params()[:3]
        inner = [f for f in ast.walk(ru.node) if isinstance(f, ast.FunctionDef) and any(isinstance(c, ast.Call) and call_name(c) == "eigh" for c in ast.walk(f)) and f is not ru.node]
        okk, det = None, None
        if len(inner) == 1:
            cfg = cfg_of_node(inner[0])
            rd = cfg.reaching_defs([a.arg for a in inner[0].args.args])
            sets = find_nodes(cfg, lambda q: isinstance(q, ast.Call) and isinstance(q.func, ast.Attribute) and q.func.attr == "set"
                              and isinstance(q.func.value, ast.Subscript) and _n(q.func.value.value) == f"{al}.at")
            if len(sets) == 1:
                n, c = sets[0]
                e = inline_at(cfg, rd, n.id, c.args[0], depth=4)
                det = _n(e)
                # mu + beta_last**2 * sum(leading_evecs[-1,:]**2 / where(separated, leading_evals - mu, 1.0))
                bl = [s_ for s_ in walk_no_nested(ru.node) if isinstance(s_, ast.Assign) and _n(s_.value) == f"{of}[-1]"]
                bln = src(bl[0].targets[0]) if bl else "?"
                okk = (det.startswith(f"{mu}+{bln}**2*jnp.sum(") or (det.startswith(f"{mu}+jnp.sum(") and det.endswith(f"*{bln}**2"))) and "[-1,:]**2/" in det and f"-{mu}" in det and \
                    _n(c.func.value.slice) in ("m-1", "-1", f"{al}.shape[0]-1")
                lead = [s_ for s_ in walk_no_nested(inner[0]) if isinstance(s_, ast.Assign) and isinstance(s_.value, ast.Call) and call_name(s_.value) == "_dense_tridiag"]
                okk = okk and any(_n(s_.value) == f"_dense_tridiag({al}[:-1],{of}[:-1])" for s_ in lead)
        ctx.check("R34.2", f"{ru.key}::last diagonal entry becomes mu + beta_last^2 * sum_k (last component_k)^2/(theta_k - mu) of the leading block", okk, det, ru)
    sl = mod.functions.get("stochastic_logdet_from_lanczos")
    if sl is not None:
        ctx.saw_func(sl)
        rr = [r for r in walk_no_nested(sl.node) if isinstance(r, ast.Return)]
        t = _n(rr[0].value) if rr else ""
        n0 = sl.params()[1]
        est = [src(s_.targets[0]) for s_ in walk_no_nested(sl.node) if isinstance(s_, ast.Assign) and "vmap" in src(s_.value) and "_gauss_unit" in src(s_.value)]
        okk = len(est) == 1 and ((t.startswith(f"jnp.asarray({n0},") and t.endswith(f"*jnp.mean({est[0]})")) or
                                 (t.startswith(f"jnp.mean({est[0]})*jnp.asarray({n0},")))
        dg = {src(s_.targets[0]): _n(s_.value) for s_ in walk_no_nested(sl.node) if isinstance(s_, ast.Assign) and "diagonal" in src(s_.value)}
        okk = okk and sorted(("offset=1" in v) for v in dg.values()) == [False, True]
        ctx.check("R34.2", f"{sl.key}::trace estimate = dimension * mean(unit quadratures); alpha = diagonal, off = first off-diagonal", okk, t[:120], sl)


def cfg_of_node(fn):
    from ..cfg import CFG
    return CFG(fn)


# ---------------------------------------------------------------------------------------------------------------- ELBO assembly
def _elbo_terms(ctx, m, modname, rule):
    """returns dict with the normalised terms of one implementation (or None)"""
    fi = m.func(modname, "estimate_evidence_lower_bound")
    ctx.saw_func(fi)
    cfg = cfg_of(fi)
    rd = cfg.reaching_defs(fi.params())
    out = {"fi": fi}
    # the per-sample expression: <posterior> - <energy>(x) - <prior>
    cand = []
    for x in ast.walk(fi.node):
        if isinstance(x, (ast.Lambda, ast.GeneratorExp)):
            body = x.body if isinstance(x, ast.Lambda) else x.elt
            if isinstance(body, ast.BinOp) and isinstance(body.op, ast.Sub) and any(isinstance(c, ast.Call) and "energy" in src(c.func) for c in ast.walk(body)):
                cand.append(body)
    if len(cand) != 1:
        return None
    body = cand[0]
    # find the cfg node that contains it
    host = [n for n, c in find_nodes(cfg, lambda q: q is body or any(y is body for y in ast.walk(q)) and isinstance(q, (ast.Lambda, ast.GeneratorExp)))]
    host = host[-1] if host else None
    if host is None:
        # nested lambda/generator bodies are skipped by find_nodes: use the enclosing statement
        for n in cfg.nodes:
            if n.ast is not None and n.kind == "stmt" and any(y is body for y in ast.walk(n.ast)):
                host = n
    if host is None:
        return None
    out["host"] = host
    out["body"] = body
    # names in the expression
    energy_call = [c for c in ast.walk(body) if isinstance(c, ast.Call) and "energy" in src(c.func)][0]
    out["energy_name"] = src(energy_call.func)
    names = [x.id for x in ast.walk(body) if isinstance(x, ast.Name) and x.id != out["energy_name"] and x is not energy_call.args[0]]
    out["cfg"], out["rd"] = cfg, rd
    # linear form: replace the energy call by symbol E
    import copy

    class R(ast.NodeTransformer):
        def visit_Call(self, node):
            if node is energy_call or _n(node) == _n(energy_call):
                return ast.Name(id="__E", ctx=ast.Load())
            return self.generic_visit(node)
    b2 = R().visit(copy.deepcopy(body))
    env = {x.id: x.id for x in ast.walk(b2) if isinstance(x, ast.Name)}
    try:
        out["sample_form"] = poly(b2, env)
    except KeyError:
        out["sample_form"] = None
    out["free"] = sorted(set(env) - {"__E"})
    return out


def _defs_under(cfg, rd, node_id, name, analytic_name, value):
    """definitions of `name` reaching node_id whose guards are consistent with analytic == value"""
    res = []
    for d in sorted((rd.get(node_id) or {}).get(name, ())):
        dn = cfg.nodes[d]
        if dn.kind != "stmt" or not isinstance(dn.ast, (ast.Assign, ast.AugAssign)):
            continue
        at = known_atoms(cfg, d)
        pol = [p for t, p in at if _n(t) == analytic_name]
        if pol and pol[0] != value:
            continue
        res.append((dn, bool(pol)))
    # a guarded definition overrides the unguarded default when the guard holds
    if value and any(g for _, g in res):
        res = [(dn, g) for dn, g in res if g]
    return [dn for dn, _ in res]


def r34_3(ctx, m):
    from fractions import Fraction
    ctx.rule("R34.3", "ELBO assembly (both implementations): sample = posterior contribution - energy(sample) - prior term with "
                      "posterior contribution = tr_log_lat_cov + metric_size/2, tr_log_lat_cov = -1/2 sum(log eigenvalues) [eigsh], prior "
                      "term = 1/2 (trace_inv_total + |mean|^2) and the likelihood energy when the prior is treated analytically, else 0 "
                      "and the full Hamiltonian; lower error = 1/2 (relevant dofs - #eigenvalues) * min(log eigenvalue); "
                      "elbo_up/elbo_lw = mean +/- std (- lower error); the two implementations agree term by term", floor=10)
    forms = {}
    for modname in (EC, EJ):
        t = _elbo_terms(ctx, m, modname, "R34.3")
        fi = m.func(modname, "estimate_evidence_lower_bound")
        key = f"{fi.key}::ELBO sample"
        if t is None or t.get("sample_form") is None:
            ctx.und("R34.3", key, "per-sample expression not recognised", fi)
            continue
        cfg, rd, host = t["cfg"], t["rd"], t["host"]
        sf = t["sample_form"]
        free = t["free"]
        # expected: +1*post -1*E -1*prior
        coef = {k[0][0] if k else "1": v for k, v in sf.items()}
        post = [k for k, v in coef.items() if v == 1 and k != "__E"]
        prior = [k for k, v in coef.items() if v == -1 and k != "__E"]
        ok = coef.get("__E") == -1 and len(post) == 1 and len(prior) == 1 and len(coef) == 3
        ctx.check("R34.3", key + " = posterior contribution - energy(sample) - prior term", ok, p_str(sf), fi, t["body"])
        if not ok:
            continue
        postn, priorn = post[0], prior[0]
        an = "analytic_prior_term"

        def lin(name, value, depth_stop=()):
            """linear form of `name` at the host under analytic == value (one level of definitions)"""
            defs = _defs_under(cfg, rd, host.id, name, an, value)
            if len(defs) != 1:
                return None, f"{len(defs)} definitions of {name}"
            v = defs[0].ast.value
            # strip Field.scalar(...) / float(...)
            while isinstance(v, ast.Call) and _n(v.func) in ("Field.scalar", "float", "np.float64") and len(v.args) == 1:
                v = v.args[0]
            env = {x.id: x.id for x in ast.walk(v) if isinstance(x, ast.Name)}
            try:
                return poly(v, env), defs[0]
            except KeyError as exc:
                return None, f"{name} = {src(v)} not linear: {exc}"
        pf, d = lin(postn, False)
        okp = pf is not None and sorted(pf.values()) == [Fraction(1, 2), Fraction(1)] and any(k == (("metric_size", 1),) and v == Fraction(1, 2) for k, v in pf.items())
        if pf is not None and not any(k == (("metric_size", 1),) for k in pf):
            okp = None  # role names not found (renamed locals): undecided, not an alarm
        ctx.check("R34.3", f"{fi.key}::posterior contribution = tr_log_lat_cov + metric_size/2", okp, p_str(pf) if pf is not None else str(d), fi)
        trn = [k[0][0] for k, v in (pf or {}).items() if v == 1] if pf else []
        # trace-log (eigsh path): -1/2 * sum(log eigenvalues)
        if trn:
            tdefs = [cfg.nodes[x] for x in sorted((rd.get(host.id) or {}).get(trn[0], ()))]
            eig = []
            for dn in tdefs:
                if dn.kind == "stmt" and isinstance(dn.ast, ast.Assign):
                    e = inline_at(cfg, rd, dn.id, dn.ast.value, depth=2)
                    eig.append(_n(e))
            from ..terms import canon
            want = tuple(canon(w_) for w_ in ("-0.5*np.sum(np.log(eigenvalues))", "-0.5*np.sum(log_np(eigenvalues))"))
            okt = any(canon(x) in want for x in eig)
            if not okt and not any("(eigenvalues)" in x for x in eig):
                okt = None
            ctx.check("R34.3", f"{fi.key}::tr_log_lat_cov = -1/2 sum(log eigenvalues) on the eigen-decomposition path", okt, str(eig)[:200], fi)
        # prior term
        for val in (False, True):
            prf, d = lin(priorn, val)
            en_defs = _defs_under(cfg, rd, host.id, t["energy_name"], an, val)
            en = [_n(x.ast.value) for x in en_defs]
            if isinstance(en_defs[0].ast.value, ast.IfExp) if en_defs else False:
                ie = en_defs[0].ast.value
                en = [_n(ie.body if (val == (_n(ie.test) == an)) else ie.orelse)]
            if not val:
                okq = prf is not None and prf == {} and en in (["hamiltonian"],)
                if prf == {} and en and not any("hamiltonian" == x or "likelihood" in x for x in en):
                    okq = None
                ctx.check("R34.3", f"{fi.key}::without analytic prior: prior term 0, energy = full Hamiltonian", okq, f"prior {p_str(prf) if prf is not None else d}; energy {en}", fi)
            else:
                okq = prf is not None and prf == {(("trace_inv_total", 1),): Fraction(1, 2), (("prior_mean_sq", 1),): Fraction(1, 2)} and \
                    en in (["hamiltonian.likelihood_energy"], ["likelihood"])
                if prf is not None and not ({k[0][0] for k in prf if k} & {"trace_inv_total", "prior_mean_sq"}):
                    okq = None
                ctx.check("R34.3", f"{fi.key}::with analytic prior: prior term = (trace_inv_total + |mean|^2)/2, energy = likelihood only", okq,
                          f"prior {p_str(prf) if prf is not None else d}; energy {en}", fi)
        # lower error of the eigsh path
        from ..terms import canon
        low = [n for n in cfg.nodes if n.kind == "stmt" and isinstance(n.ast, ast.Assign) and "np.min(log_eigenvalues)" in _n(n.ast.value) and "0.5" in _n(n.ast.value)]
        okl = len(low) >= 1 and all(canon(n.ast.value) == canon("0.5*(n_relevant_dofs-log_eigenvalues.size)*np.min(log_eigenvalues)") for n in low)
        if not low:
            okl = None
        ctx.check("R34.3", f"{fi.key}::lower error = 1/2 (relevant dofs - #eigenvalues) * min(log eigenvalue)", okl, "; ".join(_n(n.ast.value) for n in low)[:200], fi)
        # up / lw
        ups = {src(n.ast.targets[0]): _n(n.ast.value) for n in cfg.nodes if n.kind == "stmt" and isinstance(n.ast, ast.Assign) and isinstance(n.ast.targets[0], ast.Name)
               and src(n.ast.targets[0]) in ("elbo_up", "elbo_lw")}
        oku = ups.get("elbo_up") in ("elbo_mean+elbo_var.sqrt()", "elbo_mean+elbo_std") and \
            ups.get("elbo_lw") in ("elbo_mean-elbo_var.sqrt()-stats['lower_error']", "elbo_mean-elbo_std-stats['lower_error']")
        if set(ups) != {"elbo_up", "elbo_lw"}:
            oku = None
        ctx.check("R34.3", f"{fi.key}::elbo_up = mean + std, elbo_lw = mean - std - lower error", oku, str(ups), fi)
        forms[modname] = (p_str(sf).replace(postn, "POST").replace(priorn, "PRIOR"), p_str(pf) if pf is not None else None)
    if len(forms) == 2:
        a, b = forms[EC], forms[EJ]
        fi = m.func(EJ, "estimate_evidence_lower_bound")
        ctx.check("R34.3", f"{EC} <-> {EJ}::sample and posterior-contribution formulas agree", a[0] == b[0] and a[1] is not None and
                  sorted(a[1].replace("tr_log_lat_cov", "T").split(" + ")) == sorted(b[1].replace("tr_log_lat_cov", "T").split(" + ")), f"{a} vs {b}", fi)


# ---------------------------------------------------------------------------------------------------------------- R34.4
def r34_4(ctx, m):
    ctx.rule("R34.4", "sibling sites of the eigen-decomposition agree: in each `_eigsh` all dense `eigh` calls of the exact branch request "
                      "the same index range (the largest relevant eigenvalues), every projected operator is built from the same (shifted) "
                      "solver operator; in the JAX ELBO the exact inverse-eigenvalue sum and the stochastic remainder use the same shift", floor=4)
    for modname in (EC, EJ):
        fi = m.func(modname, "_eigsh")
        ctx.saw_func(fi)
        calls = [c for c in ast.walk(fi.node) if isinstance(c, ast.Call) and _n(c.func).endswith("eigh") and c.args and "_explicify" in _n(c.args[0])]
        key = f"{fi.key}::dense eigh calls request the largest relevant eigenvalues, identically"
        if len(calls) < 2:
            ctx.und("R34.4", key, f"{len(calls)} dense eigh calls", fi)
        else:
            subs = [next((_n(k.value) for k in c.keywords if k.arg == "subset_by_index"), None) for c in calls]
            args0 = {_n(c.args[0]) for c in calls}
            good = len(set(subs)) == 1 and subs[0] is not None and len(args0) == 1
            if good:
                # [size - n, size - 1]: the top n
                good = subs[0].startswith("[") and subs[0].endswith("-1]") and subs[0].count(",") == 1
                lo, hi = subs[0][1:-1].split(",")
                good = good and hi.endswith("-1") and lo.startswith(hi[:-2] + "-")
            ctx.check("R34.4", key, good, f"subset_by_index: {subs}", fi, calls[0])
        proj = [c for c in ast.walk(fi.node) if isinstance(c, ast.Call) and call_name(c) == "_ProjectedMetric" and c.args]
        if proj:
            bases = [_n(c.args[0]) for c in proj]
            # the operator handed to the solver when nothing is projected
            plain = [st for st in walk_no_nested(fi.node) if isinstance(st, ast.Assign) and any(_n(t) == "projected_metric" for t in st.targets)
                     and isinstance(st.value, ast.Name)]
            want = _n(plain[0].value) if plain else bases[0]
            ctx.check("R34.4", f"{fi.key}::every projected operator wraps the solver operator `{want}`", all(b == want for b in bases),
                      f"_ProjectedMetric bases {bases}" + ("" if all(b == want for b in bases) else ": the first batch after a resume would see unshifted eigenvalues"), fi, proj[0])
    est = m.func(EJ, "estimate_evidence_lower_bound")
    ctx.saw_func(est)
    # shift of the exact inverse sum vs shift of the SLQ `inv` function
    inv_exact = [st for st in ast.walk(est.node) if isinstance(st, ast.Assign) and isinstance(st.value, ast.BinOp) and isinstance(st.value.op, ast.Div)
                 and "eigenvalues" in _n(st.value.right) and _n(st.value.left) in ("1.0", "1")]
    trace_exact = [st for st in ast.walk(est.node) if isinstance(st, ast.Assign) and any(_n(t) == "trace_inv_exact" for t in st.targets) and "np.sum" in _n(st.value)]
    lam = [x for x in ast.walk(est.node) if isinstance(x, ast.Lambda) and isinstance(x.body, ast.BinOp) and "1.0/" in _n(x.body)]
    shifts = [st for st in ast.walk(est.node) if isinstance(st, ast.Assign) and any(_n(t) == "inv_shift" for t in st.targets)]
    key = f"{est.key}::exact and stochastic parts of trace(inverse) use the same shift"
    if not trace_exact or not lam or not shifts:
        ctx.und("R34.4", key, f"{len(trace_exact)} exact sums, {len(lam)} SLQ functions, {len(shifts)} shift bindings", est)
        return
    sh = _n(shifts[0].value)
    # the summand of the exact part
    summand = None
    for st in trace_exact:
        for c in ast.walk(st.value):
            if isinstance(c, ast.Call) and call_name(c) == "sum" and c.args:
                a = c.args[0]
                if isinstance(a, ast.Name):
                    d = [s2 for s2 in inv_exact if _n(s2.targets[0]) == a.id]
                    a = d[0].value if d else a
                summand = _n(a)
    from ..terms import canon
    good = summand is not None and canon(summand, add=True) in (canon(f"1.0/(eigenvalues+{sh})", add=True), canon(f"1/(eigenvalues+{sh})", add=True))
    ctx.check("R34.4", key, good, f"exact summand `{summand}`; stochastic part uses shift `{sh}`" + ("" if good else
              ": in data space the eigenvalues are those of the shifted operator, the exact part must add the same shift"), est, trace_exact[0])


_run_c34b = run


def run(ctx):  # noqa: F811
    _run_c34b(ctx)
    r34_4(ctx, ctx.model)


def thread_rule(ctx, rid, mod, names):
    """inside a function that owns a value called `name` (parameter or local), every call of a module function that has a parameter
    `name` passes that value"""
    takers = {}
    for fi in mod.all_functions:
        for nm in names:
            if nm in fi.params():
                takers.setdefault(fi.name, (fi, set()))[1].add(nm)
    n = 0
    for fi in mod.all_functions:
        own = set(fi.params()) | {t.id for st in walk_no_nested(fi.node) if isinstance(st, ast.Assign) for t in ast.walk(st.targets[0]) if isinstance(t, ast.Name)}
        for c in walk_no_nested(fi.node):
            if not (isinstance(c, ast.Call) and isinstance(c.func, ast.Name) and c.func.id in takers and c.func.id != fi.name):
                continue
            callee, nms = takers[c.func.id]
            for nm in sorted(nms & own):
                n += 1
                ctx.saw_func(fi)
                pos_idx = callee.params().index(nm)
                kwonly = {a.arg for a in callee.node.args.kwonlyargs}
                given = next((src(k.value) for k in c.keywords if k.arg == nm), None)
                if given is None and nm not in kwonly and len(c.args) > pos_idx:
                    given = src(c.args[pos_idx])
                key = f"{fi.key}::`{short(c, 40)}` receives this function's {nm}"
                if given is None:
                    ctx.bad(rid, key, f"{callee.name} falls back to its default `{nm}` although the caller computed/received one", fi, c)
                else:
                    ctx.check(rid, key, given == nm, f"receives `{given}`", fi, c)
    return n


def r34_5(ctx, m):
    ctx.rule("R34.5", "eigenvalue batches on resume (both implementations): the precomputed count shortens exactly ONE batch - in "
                      "the loop over the planned batches whole batches are skipped while skip >= batch, the first partially covered "
                      "batch is shortened by skip AND skip is reset to 0 - so that the batches sum to n_eigenvalues - n_precomputed", floor=2)
    for modn in (EC, EJ):
        fi = m.func(modn, "_eigsh", required=False)
        if fi is None:
            ctx.und("R34.5", f"{modn}::_eigsh", "function missing", modn)
            continue
        ctx.saw_func(fi)
        key = f"{fi.key}::the skip counter is consumed exactly once"
        found = False
        for lp in ast.walk(fi.node):
            if not isinstance(lp, ast.For):
                continue
            bv = src(lp.target)
            for st in lp.body:
                if isinstance(st, ast.If) and isinstance(st.test, ast.Compare) and len(st.test.ops) == 1:
                    subs = [a for a in st.body if isinstance(a, ast.AugAssign) and isinstance(a.op, ast.Sub) and src(a.target) == bv and isinstance(a.value, ast.Name)]
                    if not subs:
                        continue
                    found = True
                    sk = subs[0].value.id
                    reset = [a for a in st.body if (isinstance(a, ast.Assign) and src(a.targets[0]) == sk and src(a.value) in ("0", "0.0")) or
                             (isinstance(a, ast.AugAssign) and src(a.target) == sk and isinstance(a.op, ast.Sub) and src(a.value) == sk)]
                    after = [a for a in reset if a.lineno > subs[0].lineno]
                    ctx.check("R34.5", key, bool(after), f"`{src(subs[0])}` in `if {src(st.test)}`" + ("" if after else
                              f": `{sk}` keeps its value, so every later batch is shortened (or skipped) again and fewer eigenvalues than requested are computed"), fi, subs[0])
        if not found:
            ctx.und("R34.5", key, "batch-shortening statement not found", fi)
    ctx.rule("R34.6", "nifty.re ELBO: values computed for the chosen trace space (eigenvalue_shift, solver_shift) are handed to every "
                      "helper that has a parameter of that name (the early-stop test of the eigen-solver compares against the shift: "
                      "1 in signal space, 0 in data space)", floor=2)
    n = thread_rule(ctx, "R34.6", m.module(EJ), ("eigenvalue_shift", "solver_shift"))
    if not n:
        ctx.und("R34.6", f"{EJ}::threading", "no call site found", EJ)
    ctx.rule("R34.7", "stochastic Lanczos quadrature with deflation: probes are normalised with a denominator that is guarded against "
                      "zero (where(norm2 > eps, norm2, 1)) - a probe that lies in the deflated span has norm 0 after projection and "
                      "must contribute 0, not NaN", floor=1)
    mod = m.module(LZ)
    hit = False
    for fn in ast.walk(mod.tree):
        if not (isinstance(fn, ast.FunctionDef) and fn.name == "make_batch_probes"):
            continue
        hit = True
        defl = any(isinstance(st, ast.Assign) and isinstance(st.value, ast.BinOp) and isinstance(st.value.op, ast.Sub) and src(st.targets[0]) == src(st.value.left)
                   for st in ast.walk(fn))
        loc = {src(st.targets[0]): st.value for st in ast.walk(fn) if isinstance(st, ast.Assign) and isinstance(st.targets[0], ast.Name)}
        divs = [b for b in ast.walk(fn) if isinstance(b, ast.BinOp) and isinstance(b.op, ast.Div)]
        key = f"{mod.relpath}::make_batch_probes::normalisation is guarded against zero norm"
        if not divs or not defl:
            ctx.und("R34.7", key, "deflation / normalisation not found", mod.relpath)
            continue
        for b in divs:
            names = [x.id for x in ast.walk(b.right) if isinstance(x, ast.Name) and x.id in loc]
            guarded = any(isinstance(loc[nm_], ast.Call) and call_name(loc[nm_]) in ("where", "maximum", "clip", "select") for nm_ in names)
            raw_norm = any(isinstance(loc[nm_], ast.Call) and call_name(loc[nm_]) in ("sum", "norm", "vdot", "dot", "einsum") for nm_ in names)
            if guarded:
                ctx.ok("R34.7", key, f"`{src(b)}` with {[f'{n_} = {src(loc[n_])}' for n_ in names]}", mod.relpath, b)
            elif raw_norm:
                ctx.bad("R34.7", key, f"`{src(b)}` divides by the raw norm of a deflated probe: 0/0 = NaN for a probe in the deflated span", mod.relpath, b)
            else:
                ctx.und("R34.7", key, f"`{src(b)}` not recognised", mod.relpath, b)
    if not hit:
        ctx.und("R34.7", f"{mod.relpath}::make_batch_probes", "function not found", mod.relpath)


_run_c34c = run


def run(ctx):  # noqa: F811
    _run_c34c(ctx)
    r34_5(ctx, ctx.model)


# ---------------------------------------------------------------------------------------------------------------- R34.8
def r34_8(ctx, m):
    R = "R34.8"
    ctx.rule(R, "analytic prior term 1/2 (Tr Sigma + m^dagger m) of both ELBO estimators: m is the expansion point of the samples "
                "(nifty.re: samples.pos has priority, the empirical mean of the absolute samples is only the fallback when no "
                "position is stored; nifty.cl: samples.mean, the stored mean of the residual list) and m^dagger m is the inner product "
                "of m with itself - not an energy (1/2 m^dagger m) and not the mean of a possibly non-antithetic sample set", floor=3)
    # ---- nifty.re
    fi = m.func("nifty.re.evidence_lower_bound", "estimate_evidence_lower_bound")
    ctx.saw_func(fi)
    key = f"{fi.key}::expansion point has priority over the empirical sample mean"
    chains = [st for st in ast.walk(fi.node) if isinstance(st, ast.If) and any(isinstance(b, ast.Assign) and src(b.targets[0]) == "mean" for b in st.body)]
    # outermost chain: the If that is not in the orelse of another candidate
    inner = {id(o) for st in chains for o in st.orelse}
    top = [st for st in chains if id(st) not in inner]
    if len(top) != 1:
        ctx.und(R, key, f"{len(top)} selection chains for `mean`", fi)
    else:
        st = top[0]
        first = [b for b in st.body if isinstance(b, ast.Assign) and src(b.targets[0]) == "mean"][0]
        t = src(st.test)
        if ".pos is not None" in t and src(first.value).endswith(".pos"):
            ctx.ok(R, key, f"first choice `{src(first.value)}` under `{t}`", fi, st)
        elif "len(" in t or "mean(" in src(first.value):
            ctx.bad(R, key, f"first choice is `{short(first.value, 60)}` under `{t}`: for samples whose residuals do not cancel this is pos + mean(residuals), "
                            "not the point the metric was expanded at", fi, st)
        else:
            ctx.und(R, key, f"first choice `{short(first.value, 60)}` under `{t}`", fi, st)
    for mn in ("nifty.re.evidence_lower_bound", "nifty.cl.evidence_lower_bound"):
        fi = m.func(mn, "estimate_evidence_lower_bound")
        ctx.saw_func(fi)
        key = f"{fi.key}::prior_mean_sq is the inner product of the mean with itself"
        asg = [st for st in ast.walk(fi.node) if isinstance(st, ast.Assign) and src(st.targets[0]) == "prior_mean_sq"
               and not (isinstance(st.value, ast.Constant))]
        if not asg:
            ctx.und(R, key, "assignment not found", fi)
            continue
        for st in asg:
            dots = [c for c in ast.walk(st.value) if isinstance(c, ast.Call) and call_name(c) in ("vdot", "s_vdot", "dot")]
            energies = [c for c in ast.walk(st.value) if isinstance(c, ast.Call) and any(k in src(c.func) for k in ("energy", "hamiltonian", "prior"))]
            if energies:
                ctx.bad(R, key, f"`{short(st.value, 80)}` evaluates an energy: the standard prior energy is 1/2 m^dagger m, half of the term", fi, st)
                continue
            if len(dots) != 1:
                ctx.und(R, key, f"`{short(st.value, 80)}`", fi, st)
                continue
            d = dots[0]
            if isinstance(d.func, ast.Attribute) and call_name(d) in ("vdot", "s_vdot") and len(d.args) == 1 and not src(d.func.value) in ("jnp", "np", "jft"):
                a, b = src(d.func.value), src(d.args[0])
            elif len(d.args) == 2:
                a, b = src(d.args[0]), src(d.args[1])
            else:
                a = b = None
            ctx.check(R, key, (a == b and a is not None and ("mean" in a or "pos" in a)) if a is not None else None, f"`{src(d)}`", fi, st)


_run_c34d = run


def run(ctx):  # noqa: F811
    _run_c34d(ctx)
    r34_8(ctx, ctx.model)
