"""C35 (clause) - structural parts of the response operators: masks, zero padding, regridding, multilinear interpolation.

Decided: which index set is gathered/scattered, that an array allocated uninitialised is completely written, that forward and
adjoint use the same (index, weight) pairs, that interpolation weights are the multilinear ones built from ONE floor.
Not decided: line-of-sight integrals, non-uniform FFTs (external kernels), numerical accuracy.
"""
import ast

from ..model import src, short, walk_no_nested, call_name, is_self_attr
from ..modespec import Spec
from ..terms import inline_at
from ..util import cfg_of, find_nodes, known_atoms

OPS = "nifty.cl.operators."


def _norm(e):
    return src(e).replace(" ", "")


def run(ctx):
    m = ctx.model
    r35_1(ctx, m)
    r35_2(ctx, m)
    r35_3(ctx, m)
    r35_4(ctx, m)


# ---------------------------------------------------------------------------------------------------------------- mask
def r35_1(ctx, m):
    M = m.cls(OPS + "mask_operator", "MaskOperator")
    ctx.saw_class(M)
    ctx.rule("R35.1", "MaskOperator: the stored selection is the NEGATION of the flags, the target has one pixel per selected entry, "
                      "TIMES gathers the input through the selection, ADJOINT_TIMES scatters into the selection and writes zero "
                      "to its complement (the result array is allocated uninitialised, so both stores are needed)", floor=5)
    ini = M.methods["__init__"]
    ap = M.methods["apply"]
    ctx.saw_func(ini)
    ctx.saw_func(ap)
    fl = ini.params()[1]
    xn, mn = ap.params()[1:3]
    # the selection attribute is the one TIMES gathers through
    sp = Spec(m, M, ap, {mn: 1}).run()
    attr = None
    for e, a, st in sp.returns:
        for x in ast.walk(e):
            if isinstance(x, ast.Subscript) and is_self_attr(x.slice, None):
                attr = x.slice.attr
    key = f"{ini.key}::selection = logical_not(flags)"
    if attr is None:
        ctx.und("R35.1", key, "TIMES does not gather through an attribute", ap)
        return
    sel = [st for st in walk_no_nested(ini.node) if isinstance(st, ast.Assign) and is_self_attr(st.targets[0], attr)]
    if len(sel) != 1:
        ctx.und("R35.1", key, f"{len(sel)} assignments to self.{attr}", ini)
        return
    v = sel[0].value
    neg = (isinstance(v, ast.Call) and call_name(v) == "logical_not" and _norm(v.args[0]) in (f"{fl}.val", fl)) or \
        (isinstance(v, ast.UnaryOp) and isinstance(v.op, ast.Invert) and _norm(v.operand) in (f"{fl}.val.astype(bool)", f"{fl}.val"))
    nv = _norm(v)
    if not neg and nv in (f"{fl}.val==0", f"{fl}.val==False", f"0=={fl}.val"):
        neg = True
    if neg:
        ctx.ok("R35.1", key, f"self.{attr} = {src(v)}", ini, sel[0])
    elif nv in (f"{fl}.val", fl, f"{fl}.val.astype(bool)"):
        ctx.bad("R35.1", key, f"self.{attr} = {src(v)}: flagged pixels would be the ones that are kept", ini, sel[0])
    elif any(isinstance(x, ast.BinOp) and isinstance(x.op, ast.Sub) and isinstance(x.left, ast.Constant) and x.left.value == 1 and fl in src(x.right) for x in ast.walk(v)):
        ctx.bad("R35.1", key, f"self.{attr} = {src(v)}: 1 - f is non-zero for every f != 1, so flags other than exactly 0/1 (2, 0.5, -1, ...) "
                              "are treated as unflagged; the flags are documented to be converted to boolean first", ini, sel[0])
    else:
        ctx.und("R35.1", key, f"self.{attr} = {src(v)} not recognised as the negation of the flags", ini, sel[0])
    tg = [st for st in walk_no_nested(ini.node) if isinstance(st, ast.Assign) and is_self_attr(st.targets[0], "_target")]
    ctx.check("R35.1", f"{ini.key}::target size = number of selected entries",
              len(tg) == 1 and f"UnstructuredDomain(self.{attr}.sum())" in _norm(tg[0].value), src(tg[0].value) if tg else None, ini)
    # TIMES
    vals = [_norm(e) for e, a, st in sp.returns]
    ok_t = len(vals) == 1 and vals[0] in (f"Field(self.target,{xn}.val[self.{attr}])", f"Field(self._target,{xn}.val[self.{attr}])", f"Field(self._tgt(1),{xn}.val[self.{attr}])")
    ctx.check("R35.1", f"{ap.key}::TIMES gathers input[selection] onto the target", ok_t, str(vals), ap)
    # ADJOINT: stores into the result
    cfg = cfg_of(ap)
    allocs = [n for n in cfg.nodes if n.kind == "stmt" and isinstance(n.ast, ast.Assign) and isinstance(n.ast.value, ast.Call)
              and call_name(n.ast.value) in ("empty_like", "empty", "zeros_like", "zeros") and isinstance(n.ast.targets[0], ast.Name)]
    key = f"{ap.key}::ADJOINT_TIMES writes input into the selection and zero elsewhere"
    if len(allocs) != 1:
        ctx.und("R35.1", key, f"{len(allocs)} result allocations", ap)
        return
    rn = allocs[0].ast.targets[0].id
    zero_init = call_name(allocs[0].ast.value).startswith("zeros")
    stores = [n.ast for n in cfg.nodes if n.kind == "stmt" and isinstance(n.ast, ast.Assign) and isinstance(n.ast.targets[0], ast.Subscript)
              and src(n.ast.targets[0].value) == rn]
    idx = {_norm(s_.targets[0].slice): _norm(s_.value) for s_ in stores}
    # the local that holds x.val
    xv = [st for st in walk_no_nested(ap.node) if isinstance(st, ast.Assign) and _norm(st.value) == f"{xn}.val"]
    xname = src(xv[0].targets[0]) if xv else f"{xn}.val"
    has_sel = idx.get(f"self.{attr}") in (xname, f"{xn}.val")
    has_comp = idx.get(f"~self.{attr}") in ("0", "0.0", "0.") or idx.get(f"np.logical_not(self.{attr})") in ("0", "0.0")
    det = f"allocation `{short(allocs[0].ast)}`; stores {idx}"
    if has_sel and (has_comp or zero_init):
        ctx.ok("R35.1", key, det, ap)
    elif has_sel and not has_comp and not zero_init:
        ctx.bad("R35.1", key, det + " - entries outside the selection stay uninitialised memory", ap, allocs[0].ast)
    else:
        ctx.check("R35.1", key, False if idx else None, det, ap)
    spa = Spec(m, M, ap, {mn: 2}).run()
    va = [_norm(e) for e, a, st in spa.returns]
    ctx.check("R35.1", f"{ap.key}::ADJOINT_TIMES result lives on the domain with the domain's shape",
              len(va) == 1 and va[0].startswith(("Field(self.domain,", "Field(self._domain,", "Field(self._tgt(2),")) and
              any(k.arg == "shape" and _norm(k.value) in ("self.domain.shape", "self._domain.shape") for k in allocs[0].ast.value.keywords),
              str(va), ap)


# ---------------------------------------------------------------------------------------------------------------- zero padder
def r35_2(ctx, m):
    Z = m.cls(OPS + "field_zero_padder", "FieldZeroPadder")
    ctx.saw_class(Z)
    ctx.rule("R35.2", "FieldZeroPadder: padding at the end copies the input into [0:n_in] of a zero array and the adjoint crops "
                      "[0:n_out]; central padding uses the same pair of slices (first Nyquist+1 entries, last Nyquist entries "
                      "counted from the end) in both directions with Nyquist taken from the SMALLER array, the forward assigns "
                      "into zeros and the adjoint accumulates the second half; the new shape is never smaller than the old", floor=6)
    ap = Z.methods["apply"]
    ini = Z.methods["__init__"]
    ctx.saw_func(ap)
    xn, mn = ap.params()[1:3]
    loops = [st for st in walk_no_nested(ap.node) if isinstance(st, ast.For)]
    if len(loops) != 1:
        ctx.und("R35.2", f"{ap.key}::axis loop", f"{len(loops)} loops", ap)
        return
    loop = loops[0]
    dvar = src(loop.target)

    def branch(mode_times, central):
        """statements executed in the loop body for this (mode, central) combination"""
        out = []

        def walk(stmts):
            for st in stmts:
                if isinstance(st, ast.If):
                    t = _norm(st.test)
                    if t in (f"{mn}==self.TIMES", f"{mn}==1", f"self.TIMES=={mn}"):
                        walk(st.body if mode_times else st.orelse)
                    elif t in (f"{mn}==self.ADJOINT_TIMES", f"{mn}==2", f"self.ADJOINT_TIMES=={mn}"):
                        walk(st.orelse if mode_times else st.body)
                    elif t == "self._central":
                        walk(st.body if central else st.orelse)
                    elif t == "notself._central":
                        walk(st.orelse if central else st.body)
                    elif isinstance(st.body[0], ast.Continue):
                        continue
                    else:
                        out.append(("?", st))
                else:
                    out.append(("s", st))
        walk(loop.body)
        return out

    def slices_and_stores(stmts):
        env = {}
        stores = []
        for kind, st in stmts:
            if kind == "?":
                return None, None
            if isinstance(st, ast.Assign) and isinstance(st.targets[0], ast.Name):
                env[st.targets[0].id] = st.value
            elif isinstance(st, (ast.Assign, ast.AugAssign)):
                tgt = st.targets[0] if isinstance(st, ast.Assign) else st.target
                if isinstance(tgt, ast.Subscript):
                    sl = tgt.slice
                    sl_t = _norm(env[sl.id]) if isinstance(sl, ast.Name) and sl.id in env else _norm(sl)
                    val = st.value
                    if isinstance(val, ast.Subscript):
                        vs = val.slice
                        vs_t = _norm(env[vs.id]) if isinstance(vs, ast.Name) and vs.id in env else _norm(vs)
                        vtxt = f"{src(val.value)}[{vs_t}]"
                    else:
                        vtxt = _norm(val)
                    stores.append(("+=" if isinstance(st, ast.AugAssign) else "=", src(tgt.value), sl_t, vtxt))
        zeroed = {k for k, v in env.items() if isinstance(v, ast.Call) and call_name(v) in ("zeros_like", "zeros")}
        stores = [s_ for s_ in stores if s_[1] in zeroed]
        return env, stores
    vname = None
    for st in walk_no_nested(ap.node):
        if isinstance(st, ast.Assign) and _norm(st.value) == f"{xn}.val":
            vname = src(st.targets[0])
    if vname is None:
        ctx.und("R35.2", f"{ap.key}::input array", "not found", ap)
        return
    idxn = None
    for st in loop.body:
        if isinstance(st, ast.Assign) and _norm(st.value) == f"(slice(None),)*{dvar}":
            idxn = src(st.targets[0])
    # non central
    env, stores = slices_and_stores(branch(True, False))
    okk = stores is not None and len(stores) == 1 and stores[0][0] == "=" and stores[0][2] == f"{idxn}+(slice(0,{vname}.shape[{dvar}]),)" and stores[0][3] == vname \
        and env and "zeros" in _norm(env.get(stores[0][1], ast.Constant(value=0)))
    ctx.check("R35.2", f"{ap.key}::TIMES, padding at the end: zeros[..., 0:n_in] = input", okk, str(stores), ap)
    env, stores = slices_and_stores(branch(False, False))
    xnew_defs = [v for k, v in (env or {}).items() if isinstance(v, ast.Subscript) and src(v.value) == vname]
    okk = env is not None and len(xnew_defs) == 1 and _norm(xnew_defs[0].slice).startswith(f"{idxn}+(slice(0,") and "tgtshp" in _norm(xnew_defs[0].slice)
    ctx.check("R35.2", f"{ap.key}::ADJOINT_TIMES, padding at the end: crop [..., 0:n_out]", okk, _norm(xnew_defs[0]) if xnew_defs else None, ap)
    # central
    res = {}
    for mt in (True, False):
        env, stores = slices_and_stores(branch(mt, True))
        res[mt] = (env, stores)
    et, st_t = res[True]
    ea, st_a = res[False]
    want1 = f"{idxn}+(slice(0,Nyquist+1),)"
    want2 = f"{idxn}+(slice(None,-(Nyquist+1),-1),)"

    def generic(slt, env):
        # replace the local name of the half-length by `Nyquist`
        nq = [k for k, v in env.items() if "//2" in _norm(v)]
        return slt.replace(nq[0], "Nyquist") if nq else slt
    okk = None
    det = None
    if st_t is not None and st_a is not None and len(st_t) == 2 and len(st_a) == 2:
        t = [(o, generic(s_, et), v) for o, a_, s_, v in st_t]
        a = [(o, generic(s_, ea), v) for o, a_, s_, v in st_a]
        det = f"TIMES {t}; ADJOINT {a}"
        okk = [x[1] for x in t] == [want1, want2] and [x[1] for x in a] == [want1, want2] and [x[0] for x in t] == ["=", "="] and [x[0] for x in a] == ["=", "+="] \
            and all(generic(x[3], et) == f"{vname}[{x[2] and generic(x[2], et)}]" for x in st_t) and all(generic(x[3], ea) == f"{vname}[{generic(x[2], ea)}]" for x in st_a)
    ctx.check("R35.2", f"{ap.key}::central padding: same two slices forward and adjoint, adjoint accumulates the overlapping half", okk, det, ap)
    nq_t = [_norm(v) for k, v in (et or {}).items() if "//2" in _norm(v)]
    nq_a = [_norm(v) for k, v in (ea or {}).items() if "//2" in _norm(v)]
    xnew_a = [k for k, v in (ea or {}).items() if isinstance(v, ast.Call) and call_name(v) in ("zeros_like", "zeros")]
    okk = nq_t == [f"{vname}.shape[{dvar}]//2"] and len(nq_a) == 1 and len(xnew_a) == 1 and nq_a[0] == f"{xnew_a[0]}.shape[{dvar}]//2"
    ctx.check("R35.2", f"{ap.key}::central padding: Nyquist index from the smaller array (input when padding, output when cropping)", okk, f"{nq_t} / {nq_a}", ap)
    guard = [st for st in walk_no_nested(ini.node) if isinstance(st, ast.If) and "zip(" in src(st.test) and any(isinstance(x, ast.Raise) for x in st.body)]
    ns = ini.params()[2]
    okk = len(guard) == 1 and _norm(guard[0].test) in (f"any([a<bfora,binzip({ns},dom.shape)])", f"any(a<bfora,binzip({ns},dom.shape))")
    ctx.check("R35.2", f"{ini.key}::refuses a new shape smaller than the old one", okk, src(guard[0].test) if guard else None, ini)
    rets = [r for r in walk_no_nested(ap.node) if isinstance(r, ast.Return)]
    ctx.check("R35.2", f"{ap.key}::result on _tgt(mode)", len(rets) == 1 and _norm(rets[0].value) == f"Field(self._tgt({mn}),{vname})", src(rets[0].value) if rets else None, ap)


# ---------------------------------------------------------------------------------------------------------------- regridding
def r35_3(ctx, m):
    R = m.cls(OPS + "regridding_operator", "RegriddingOperator")
    ctx.saw_class(R)
    ctx.rule("R35.3", "RegriddingOperator: forward gathers input[b]*(1-w) + input[b+1]*w, the adjoint scatter-adds v*(1-w) at b and "
                      "v*w at b+1 with the same index and weight attributes (weights sum to one); b is clamped to shape-2 so that "
                      "b+1 exists and w = position - b", floor=4)
    ap = R.methods["apply"]
    ini = R.methods["__init__"]
    ctx.saw_func(ap)
    ctx.saw_func(ini)
    xn, mn = ap.params()[1:3]
    loops = [st for st in walk_no_nested(ap.node) if isinstance(st, ast.For)]
    if len(loops) != 1:
        ctx.und("R35.3", f"{ap.key}::axis loop", f"{len(loops)} loops", ap)
        return
    loop = loops[0]
    wdef = [st for st in loop.body if isinstance(st, ast.Assign) and "reshape" in src(st.value)]
    wname = src(wdef[0].targets[0]) if wdef else None
    wattr = None
    if wdef:
        for x in ast.walk(wdef[0].value):
            if isinstance(x, ast.Attribute) and is_self_attr(x, None):
                wattr = x.attr
    adds = [c for c in ast.walk(loop) if isinstance(c, ast.Call) and call_name(c) == "special_add_at" and len(c.args) == 4]
    pairs_adj = set()
    for c in adds:
        from ..terms import canon
        pairs_adj.add((_norm(c.args[2]), canon(c.args[3])))
    # forward: xnew = v[idx + (B,)] * W1 ; xnew += v[idx + (B+1,)] * W2
    pairs_fwd = set()
    vname = None
    for st in walk_no_nested(ap.node):
        if isinstance(st, ast.Assign) and _norm(st.value) == f"{xn}.val":
            vname = src(st.targets[0])
    for st in ast.walk(loop):
        val = None
        if isinstance(st, ast.Assign) and isinstance(st.value, ast.BinOp) and isinstance(st.value.op, ast.Mult):
            val = st.value
        if isinstance(st, ast.AugAssign) and isinstance(st.op, ast.Add) and isinstance(st.value, ast.BinOp) and isinstance(st.value.op, ast.Mult):
            val = st.value
        if val is not None:
            subs = [x_ for x_ in (val.left, val.right) if isinstance(x_, ast.Subscript) and src(x_.value) == vname]
            if len(subs) == 1:
                other = val.right if subs[0] is val.left else val.left
                sl = subs[0].slice
                if isinstance(sl, ast.BinOp) and isinstance(sl.right, ast.Tuple) and len(sl.right.elts) == 1:
                    from ..terms import canon
                    pairs_fwd.add((_norm(sl.right.elts[0]), canon(ast.BinOp(left=ast.Name(id=vname, ctx=ast.Load()), op=ast.Mult(), right=other))))
    key = f"{ap.key}::forward and adjoint use the same (index, weight) pairs"
    if not pairs_adj or not pairs_fwd or wname is None:
        ctx.und("R35.3", key, f"forward {sorted(pairs_fwd)}, adjoint {sorted(pairs_adj)}", ap)
    else:
        ctx.check("R35.3", key, pairs_adj == pairs_fwd and len(pairs_fwd) == 2, f"forward {sorted(pairs_fwd)}; adjoint {sorted(pairs_adj)}", ap)
        idxs = sorted(p[0] for p in pairs_fwd)
        wts = {p[0]: p[1] for p in pairs_fwd}
        base = min(idxs, key=len)
        okk = len(idxs) == 2 and set(idxs) == {base, base + "+1"} and wts.get(base) in tuple(canon(w_) for w_ in (f"{vname}*(1.0-{wname})", f"{vname}*(1-{wname})")) \
            and wts.get(base + "+1") == canon(f"{vname}*{wname}")
        ctx.check("R35.3", f"{ap.key}::weights are (1-w) at b and w at b+1", okk, str(wts), ap)
    # constructor: clamp and fraction
    body = " ".join(_norm(st) for st in ast.walk(ini.node) if isinstance(st, ast.Assign))
    loops_i = [st for st in walk_no_nested(ini.node) if isinstance(st, ast.For)]
    okk = None
    det = None
    if loops_i:
        asg = {(_norm(st.targets[0])): _norm(st.value) for st in loops_i[-1].body if isinstance(st, ast.Assign)}
        det = str(asg)
        tmpn = [k for k, v in asg.items() if "np.arange(" in v]
        bk = [k for k, v in asg.items() if "np.minimum(" in v]
        fk = [k for k, v in asg.items() if k not in tmpn + bk]
        if len(tmpn) == 1 and not bk:
            bidx = [k for k, v in asg.items() if k.startswith("self.") and "astype" in v]
            if bidx:
                okk = False
                det = f"{bidx[0]} = {asg[bidx[0]]}: not clamped to shape-2, so index+1 can run past the last pixel"
        if len(tmpn) == 1 and len(bk) == 1 and len(fk) == 1:
            dl = src(loops_i[-1].target)
            okk = asg[bk[0]] == f"np.minimum(dom.shape[{dl}]-2,{tmpn[0]}.astype(np.int64))" and asg[fk[0]] == f"{tmpn[0]}-{bk[0]}" \
                and (asg[tmpn[0]].startswith(f"np.arange({ini.params()[2]}[{dl}])*") or asg[tmpn[0]].endswith(f"*np.arange({ini.params()[2]}[{dl}])"))
            okk = okk and wattr is not None and fk[0].startswith(f"self.{wattr}[")
    ctx.check("R35.3", f"{ini.key}::b = min(shape-2, floor(position)), w = position - b, stored in the attributes apply reads", okk, det, ini)
    guard = [st for st in walk_no_nested(ini.node) if isinstance(st, ast.If) and "zip(" in src(st.test) and any(isinstance(x, ast.Raise) for x in st.body)]
    ns = ini.params()[2]
    ctx.check("R35.3", f"{ini.key}::refuses a new shape larger than the old one",
              len(guard) == 1 and _norm(guard[0].test) in (f"any([a>bfora,binzip({ns},dom.shape)])", f"any([b<afora,binzip({ns},dom.shape)])"), src(guard[0].test) if guard else None, ini)


# ---------------------------------------------------------------------------------------------------------------- interpolation
def r35_4(ctx, m, rid="R35.4"):
    L = m.cls(OPS + "linear_interpolation", "LinearInterpolator")
    ctx.saw_class(L)
    ctx.rule(rid, "LinearInterpolator._build_mat: base cell = floor(position) and excess = position - floor(position) from the "
                      "same floor (not a truncation); the weight of corner c is prod_d |1 - c_d - excess_d| (= (1-e) for c=0, e for "
                      "c=1: exact for multilinear functions); the column is the flat index of (base + c) wrapped at the domain shape, "
                      "with the same corner vector; row = point number; forward = matvec, adjoint = rmatvec of the same matrix", floor=6)
    bm = L.methods["_build_mat"]
    ap = L.methods["apply"]
    ctx.saw_func(bm)
    ctx.saw_func(ap)
    cfg = cfg_of(bm)
    rd = cfg.reaching_defs(bm.params())
    coo = find_nodes(cfg, lambda q: isinstance(q, ast.Call) and call_name(q) == "coo_matrix")
    key = f"{bm.key}::sparse matrix (weights, (point, flat pixel))"
    if len(coo) != 1 or not (coo[0][1].args and isinstance(coo[0][1].args[0], ast.Tuple) and len(coo[0][1].args[0].elts) == 2
                             and isinstance(coo[0][1].args[0].elts[1], ast.Tuple) and len(coo[0][1].args[0].elts[1].elts) == 2):
        ctx.und(rid, key, "coo_matrix((data, (rows, cols)), shape) not found", bm)
        return
    n, c = coo[0]

    def base_name(e):
        while isinstance(e, ast.Call) and isinstance(e.func, ast.Attribute) and e.func.attr in ("reshape", "ravel"):
            e = e.func.value
        return src(e)
    dn = base_name(c.args[0].elts[0])
    rn_, cn = [base_name(x) for x in c.args[0].elts[1].elts]
    npts = bm.params()[2]
    shape_ok = len(c.args) == 2 and _norm(c.args[1]) == f"({npts},np.prod(self.domain.shape))"
    ctx.check(rid, key, shape_ok, src(c)[:200], bm)
    loops = [st for st in walk_no_nested(bm.node) if isinstance(st, ast.For)]
    if len(loops) != 1:
        ctx.und(rid, f"{bm.key}::corner loop", f"{len(loops)} loops", bm)
        return
    lv = src(loops[0].target)
    stores = {}
    for nn in cfg.nodes:
        if nn.kind == "stmt" and isinstance(nn.ast, ast.Assign) and isinstance(nn.ast.targets[0], ast.Subscript) and any(x is nn.ast for x in ast.walk(loops[0])):
            stores[src(nn.ast.targets[0].value)] = (nn, nn.ast)
    if not {dn, rn_, cn} <= set(stores):
        ctx.und(rid, f"{bm.key}::per-corner stores", f"stores into {sorted(stores)}; matrix uses {dn, rn_, cn}", bm)
        return
    wn, wst = stores[dn]
    w = inline_at(cfg, rd, wn.id, wst.value, depth=1)
    cnn, cst = stores[cn]
    col = inline_at(cfg, rd, cnn.id, cst.value, depth=1)
    rnn, rst = stores[rn_]
    ctx.check(rid, f"{bm.key}::row index = point number", _norm(rst.value) == f"np.arange({npts})", src(rst.value), bm)
    # weight term: np.prod(np.abs(1 - K - E), axis=0)
    okw, K, E = False, None, None
    if isinstance(w, ast.Call) and call_name(w) == "prod" and any(k.arg == "axis" and _norm(k.value) == "0" for k in w.keywords) and w.args:
        inner = w.args[0]
        if isinstance(inner, ast.Call) and call_name(inner) in ("abs", "absolute") and len(inner.args) == 1:
            t = inner.args[0]
            if isinstance(t, ast.BinOp) and isinstance(t.op, ast.Sub) and isinstance(t.left, ast.BinOp) and isinstance(t.left.op, ast.Sub) and _norm(t.left.left) in ("1", "1.0", "1."):
                K, E = t.left.right, t.right
                okw = True
    det = src(w)
    if okw:
        from fractions import Fraction
        okw = all(abs(1 - 0 - e_) == 1 - e_ and abs(1 - 1 - e_) == e_ for e_ in (Fraction(1, 5), Fraction(1, 2), Fraction(7, 9)))
    ctx.check(rid, f"{bm.key}::corner weight = prod_d |1 - c_d - excess_d|", okw, det, bm)
    # column: ravel_multi_index((P + K) % M, shape)
    okc = False
    P = None
    if isinstance(col, ast.Call) and call_name(col) == "ravel_multi_index" and len(col.args) == 2 and _norm(col.args[1]) == "self.domain.shape":
        fi_ = col.args[0]
        if isinstance(fi_, ast.BinOp) and isinstance(fi_.op, ast.Mod) and isinstance(fi_.left, ast.BinOp) and isinstance(fi_.left.op, ast.Add):
            P, K2 = fi_.left.left, fi_.left.right
            Mx = inline_at(cfg, rd, cnn.id, fi_.right, depth=1)
            okc = K is not None and _norm(K2) == _norm(K) and _norm(Mx) == "np.array(self.domain.shape).reshape(-1,1)"
    ctx.check(rid, f"{bm.key}::column = flat index of (base + same corner) wrapped at the domain shape", okc, src(col)[:200], bm)
    # one floor
    key = f"{bm.key}::base cell and excess come from the same floor of position/distance"
    if P is None or E is None:
        ctx.und(rid, key, "base / excess terms not identified", bm)
    else:
        Pd = inline_at(cfg, rd, cnn.id, P, depth=1)
        Ed = inline_at(cfg, rd, wn.id, E, depth=1)
        pt, et = _norm(Pd), _norm(Ed)
        okf = False
        q = None
        if isinstance(Pd, ast.Call) and isinstance(Pd.func, ast.Attribute) and Pd.func.attr == "astype" and isinstance(Pd.func.value, ast.Call) \
                and call_name(Pd.func.value) == "floor":
            q = _norm(Pd.func.value.args[0])
            okf = et == f"{q}-np.floor({q})" and "int" in _norm(Pd.args[0])
        if q is None and isinstance(Pd, ast.Call) and isinstance(Pd.func, ast.Attribute) and Pd.func.attr == "astype":
            ctx.bad(rid, key, f"base = `{pt}` truncates toward zero: for negative coordinates it is one cell above floor(position) "
                                  f"while the excess is `{et}`", bm, cst)
        else:
            ctx.check(rid, key, okf, f"base {pt}; excess {et}", bm)
    xn, mn = ap.params()[1:3]
    spf = Spec(m, L, ap, {mn: 1}).run()
    spa = Spec(m, L, ap, {mn: 2}).run()
    tf = [_norm(e) for e, a, st in spf.returns]
    ta = [_norm(e) for e, a, st in spa.returns]
    okk = len(tf) == 1 and len(ta) == 1 and "self._sop.matvec(" in tf[0] and "rmatvec" not in tf[0] and "self._sop.rmatvec(" in ta[0] and "reshape(self.domain.shape)" in ta[0]
    ctx.check(rid, f"{ap.key}::forward = matvec, adjoint = rmatvec reshaped to the domain", okk, f"{tf} / {ta}", ap)


def r35_5(ctx, m):
    """row-major strides of the line-of-sight pixel index"""
    mod = m.module("nifty.cl.library.los_response")
    fi = mod.functions.get("_comp_traverse")
    ctx.rule("R35.5", "LOSResponse: the flat pixel index uses row-major strides, stride[i] = stride[i+1] * shape[i+1] with the last "
                      "stride equal to 1 (the same index in the stride that is read and the extent that multiplies it)", floor=1)
    key = "nifty/cl/library/los_response.py::_comp_traverse::row-major strides"
    if fi is None:
        ctx.und("R35.5", key, "_comp_traverse missing", mod.relpath)
        return
    ctx.saw_func(fi)
    shp = fi.params()[2]
    hits = []
    for lp in walk_no_nested(fi.node):
        if isinstance(lp, ast.For):
            for st in lp.body:
                if isinstance(st, ast.Assign) and isinstance(st.targets[0], ast.Subscript) and isinstance(st.value, ast.BinOp) and isinstance(st.value.op, ast.Mult):
                    a, b = st.value.left, st.value.right
                    arr = src(st.targets[0].value)
                    subs = [x for x in (a, b) if isinstance(x, ast.Subscript)]
                    if len(subs) == 2 and {src(subs[0].value), src(subs[1].value)} == {arr, shp}:
                        hits.append((lp, st, arr))
    if len(hits) != 1:
        ctx.und("R35.5", key, f"{len(hits)} stride recurrences found", fi)
        return
    lp, st, arr = hits[0]
    i = src(lp.target)
    tgt = _norm(st.targets[0].slice)
    rd_stride = [x for x in (st.value.left, st.value.right) if src(x.value) == arr][0]
    rd_shape = [x for x in (st.value.left, st.value.right) if src(x.value) == shp][0]
    good = tgt == i and _norm(rd_stride.slice) == f"{i}+1" and _norm(rd_shape.slice) == f"{i}+1" and _norm(lp.iter).startswith("range(-2,")
    init = [s_ for s_ in walk_no_nested(fi.node) if isinstance(s_, ast.Assign) and src(s_.targets[0]) == arr and isinstance(s_.value, ast.Call)]
    good = good and len(init) == 1 and _norm(init[0].value).startswith(f"np.full(len({shp}),1")
    ctx.check("R35.5", key, good, f"`{src(st)}` in `for {i} in {src(lp.iter)}`" + ("" if good else
              ": the extent that multiplies stride[i+1] must be shape[i+1]; with shape[i] the weights land on the wrong pixels of non-square grids"), fi, st)


_run_c35b = run


def run(ctx):  # noqa: F811
    _run_c35b(ctx)
    r35_5(ctx, ctx.model)


def r35_6(ctx, m):
    """regridding: source coordinate of a new pixel; sampling line of sight: midpoint rule"""
    from .c03 import _load_sympy
    sp = _load_sympy()
    ctx.rule("R35.6", "RegriddingOperator: new pixel i lies at the old-pixel coordinate i * (new distance / old distance) with new "
                      "distance = old distance * shape / new_shape, i.e. at i * shape / new_shape EXACTLY (a real ratio; an integer "
                      "binning factor shape // new_shape is only right when the new shape divides the old one)", floor=1)
    R = m.cls(OPS + "regridding_operator", "RegriddingOperator")
    ini = R.methods["__init__"]
    ctx.saw_func(ini)
    key = f"{ini.key}::source coordinate = i * shape/new_shape"
    if sp is None:
        ctx.und("R35.6", key, "sympy unavailable", ini)
    else:
        D, S, N, I = sp.Symbol("D", positive=True), sp.Symbol("S", integer=True, positive=True), sp.Symbol("N", integer=True, positive=True), sp.Symbol("i", integer=True, nonnegative=True)
        loc = {}
        for st in walk_no_nested(ini.node):
            if isinstance(st, ast.Assign) and isinstance(st.targets[0], ast.Name):
                loc.setdefault(st.targets[0].id, st.value)

        class NU(Exception):
            pass

        def ev(e, depth=0):
            if depth > 6:
                raise NU("depth")
            if isinstance(e, ast.Constant) and isinstance(e.value, (int, float)):
                return sp.nsimplify(e.value)
            if isinstance(e, ast.Subscript):
                t = src(e.value)
                if t.endswith(".distances"):
                    return D
                if t.endswith(".shape") and "new" not in t:
                    return S
                if t == "new_shape":
                    return N
                if isinstance(e.value, ast.Name) and e.value.id in loc:
                    v = loc[e.value.id]
                    # tuple(<elt> for i in range(...))[d] -> elt
                    if isinstance(v, ast.Call) and src(v.func) == "tuple" and v.args and isinstance(v.args[0], ast.GeneratorExp):
                        return ev(v.args[0].elt, depth + 1)
                    if isinstance(v, (ast.ListComp, ast.GeneratorExp)):
                        return ev(v.elt, depth + 1)
                raise NU(src(e))
            if isinstance(e, ast.Call) and call_name(e) == "arange" and len(e.args) == 1:
                return I
            if isinstance(e, ast.Name) and e.id in loc:
                return ev(loc[e.id], depth + 1)
            if isinstance(e, ast.BinOp) and type(e.op) in (ast.Add, ast.Sub, ast.Mult, ast.Div, ast.FloorDiv):
                a, b = ev(e.left, depth + 1), ev(e.right, depth + 1)
                return {ast.Add: lambda: a + b, ast.Sub: lambda: a - b, ast.Mult: lambda: a * b, ast.Div: lambda: a / b, ast.FloorDiv: lambda: sp.floor(a / b)}[type(e.op)]()
            raise NU(src(e)[:50])
        # the coordinate array: the value whose astype(int) becomes the base index
        pos = None
        for st in ast.walk(ini.node):
            if isinstance(st, ast.Assign) and isinstance(st.targets[0], ast.Name) and any(isinstance(c, ast.Call) and call_name(c) == "arange" for c in ast.walk(st.value)):
                pos = st
        if pos is None:
            ctx.und("R35.6", key, "coordinate array not found", ini)
        else:
            try:
                v = ev(pos.value)
                d = sp.simplify(v - I * S / N)
                if d == 0:
                    ctx.ok("R35.6", key, f"`{src(pos)}` reads as {sp.simplify(v)}", ini, pos)
                else:
                    w = v.subs({S: 13, N: 7, I: 3, D: sp.Rational(1, 2)})
                    ctx.bad("R35.6", key, f"`{src(pos)}` reads as {v}; for shape 13 -> 7 pixel 3 sits at {w} instead of {sp.Rational(39, 7)}", ini, pos)
            except NU as exc:
                ctx.und("R35.6", key, f"not understood: {exc}", ini, pos)
    ctx.rule("R35.7", "nifty.re sampling line of sight: the n sampling positions are the MIDPOINTS start + (k + 1/2)(end - start)/n, "
                      "k = 0..n-1, of n equal segments and the sum is weighted with length/n (midpoint rule: exact for fields that vary "
                      "linearly along the line); left end points give an O(1/n) bias", floor=2)
    fi = m.func("nifty.re.extra.sampling_los", "_los", required=False)
    if fi is None or sp is None:
        ctx.und("R35.7", "nifty/re/extra/sampling_los.py::_los", "function or sympy missing", "nifty/re/extra/sampling_los.py")
        return
    ctx.saw_func(fi)
    A, B, n, k = sp.Symbol("a"), sp.Symbol("b"), sp.Symbol("n", positive=True), sp.Symbol("k")
    loc = {}
    for st in fi.node.body:
        if isinstance(st, ast.Assign) and isinstance(st.targets[0], ast.Name):
            loc[st.targets[0].id] = st.value
    npar = "n_sampling_points"
    # roles: the pixel-unit images of the parameters start / end
    role = {}
    for nm_, v_ in loc.items():
        if isinstance(v_, ast.BinOp) and isinstance(v_.op, (ast.Mult, ast.Div)):
            sides = {src(v_.left), src(v_.right)} if isinstance(v_.op, ast.Mult) else {src(v_.left)}
            if "start" in sides:
                role[nm_] = A
            elif "end" in sides:
                role[nm_] = B

    class NU2(Exception):
        pass

    def ev2(e, depth=0):
        if depth > 8:
            raise NU2("depth")
        if isinstance(e, ast.Constant) and isinstance(e.value, (int, float)):
            return sp.nsimplify(e.value)
        if isinstance(e, ast.Name):
            if e.id == npar:
                return n
            if e.id in role:
                return role[e.id]
            if e.id in loc:
                return ev2(loc[e.id], depth + 1)
            raise NU2(e.id)
        if isinstance(e, ast.Subscript):
            return ev2(e.value, depth + 1)   # broadcasting subscripts
        if isinstance(e, ast.BinOp) and type(e.op) in (ast.Add, ast.Sub, ast.Mult, ast.Div):
            a, b = ev2(e.left, depth + 1), ev2(e.right, depth + 1)
            return {ast.Add: a + b, ast.Sub: a - b, ast.Mult: a * b, ast.Div: a / b}[type(e.op)]
        if isinstance(e, ast.Call):
            nm = call_name(e)
            kw = {k_.arg: k_.value for k_ in e.keywords}
            if nm == "arange":
                args = [ev2(x, depth + 1) for x in e.args]
                if len(args) == 1 and args[0] == n:
                    return k
                if len(args) == 2 and args[1] == n:
                    return args[0] + k
            if nm == "linspace" and len(e.args) >= 3:
                a, b, cnt = ev2(e.args[0], depth + 1), ev2(e.args[1], depth + 1), ev2(e.args[2], depth + 1)
                ep = kw.get("endpoint")
                closed = ep is None or src(ep) == "True"
                return a + k * (b - a) / ((cnt - 1) if closed else cnt)
        raise NU2(src(e)[:50])
    mc = [c for c in ast.walk(fi.node) if isinstance(c, ast.Call) and call_name(c) == "map_coordinates" and len(c.args) >= 2]
    key = f"{fi.key}::sampling positions are segment midpoints"
    if len(mc) != 1:
        ctx.und("R35.7", key, f"{len(mc)} map_coordinates calls", fi)
        return
    try:
        p = ev2(mc[0].args[1])
        want = A + (k + sp.Rational(1, 2)) * (B - A) / n
        ctx.check("R35.7", key, sp.simplify(p - want) == 0, f"position k reads as {sp.simplify(p)}; midpoint rule: {want}", fi, mc[0])
    except NU2 as exc:
        ctx.und("R35.7", key, f"not understood: {exc}", fi, mc[0])
    rets = [r for r in walk_no_nested(fi.node) if isinstance(r, ast.Return)]
    t = _norm(rets[0].value) if rets else ""
    lens = {nm_ for nm_, v_ in loc.items() if isinstance(v_, ast.Call) and call_name(v_) == "norm" and _norm(v_.args[0]) in ("end-start", "start-end")}
    okw = None
    if rets and isinstance(rets[0].value, ast.BinOp) and isinstance(rets[0].value.op, ast.Mult):
        for a_, b_ in ((rets[0].value.left, rets[0].value.right), (rets[0].value.right, rets[0].value.left)):
            if isinstance(a_, ast.Call) and call_name(a_) == "sum" and isinstance(b_, ast.BinOp) and isinstance(b_.op, ast.Div) \
                    and src(b_.left) in lens and src(b_.right) == npar:
                okw = True
    ctx.check("R35.7", f"{fi.key}::the sum is weighted with length / n", okw, t[-80:], fi)


_run_c35c = run


def run(ctx):  # noqa: F811
    _run_c35c(ctx)
    r35_6(ctx, ctx.model)


# ---------------------------------------------------------------------------------------------------------------- R35.8 - R35.10
_C35_MODS = ("nifty.cl.library.los_response", "nifty.cl.library.nft", "nifty.re.extra.sampling_los", "nifty.cl.operators.regridding_operator",
             "nifty.cl.operators.field_zero_padder", "nifty.cl.operators.mask_operator", "nifty.cl.operators.linear_interpolation")


def r35_8(ctx, m):
    R = "R35.8"
    ctx.rule(R, "response operators: every option a constructor (or a public module function) accepts is read in its body - an accepted "
                "and documented option that no statement reads (interpolation order, truncation, ...) is silently replaced by the "
                "callee's default", floor=8)
    for mn in _C35_MODS:
        mod = m.module(mn, required=False)
        if mod is None:
            continue
        for fi in mod.all_functions:
            if not (fi.name == "__init__" or (fi.parent is None and fi.cls is None and not fi.name.startswith("_"))):
                continue
            a = fi.node.args
            params = [x.arg for x in a.posonlyargs + a.args + a.kwonlyargs if x.arg not in ("self", "cls") and not x.arg.startswith("_")]
            if not params:
                continue
            ctx.saw_func(fi)
            loads = {z.id for z in ast.walk(fi.node) if isinstance(z, ast.Name) and isinstance(z.ctx, ast.Load)}
            dead = [p for p in params if p not in loads]
            ctx.check(R, f"{fi.key}::every accepted option is read", not dead, f"never read: {dead}" if dead else "", fi)


def r35_9(ctx, m):
    R = "R35.9"
    ctx.rule(R, "response operators: no computed value is dropped - every local that is assigned is read afterwards (a truncated ray "
                "end that is computed and then not used means the integral runs to the nominal end)", floor=20)
    for mn in _C35_MODS:
        mod = m.module(mn, required=False)
        if mod is None:
            continue
        for fi in mod.all_functions:
            stores = {}
            for z in walk_no_nested(fi.node):
                if isinstance(z, ast.Name) and isinstance(z.ctx, ast.Store):
                    stores.setdefault(z.id, z.lineno)
            stores = {k: v for k, v in stores.items() if not k.startswith("_")}
            if not stores:
                continue
            ctx.saw_func(fi)
            loads = {z.id for z in ast.walk(fi.node) if isinstance(z, ast.Name) and isinstance(z.ctx, ast.Load)}
            dead = sorted(k for k in stores if k not in loads)
            ctx.check(R, f"{fi.key}::assigned locals are used", not dead, f"assigned but never read: {[(k, stores[k]) for k in dead]}" if dead else "", fi)


_SHIFT_SELFTEST = '''
class N:
    def apply(self, x, mode):
        if mode == self.TIMES:
            res = nu2u(points=x, forward=False, fft_order=True)
            res = np.fft.ifftshift(res.real)
        else:
            grid = np.fft.fftshift(x)
            res = u2nu(grid=grid, forward=True, fft_order=True)
        return res
'''


def shift_orientation(fn):
    """[(call node, 'out'|'in', name)]: np.fft shifts applied to the output of a non-uniform -> uniform transform ('out') or to the
    grid handed to a uniform -> non-uniform transform ('in')"""
    out = []
    env = {}
    for st in ast.walk(fn):
        if isinstance(st, ast.Assign) and len(st.targets) == 1 and isinstance(st.targets[0], ast.Name):
            env.setdefault(st.targets[0].id, []).append(st.value)
    for z in ast.walk(fn):
        if isinstance(z, ast.Call) and call_name(z) in ("fftshift", "ifftshift") and z.args:
            arg = z.args[0]
            names = {q.id for q in ast.walk(arg) if isinstance(q, ast.Name)}
            from_nu2u = any(isinstance(v, ast.Call) and call_name(v) == "nu2u" for nm in names for v in env.get(nm, ())) or \
                any(isinstance(q, ast.Call) and call_name(q) == "nu2u" for q in ast.walk(arg))
            # the shifted array feeds u2nu(grid=...)
            tgt = [st.targets[0].id for st in ast.walk(fn) if isinstance(st, ast.Assign) and st.value is z and isinstance(st.targets[0], ast.Name)]
            to_u2nu = any(isinstance(q, ast.Call) and call_name(q) == "u2nu" and any(isinstance(k.value, ast.Name) and k.value.id in tgt for k in q.keywords)
                          for q in ast.walk(fn)) or any(isinstance(q, ast.Call) and call_name(q) == "u2nu" and any(z is w for w in ast.walk(q)) for q in ast.walk(fn))
            if from_nu2u:
                out.append((z, "out", call_name(z)))
            elif to_u2nu:
                out.append((z, "in", call_name(z)))
    return out


def r35_10(ctx, m):
    R = "R35.10"
    ctx.rule(R, "non-uniform FFT operators: where the grid is kept centred by explicit shifts around a transform in FFT order, the "
                "transform's OUTPUT is brought to centred order with fftshift and a centred INPUT to FFT order with ifftshift - the two "
                "coincide for even axis lengths only, so a swapped pair stays adjoint-consistent and rolls odd axes by one pixel", floor=0)
    t = ast.parse(_SHIFT_SELFTEST)
    st_ = shift_orientation(t)
    if sorted((a, b) for _, a, b in st_) != [("in", "fftshift"), ("out", "ifftshift")]:
        from ..model import AnalysisError
        raise AnalysisError("R35.10: self-test of the shift matcher failed")
    mod = m.module("nifty.cl.library.nft")
    n = 0
    for fi in mod.all_functions:
        for z, where, nm in shift_orientation(fi.node):
            if not any(q is z for q in walk_no_nested(fi.node)):
                continue
            n += 1
            ctx.saw_func(fi)
            want = "fftshift" if where == "out" else "ifftshift"
            ctx.check(R, f"{fi.key}::`{short(z, 40)}` ({'output of nu2u' if where == 'out' else 'input of u2nu'})", nm == want,
                      f"{nm} where {want} is needed: odd axis lengths are rolled by one pixel", fi, z)
    if not n:
        ctx.ok(R, "nifty/cl/library/nft.py::no explicit shifts", "the back-end keeps the grid centred (fft_order is not requested)", mod.relpath)


_run_c35x = run


def run(ctx):  # noqa: F811
    _run_c35x(ctx)
    r35_8(ctx, ctx.model)
    r35_9(ctx, ctx.model)
    r35_10(ctx, ctx.model)


# ---------------------------------------------------------------------------------------------------------------- R35.11
def r35_11(ctx, m):
    R = "R35.11"
    ctx.rule(R, "nifty.re SamplingCartesianGridLOS: start / end are documented as (n_points, n_dim) or (n_dim,): the vmap over axis 0 of "
                "both is not taken when both are one-dimensional (axis 0 is then the COORDINATE axis) - a single line of sight is "
                "integrated directly - and the declared target has one entry per line of sight (the broadcast shape without the "
                "coordinate axis), not the shape of the end points", floor=2)
    C = m.cls("nifty.re.extra.sampling_los", "SamplingCartesianGridLOS", required=False)
    if C is None:
        ctx.und(R, "nifty/re/extra/sampling_los.py::SamplingCartesianGridLOS", "class missing", "nifty/re/extra/sampling_los.py")
        return
    call, init = C.methods.get("__call__"), C.methods.get("__init__")
    ctx.saw_func(call)
    from ..util import cfg_of, find_nodes, known_atoms
    cfg = cfg_of(call)
    vm = [(n, z) for n, z in find_nodes(cfg, lambda q: isinstance(q, ast.Call) and src(q.func).endswith("vmap"))]
    key = f"{call.key}::single line of sight is not mapped over its coordinate axis"
    if not vm:
        ctx.und(R, key, "no vmap found", call)
    else:
        n, z = vm[0]
        atoms = known_atoms(cfg, n.id)
        excl = any((not pol) and "ndim" in src(t) and "1" in src(t) and "start" in src(t) and "end" in src(t) for t, pol in atoms) or \
            any((not pol) and "ndim" in src(t) and "== 1" in src(t) for t, pol in atoms)
        direct = any(isinstance(r, ast.Return) and isinstance(r.value, ast.Call) and src(r.value.func) == "self._los" for r in ast.walk(call.node))
        ctx.check(R, key, bool(excl and direct), "" if (excl and direct) else
                  "vmap(in_axes=(None, 0, 0)) is reachable with start.ndim == end.ndim == 1: it maps over the coordinates", call, z)
    ctx.saw_func(init)
    key = f"{init.key}::target has one entry per line of sight"
    tg = [k.value for c in ast.walk(init.node) if isinstance(c, ast.Call) for k in c.keywords if k.arg == "target"]
    if not tg:
        ctx.und(R, key, "target= not found", init)
    else:
        t = tg[0]
        arg = t.args[0] if isinstance(t, ast.Call) and t.args else t
        env = {st.targets[0].id: st.value for st in ast.walk(init.node) if isinstance(st, ast.Assign) and len(st.targets) == 1 and isinstance(st.targets[0], ast.Name)}
        e = env.get(arg.id, arg) if isinstance(arg, ast.Name) else arg
        txt = src(e).replace(" ", "")
        raw = txt.endswith("end.shape") or txt.endswith("start.shape")
        drops = "[:-1]" in txt
        ctx.check(R, key, True if drops else (False if raw else None), f"target shape `{src(e)}`" + (": includes the coordinate axis" if raw else ""), init)


_run_c35y = run


def run(ctx):  # noqa: F811
    _run_c35y(ctx)
    r35_11(ctx, ctx.model)
