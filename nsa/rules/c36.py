"""C36 (clause) - the per-sample statistics fed into the fit diagnostics are the documented formulas.

Decided on terms: which quantity is accumulated under which reported name, what is divided by what, what counts as ignored.
Not decided: the averaging over samples inside StatCalculator / jnp.mean (numerical), the printed table.
"""
import ast

from ..model import src, short, walk_no_nested, call_name
from ..terms import inline_at
from ..util import cfg_of, find_nodes, known_atoms

EX = "nifty.cl.extra"
MS = "nifty.re.minisanity"


def run(ctx):
    m = ctx.model
    # ------------------------------------------------------------------------------------------------ JAX
    ctx.rule("R36.1", "nifty.re: per leaf and sample, mean = sum(x)/size, reduced chi-square = vdot(x, x).real/ndof with ndof = size "
                      "for real and 2*size for complex input; the statistics are mapped over the samples and reported as "
                      "[mean over samples, std over samples], ndof once", floor=5)
    ms = m.module(MS)
    rp = ms.functions.get("_residual_params")
    if rp is None:
        ctx.error(f"{MS}._residual_params missing")
        return
    ctx.saw_func(rp)
    a0 = rp.params()[0]
    cfg = cfg_of(rp)
    rd = cfg.reaching_defs(rp.params())
    rets = [n for n in cfg.nodes if n.kind == "stmt" and isinstance(n.ast, ast.Return)]
    key = f"{rp.key}::returns (mean, reduced chi-square, ndof)"
    if len(rets) != 1 or not isinstance(rets[0].ast.value, ast.Tuple) or len(rets[0].ast.value.elts) != 3:
        ctx.und("R36.1", key, "return shape not recognised", rp)
    else:
        from fractions import Fraction
        from ..poly import poly, p_str

        def norm_term(e, cplx):
            """rational normal form over the atoms SUM = sum(x), VD = vdot(x,x).real, N = x.size (ndof resolved for real/complex)"""
            import copy

            class R(ast.NodeTransformer):
                def visit_IfExp(self, node):
                    t = src(node.test).replace(" ", "")
                    if t in (f"jnp.isrealobj({a0})", f"notjnp.iscomplexobj({a0})"):
                        return self.visit(node.orelse if cplx else node.body)
                    if t in (f"jnp.iscomplexobj({a0})", f"notjnp.isrealobj({a0})"):
                        return self.visit(node.body if cplx else node.orelse)
                    return self.generic_visit(node)

                def visit_Call(self, node):
                    t = src(node).replace(" ", "")
                    if t in (f"jnp.sum({a0})", f"{a0}.sum()"):
                        return ast.Name(id="SUM", ctx=ast.Load())
                    if t in (f"jnp.mean({a0})", f"{a0}.mean()"):
                        return ast.BinOp(left=ast.Name(id="SUM", ctx=ast.Load()), op=ast.Div(), right=ast.Name(id="N", ctx=ast.Load()))
                    return self.generic_visit(node)

                def visit_Attribute(self, node):
                    t = src(node).replace(" ", "")
                    if t == f"{a0}.size":
                        return ast.Name(id="N", ctx=ast.Load())
                    if t in (f"jnp.vdot({a0},{a0}).real", f"jnp.vdot({a0},{a0})"):
                        return ast.Name(id="VD", ctx=ast.Load())
                    if t in (f"jnp.dot({a0},{a0}).real", f"({a0}*{a0}).sum().real", f"jnp.sum({a0}*{a0}).real", f"jnp.sum({a0}**2).real"):
                        return ast.Name(id="UNCONJUGATED_SQUARE", ctx=ast.Load())   # x.x without conjugation: not |x|^2 for complex x
                    return self.generic_visit(node)
            e2 = R().visit(copy.deepcopy(e))
            return _ratio(e2)

        def _ratio(e):
            """(numerator poly, denominator poly) of an expression with +,-,*,/ over names and constants"""
            from ..poly import p_mul, p_add, p_const, p_sym
            if isinstance(e, ast.Name):
                return p_sym(e.id), p_const(1)
            if isinstance(e, ast.Constant) and isinstance(e.value, (int, float)) and not isinstance(e.value, bool):
                return p_const(e.value), p_const(1)
            if isinstance(e, ast.BinOp):
                (an, ad), (bn, bd) = _ratio(e.left), _ratio(e.right)
                if isinstance(e.op, ast.Mult):
                    return p_mul(an, bn), p_mul(ad, bd)
                if isinstance(e.op, ast.Div):
                    return p_mul(an, bd), p_mul(ad, bn)
                if isinstance(e.op, (ast.Add, ast.Sub)):
                    return p_add(p_mul(an, bd), p_mul(bn, ad), 1 if isinstance(e.op, ast.Add) else -1), p_mul(ad, bd)
            raise KeyError(src(e))

        def same_ratio(r, want):
            from ..poly import p_mul
            return p_mul(r[0], want[1]) == p_mul(want[0], r[1])
        from ..poly import p_sym, p_const, p_mul
        els = [inline_at(cfg, rd, rets[0].id, e, depth=3) for e in rets[0].ast.value.elts]
        verd = {"mean": True, "chi": True, "ndof": True}
        det = {}
        try:
            for cplx in (False, True):
                f = 2 if cplx else 1
                mean_r, chi_r, nd_r = [norm_term(e, cplx) for e in els]
                want_mean = (p_sym("SUM"), p_sym("N"))
                want_nd = (p_mul(p_const(f), p_sym("N")), p_const(1))
                want_chi = (p_sym("VD"), p_mul(p_const(f), p_sym("N")))
                tag = "complex" if cplx else "real"
                if not same_ratio(mean_r, want_mean):
                    verd["mean"] = False
                    det["mean"] = f"{tag} input: mean = ({p_str(mean_r[0])})/({p_str(mean_r[1])}), documented sum(x)/size"
                if not same_ratio(chi_r, want_chi):
                    verd["chi"] = False
                    det["chi"] = f"{tag} input: reduced chi-square = ({p_str(chi_r[0])})/({p_str(chi_r[1])})"
                if not same_ratio(nd_r, want_nd):
                    verd["ndof"] = False
                    det["ndof"] = f"{tag} input: ndof = ({p_str(nd_r[0])})/({p_str(nd_r[1])})"
        except KeyError as exc:
            verd = {k: None for k in verd}
            det = {k: f"term outside the rational fragment: {exc}" for k in verd}
        ctx.check("R36.1", f"{rp.key}::mean = sum(x)/size", verd["mean"], det.get("mean") or src(els[0]), rp)
        ctx.check("R36.1", f"{rp.key}::reduced chi-square = vdot(x, x).real/ndof", verd["chi"], det.get("chi") or src(els[1]), rp)
        ctx.check("R36.1", f"{rp.key}::ndof = size (real) / 2*size (complex)", verd["ndof"], det.get("ndof") or src(els[2]), rp)
    rs = ms.functions.get("reduced_residual_stats")
    if rs is not None:
        ctx.saw_func(rs)
        inner = [n for n in ast.walk(rs.node) if isinstance(n, ast.FunctionDef) and n is not rs.node]
        okk = None
        det = None
        for fn in inner:
            rr = [r for r in walk_no_nested(fn) if isinstance(r, ast.Return)]
            if len(rr) == 1 and isinstance(rr[0].value, ast.Call) and call_name(rr[0].value) == "ChiSqStats":
                from ..cfg import CFG
                c2 = CFG(fn)
                rd2 = c2.reaching_defs([a.arg for a in fn.args.args])
                rn = [n for n in c2.nodes if n.kind == "stmt" and n.ast is rr[0]][0]
                e = inline_at(c2, rd2, rn.id, rr[0].value, depth=2, unpack_calls=True)
                args = [src(a).replace(" ", "") for a in e.args]
                det = str(args)
                s_ = fn.args.args[0].arg
                g = f"get_stats({s_})"
                okk = len(args) == 3 and args[0] == f"jnp.array([jnp.mean({g}[0]),jnp.std({g}[0])])" and \
                    args[1] == f"jnp.array([jnp.mean({g}[1]),jnp.std({g}[1])])" and args[2] == f"{g}[2][0]"
        ctx.check("R36.1", f"{rs.key}::reports [mean, std] over the samples of (mean, reduced chi-square) in this order, ndof once", okk, det, rs)
        gs = [st for st in walk_no_nested(rs.node) if isinstance(st, ast.Assign) and src(st.targets[0]) == "get_stats"]
        ctx.check("R36.1", f"{rs.key}::statistics are mapped over the sample axis with _residual_params", len(gs) == 1 and src(gs[0].value) == "map(_residual_params)",
                  src(gs[0].value) if gs else None, rs)
    # ------------------------------------------------------------------------------------------------ classic
    ctx.rule("R36.2", "nifty.cl.extra.minisanity: per key and sample, with x the normalised residual (resp. the latent sample), the "
                      "ignored entries are the NaN and the exactly-zero ones; 'redchisq' accumulates nansum(|x|^2)/ndof, 'scmean' "
                      "nansum(x)/n with n = size - #NaN - #zero and ndof = n for real, 2n for complex x (as nifty.re does), 'ndof' reports ndof and 'nigndof' #NaN + #zero; data residuals come "
                      "from likelihood_energy.normalized_residual, latent variables are the samples themselves", floor=6)
    ex = m.module(EX)
    fi = ex.functions.get("minisanity")
    if fi is None:
        ctx.error(f"{EX}.minisanity missing")
        return
    ctx.saw_func(fi)
    cfg = cfg_of(fi)
    rd = cfg.reaching_defs(fi.params())
    # roles through the returned dictionary
    dicts = [d for d in ast.walk(fi.node) if isinstance(d, ast.Dict) and {"redchisq", "scmean", "ndof", "nigndof"} <= {k.value for k in d.keys if isinstance(k, ast.Constant)}]
    if len(dicts) != 1:
        ctx.und("R36.2", f"{fi.key}::returned dictionary", f"{len(dicts)} candidate dictionaries", fi)
        return
    roles = {}
    for k, v in zip(dicts[0].keys, dicts[0].values):
        if isinstance(v, ast.Dict) and len(v.values) == 2:
            bases = {src(x.value) for x in v.values if isinstance(x, ast.Subscript)}
            idx = [src(x.slice) for x in v.values if isinstance(x, ast.Subscript)]
            dk = [kk.value for kk in v.keys if isinstance(kk, ast.Constant)]
            if len(bases) == 1 and idx == ["0", "1"] and dk == ["data_residuals", "latent_variables"]:
                roles[k.value] = bases.pop()
    ctx.check("R36.2", f"{fi.key}::returned dictionary maps data_residuals -> slot 0 and latent_variables -> slot 1 for all four statistics",
              set(roles) >= {"redchisq", "scmean", "ndof", "nigndof"} and len(set(roles.values())) == 4, str(roles), fi)
    if not set(roles) >= {"redchisq", "scmean", "ndof", "nigndof"}:
        return
    # the per-key array and the ignored counts
    loops = [st for st in ast.walk(fi.node) if isinstance(st, ast.For) and any(isinstance(c, ast.Call) and call_name(c) == "nansum" for c in ast.walk(st))]
    inner = loops[-1] if loops else None
    if inner is None:
        ctx.und("R36.2", f"{fi.key}::per-key loop", "not found", fi)
        return
    # innermost loop containing the nansum calls
    for st in loops:
        if all(any(x is st for x in ast.walk(o)) for o in loops):
            inner = st
    body_nodes = [n for n in cfg.nodes if n.kind in ("stmt", "test") and n.ast is not None and any(x is n.ast or x is getattr(n.ast, "value", None) for b in inner.body for x in ast.walk(b))]

    def at_node(pred):
        hits = [(n, c) for n, c in find_nodes(cfg, pred) if any(x is c for b in inner.body for x in ast.walk(b))]
        return hits
    adds = at_node(lambda q: isinstance(q, ast.Call) and isinstance(q.func, ast.Attribute) and q.func.attr == "add" and len(q.args) == 1)
    stores = [(n, n.ast) for n in cfg.nodes if n.kind == "stmt" and isinstance(n.ast, ast.Assign) and isinstance(n.ast.targets[0], ast.Subscript)
              and any(x is n.ast for b in inner.body for x in ast.walk(b))]

    def base_of(sub):
        while isinstance(sub, ast.Subscript):
            sub = sub.value
        return src(sub)
    # array variable: the argument of isnan
    isn = at_node(lambda q: isinstance(q, ast.Call) and call_name(q) == "isnan")
    if not isn:
        ctx.und("R36.2", f"{fi.key}::NaN count", "no isnan call in the per-key loop", fi)
        return
    arr = src(isn[0][1].args[0])
    norm = lambda e: src(e).replace(" ", "")  # noqa: E731

    def inl(n, e, depth=3):
        return inline_at(cfg, rd, n.id, e, depth=depth, stop=(arr,))
    want_nan = f"np.sum(np.isnan({arr}))"
    want_zero = f"np.sum({arr}==0)"
    want_n = f"{arr}.size-{want_nan}-{want_zero}"
    # degrees of freedom: two per complex entry (|x|^2 of a normalised complex residual has expectation 2)
    want_dof = (f"2*({want_n})ifnp.iscomplexobj({arr})else{want_n}", f"{want_n}ifnp.isrealobj({arr})else2*({want_n})",
                f"2*{want_n}ifnp.iscomplexobj({arr})else{want_n}", f"({want_n})*(2ifnp.iscomplexobj({arr})else1)")
    for role, wanted, what in (("ndof", want_dof, "degrees of freedom = n (real) / 2n (complex), n = size - #NaN - #zero"),
                               ("nigndof", (f"{want_nan}+{want_zero}", f"{want_zero}+{want_nan}"), "#NaN + #zero")):
        ss = [(n, a) for n, a in stores if base_of(a.targets[0]) == roles[role]]
        if len(ss) != 1:
            ctx.und("R36.2", f"{fi.key}::'{role}' = {what}", f"{len(ss)} stores into {roles[role]}", fi)
            continue
        n, a = ss[0]
        t = norm(inl(n, a.value))
        if role == "ndof":
            ctx.check("R36.2", f"{fi.key}::'ndof' is derived from n = size - #NaN - #zero", t == want_n or t in wanted, t, fi, a)
            ctx.check("R36.2", f"{fi.key}::'ndof' counts two degrees of freedom per complex entry (as nifty.re does)", t in wanted, t, fi, a)
        else:
            ctx.check("R36.2", f"{fi.key}::'{role}' = {what}", t in wanted, t, fi, a)
    for role, num, what in (("redchisq", (f"np.nansum(abs({arr})**2)", f"np.nansum(np.abs({arr})**2)"), "nansum(|x|^2)/ndof (ndof = 2n for complex x)"),
                            ("scmean", (f"np.nansum({arr})",), "nansum(x)/n")):
        aa = [(n, c) for n, c in adds if base_of(c.func.value) == roles[role]]
        if not aa:
            ctx.und("R36.2", f"{fi.key}::'{role}' accumulates {what}", f"no add into {roles[role]}", fi)
            continue
        verdict, det = True, []
        cplx_ok = []

        def raw_ok_pre(t_, num_):
            return t_ in num_
        for n, c in aa:
            # walrus temporaries: resolve `tmp` to the NamedExpr value in the dominating test
            e = c.args[0]
            e2 = _resolve_walrus(cfg, n, e)
            t = norm(inl(n, e2))
            at = known_atoms(cfg, n.id)
            zero_case = any(pol and "==0" in norm(tt) and "lsize" in norm(tt) or (pol and norm(tt).endswith("==0")) for tt, pol in at)
            dens = (want_n,) + (want_dof if role == "redchisq" else ())
            full = tuple(f"{x}/({d_})" for x in num for d_ in dens) + tuple(f"{x}/{d_}" for x in num for d_ in dens)
            full2 = tuple(f"{x}/({d_})" for x in num for d_ in want_dof) + tuple(f"{x}/{d_}" for x in num for d_ in want_dof)
            if role == "redchisq" and not raw_ok_pre(t, num):
                strip = lambda q: q.replace("(", "").replace(")", "")  # noqa: E731
                cplx_ok.append(t in full2 or strip(t) in tuple(strip(f) for f in full2))
            raw_ok = t in num
            if t in full or t.replace("(", "").replace(")", "") in tuple(f.replace("(", "").replace(")", "") for f in full):
                det.append(f"{t[:90]}")
            elif raw_ok and _empty_guard(at, want_n, arr, cfg, rd, n):
                det.append("raw sum only when it is 0 and n == 0")
            else:
                verdict = False
                det.append(f"accumulates `{t[:160]}`")
        if role == "redchisq":
            ctx.check("R36.2", f"{fi.key}::'redchisq' accumulates nansum(|x|^2) over the counted entries", verdict, "; ".join(det), fi, aa[0][1])
            ctx.check("R36.2", f"{fi.key}::'redchisq' counts two degrees of freedom per complex entry (as nifty.re does)",
                      (all(cplx_ok) and bool(cplx_ok)) if verdict else None, "; ".join(det), fi, aa[0][1])
        else:
            ctx.check("R36.2", f"{fi.key}::'{role}' accumulates {what}", verdict, "; ".join(det), fi, aa[0][1])
    # where the two statistics come from
    zips = [c for c in ast.walk(fi.node) if isinstance(c, ast.Call) and call_name(c) == "zip" and len(c.args) == 2 and all("iterator(" in src(a) for a in c.args)]
    key = f"{fi.key}::slot 0 iterates the normalised residual, slot 1 the sample itself, over the same sample list"
    lst = None
    if len(zips) == 1:
        ar = zips[0].args
        if all(isinstance(a_, ast.Call) and src(a_.func) == f"{fi.params()[1]}.iterator" and len(a_.args) == 1 and isinstance(a_.args[0], ast.Subscript) for a_ in ar):
            b0, b1 = src(ar[0].args[0].value), src(ar[1].args[0].value)
            if b0 == b1 and [src(a_.args[0].slice) for a_ in ar] == ["0", "1"]:
                lst = b0
    if lst is None:
        ctx.und("R36.2", key, "zip(samples.iterator(L[0]), samples.iterator(L[1])) not found", fi)
        return
    apps = sorted([c for c in ast.walk(fi.node) if isinstance(c, ast.Call) and isinstance(c.func, ast.Attribute) and c.func.attr == "append"
                   and src(c.func.value) == lst and len(c.args) == 1], key=lambda c: (c.lineno, c.col_offset))
    # names bound to <likelihood>.normalized_residual
    resnames = {src(st.targets[0]) for st in ast.walk(fi.node) if isinstance(st, ast.Assign) and src(st.value) == f"{fi.params()[0]}.normalized_residual"}

    def lambdas_of(e):
        if isinstance(e, ast.Lambda):
            return [e]
        if isinstance(e, ast.Name):
            return [st.value for st in ast.walk(fi.node) if isinstance(st, ast.Assign) and src(st.targets[0]) == e.id and isinstance(st.value, ast.Lambda)]
        return []

    def kind(lam):
        xa = lam.args.args[0].arg
        b = lam.body
        while isinstance(b, ast.Call) and isinstance(b.func, ast.Attribute) and b.func.attr == "ducktape_left":
            b = b.func.value
        if isinstance(b, ast.Name) and b.id == xa:
            return "identity"
        if isinstance(b, ast.Call) and src(b.func) in resnames | {f"{fi.params()[0]}.normalized_residual"} and [src(z) for z in b.args] == [xa]:
            return "residual"
        return "other"
    kinds = []
    for c in apps:
        ks = {kind(l_) for l_ in lambdas_of(c.args[0])}
        kinds.append(ks)
    # appends in source order: first the residual operator(s) (alternatives of one if/else), then the identity
    flat = ["/".join(sorted(k)) for k in kinds]
    okk = bool(flat) and flat[0] == "residual" and all(f == "identity" for f in flat[1:]) and len(flat) >= 2
    ctx.check("R36.2", key, okk, f"appended in order: {flat}", fi)


def _resolve_walrus(cfg, node, e):
    """replace names bound by `(name := value)` in a dominating test by that value"""
    import copy
    from ..util import guards
    binds = {}
    for t, pol in guards(cfg, node.id):
        for x in ast.walk(t):
            if isinstance(x, ast.NamedExpr) and isinstance(x.target, ast.Name):
                binds[x.target.id] = x.value
    if not binds:
        return e

    class R(ast.NodeTransformer):
        def visit_Name(self, n):
            if n.id in binds and isinstance(n.ctx, ast.Load):
                return copy.deepcopy(binds[n.id])
            return n
    return R().visit(copy.deepcopy(e))


def _empty_guard(atoms, want_n, arr, cfg, rd, n):
    """the raw (undivided) sum is only accumulated under `sum == 0 and n == 0`"""
    for t, pol in atoms:
        s_ = src(t).replace(" ", "")
        if pol and s_.endswith("==0") and "lsize" not in s_ and ":=" not in s_:
            pass
    txt = [(src(t).replace(" ", ""), pol) for t, pol in atoms]
    has_sum0 = any(pol and "nansum" in s_ and s_.endswith("==0") for s_, pol in txt)
    has_n0 = False
    for t, pol in atoms:
        if pol and isinstance(t, ast.Compare) and len(t.ops) == 1 and isinstance(t.ops[0], ast.Eq) and src(t.comparators[0]) == "0":
            tt = src(inline_at(cfg, rd, n.id, t.left, depth=2, stop=(arr,))).replace(" ", "")
            if tt == want_n:
                has_n0 = True
    return has_sum0 and has_n0


def r36_3(ctx, m):
    from ..util import cfg_of, known_atoms, find_nodes
    mi = m.func(EX, "minisanity")
    ctx.saw_func(mi)
    ctx.rule("R36.3", "classic minisanity: a lambda stored for later use (the per-sample operators) captures only variables that are not "
                      "assigned again after its creation - closures bind late, a later `name = ...` would re-label the data residuals", floor=2)
    stores = [st for st in ast.walk(mi.node) if isinstance(st, (ast.Assign, ast.AugAssign, ast.For))]
    n = 0
    for lam in [x for x in ast.walk(mi.node) if isinstance(x, ast.Lambda)]:
        params = {a.arg for a in lam.args.args}
        free = {x.id for x in ast.walk(lam.body) if isinstance(x, ast.Name) and isinstance(x.ctx, ast.Load) and x.id not in params}
        later = []
        for st in stores:
            tgts = st.targets if isinstance(st, ast.Assign) else [st.target]
            names = {x.id for t in tgts for x in ast.walk(t) if isinstance(x, ast.Name)}
            if st.lineno > lam.lineno and names & free:
                later.append((st, sorted(names & free)))
        local_free = sorted(v for v in free if any(v in {x.id for t in (s_.targets if isinstance(s_, ast.Assign) else [s_.target]) for x in ast.walk(t) if isinstance(x, ast.Name)} for s_ in stores))
        if not local_free:
            continue
        n += 1
        ctx.check("R36.3", f"{mi.key}::`{short(lam, 50)}` captures {local_free}, none of them re-assigned afterwards", not later,
                  f"`{src(later[0][0])[:70]}` (line {later[0][0].lineno}) re-binds {later[0][1]} after the lambda was created: the lambda will see the new value" if later else None, mi, lam)
    if not n:
        ctx.und("R36.3", f"{mi.key}::stored lambdas", "no lambda capturing a local found", mi)
    ctx.rule("R36.4", "classic minisanity: every division by the number of counted entries is on a path where that number is known to "
                      "be non-zero or the numerator is not (a key whose entries are all ignored reports 0, not 0/0 = NaN)", floor=2)
    cfg = cfg_of(mi)
    n = 0
    counts = {"lsize"} | {st.targets[0].id for st in ast.walk(mi.node) if isinstance(st, ast.Assign) and len(st.targets) == 1 and isinstance(st.targets[0], ast.Name)
                          and any(isinstance(z, ast.Name) and z.id == "lsize" for z in ast.walk(st.value))}
    for nd in cfg.nodes:
        if nd.kind != "stmt" or nd.ast is None:
            continue
        for b in ast.walk(nd.ast):
            if isinstance(b, ast.BinOp) and isinstance(b.op, ast.Div) and isinstance(b.right, ast.Name) and b.right.id in counts:
                n += 1
                atoms = known_atoms(cfg, nd.id)
                # the guard `<num> == 0 and lsize == 0` is false on this path
                guarded = any((not pol) and "lsize == 0" in src(t) for t, pol in atoms) or any(pol and src(t) in ("lsize != 0", "lsize > 0", "0 < lsize") for t, pol in atoms)
                ctx.check("R36.4", f"{mi.key}::division {n} by the entry count `{short(b, 40)}` is not evaluated as 0/0", guarded,
                          f"guards {[('' if p else 'not ') + src(t)[:50] for t, p in atoms][-3:]}: with every entry ignored this is 0/0", mi, b)
    if not n:
        ctx.und("R36.4", f"{mi.key}::divisions by the entry count", "none found", mi)
    ctx.rule("R36.5", "nifty.re reduced_residual_stats: `func` is applied to what the statistics are computed from on EVERY path (bare "
                      "position, empty and non-empty Samples): the application is guarded by `func is not None` only", floor=1)
    rr = m.func(MS, "reduced_residual_stats")
    ctx.saw_func(rr)
    cfg = cfg_of(rr)
    apps = [(nd, c) for nd, c in find_nodes(cfg, lambda q: isinstance(q, ast.Call) and isinstance(q.func, ast.Call) and src(q.func.args[0]) == "func" if isinstance(q, ast.Call) and isinstance(q.func, ast.Call) and q.func.args else False)]
    key = f"{rr.key}::func is applied on every path"
    if not apps:
        apps = [(nd, c) for nd, c in find_nodes(cfg, lambda q: isinstance(q, ast.Call) and src(q.func) == "func")]
    if len(apps) != 1:
        ctx.und("R36.5", key, f"{len(apps)} applications of func", rr)
    else:
        nd, c = apps[0]
        atoms = known_atoms(cfg, nd.id)
        other = [(t, pol) for t, pol in atoms if "func" not in src(t)]
        in_ifexp = isinstance(nd.ast, ast.Assign) and isinstance(nd.ast.value, ast.IfExp) and "func" in src(nd.ast.value.test)
        fguard = in_ifexp or any("func" in src(t) for t, pol in atoms)
        ctx.check("R36.5", key, (not other) and fguard if (other or fguard) else None,
                  f"`{short(c, 50)}` only under {[('' if p else 'not ') + src(t)[:60] for t, p in other]}: for the other inputs func is silently ignored" if other else None, rr, c)


_run_c36b = run


def run(ctx):  # noqa: F811
    _run_c36b(ctx)
    r36_3(ctx, ctx.model)


# ---------------------------------------------------------------------------------------------------------------- R36.6 - R36.8
def r36_7(ctx, m):
    R = "R36.7"
    ctx.rule(R, "classic normalized_residual(x) is a function of x alone: no method of that name in energy_operators.py stores into "
                "`self` (a remembered operator built from the metric at the FIRST position is reused for every later sample of a "
                "likelihood whose metric depends on the position) and the metric factor is evaluated at the argument", floor=1)
    mod = m.module("nifty.cl.operators.energy_operators")
    n = 0
    for c in mod.classes.values():
        fi = c.methods.get("normalized_residual")
        if fi is None:
            continue
        n += 1
        ctx.saw_func(fi)
        xp = fi.params()[1]
        stores = [st for st in walk_no_nested(fi.node) if isinstance(st, (ast.Assign, ast.AugAssign))
                  for t in (st.targets if isinstance(st, ast.Assign) else [st.target]) if isinstance(t, ast.Attribute) and src(t.value) == "self"]
        at_x = any(isinstance(z, ast.Call) and "sqrt_data_metric_at" in src(z.func) and z.args and src(z.args[0]) == xp for z in ast.walk(fi.node))
        ctx.check(R, f"{fi.key}::no state is kept between samples", (not stores) and at_x,
                  f"`{short(stores[0], 60)}` stores into self" if stores else ("" if at_x else "metric factor not evaluated at the argument"), fi, stores[0] if stores else None)
    if not n:
        ctx.und(R, f"{mod.name}::normalized_residual", "method not found", mod.relpath)


def r36_8(ctx, m):
    R = "R36.8"
    ctx.rule(R, "classic _LikelihoodSum: the per-summand prefix operators and the likelihoods whose data-space metric they wrap are "
                "paired position by position - every list handed to zip(...) in the constructor is filled by an append in the SAME "
                "block of the loop (a list of all summands zipped with a list of the data-carrying ones shifts the pairing as soon as a "
                "residual-free summand is not last)", floor=1)
    C = m.cls("nifty.cl.operators.energy_operators", "_LikelihoodSum", required=False)
    if C is None or "__init__" not in C.methods:
        ctx.und(R, "nifty/cl/operators/energy_operators.py::_LikelihoodSum", "class missing", "nifty/cl/operators/energy_operators.py")
        return
    fi = C.methods["__init__"]
    ctx.saw_func(fi)
    # append sites: name -> list of id(enclosing statement list)
    sites = {}

    def visit(body):
        for st in body:
            for z in ast.walk(st) if isinstance(st, ast.Expr) else ():
                if isinstance(z, ast.Call) and isinstance(z.func, ast.Attribute) and z.func.attr == "append" and isinstance(z.func.value, ast.Name):
                    sites.setdefault(z.func.value.id, []).append(id(body))
            for fld in ("body", "orelse", "finalbody"):
                sub = getattr(st, fld, None)
                if isinstance(sub, list) and sub and isinstance(sub[0], ast.stmt):
                    visit(sub)
    visit(fi.node.body)
    zips = [z for z in ast.walk(fi.node) if isinstance(z, ast.Call) and isinstance(z.func, ast.Name) and z.func.id == "zip" and len(z.args) >= 2
            and all(isinstance(a, ast.Name) for a in z.args)]
    if not zips:
        ctx.und(R, f"{fi.key}::zip of parallel lists", "no zip over named lists", fi)
        return
    for z in zips:
        names = [a.id for a in z.args]
        blocks = [tuple(sites.get(nm, ())) for nm in names]
        ok = all(b and b == blocks[0] for b in blocks)
        unfilled = [nm for nm, b in zip(names, blocks) if not b]
        ctx.check(R, f"{fi.key}::`{src(z)}` pairs lists filled together", ok,
                  (f"{unfilled} is not filled in the loop (all summands) while {[n_ for n_ in names if n_ not in unfilled]} is filled only for "
                   "data-carrying summands") if unfilled else ("lists are appended in different blocks" if not ok else ""), fi, z)


_run_c36c = run


def run(ctx):  # noqa: F811
    _run_c36c(ctx)
    from .alias import alias
    from . import c12
    # residual diagnostics of a frozen likelihood see the frozen values (shared with C12's freeze table)
    alias(ctx, c12._run_c12, {"R12.3": "R36.6"}, "shared with C12")
    r36_7(ctx, ctx.model)
    r36_8(ctx, ctx.model)
