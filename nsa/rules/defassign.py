"""Shared rule: definite assignment - a local name read in a function is bound on every path that reaches the read."""
import ast

from ..model import src, walk_no_nested
from ..cfg import CFG


def unbound_reads(fi):
    """[(name, line)] of locals of fi that may be read before they are bound (non-exceptional paths)"""
    fn = fi.node
    stored, glob = set(), set()
    for z in walk_no_nested(fn):
        if isinstance(z, (ast.Global, ast.Nonlocal)):
            glob |= set(z.names)
        if isinstance(z, ast.Name) and isinstance(z.ctx, (ast.Store, ast.Del)):
            stored.add(z.id)
        if isinstance(z, (ast.Import, ast.ImportFrom)):
            for a in z.names:
                stored.add((a.asname or a.name).split(".")[0])
        if isinstance(z, (ast.FunctionDef, ast.ClassDef, ast.AsyncFunctionDef)) and z is not fn:
            stored.add(z.name)
        if isinstance(z, ast.ExceptHandler) and z.name:
            stored.add(z.name)
    stored -= glob
    a = fn.args
    allp = {x.arg for x in a.posonlyargs + a.args + a.kwonlyargs} | ({a.vararg.arg} if a.vararg else set()) | ({a.kwarg.arg} if a.kwarg else set())
    if not stored:
        return []
    cfg = CFG(fn)
    IN = cfg.definitely_assigned(allp, include_exc=False)
    out, seen = [], set()
    for n in cfg.nodes:
        if IN.get(n.id) is None or n.ast is None:
            continue
        for u in cfg.node_uses(n):
            nm = u if isinstance(u, str) else getattr(u, "id", None)
            if nm in stored and nm not in allp and nm not in IN[n.id] and nm not in seen:
                seen.add(nm)
                out.append((nm, getattr(n.ast, "lineno", 0)))
    return out


def defassign_rule(ctx, rid, funcs, what, floor=1):
    """funcs: list of (module name, qualname)"""
    ctx.rule(rid, f"definite assignment in {what}: every local name is bound on every (non-exceptional) path that reaches a read of it - "
                  "a documented argument form whose branch binds nothing ends in UnboundLocalError instead of a result", floor=floor)
    m = ctx.model
    for mn, qn in funcs:
        fi = m.func(mn, qn, required=False)
        if fi is None:
            ctx.und(rid, f"{mn}::{qn}", "function missing", mn)
            continue
        ctx.saw_func(fi)
        bad = unbound_reads(fi)
        ctx.check(rid, f"{fi.key}::locals bound before use", not bad,
                  "; ".join(f"`{nm}` (line {ln}) may be unbound" for nm, ln in bad) if bad else "", fi)
