"""Shared rule: an attribute that may hold None (stored from a parameter defaulting to None, and compared with None somewhere in
its class) is not dereferenced without a None test on the path."""
import ast

from ..model import src, short, walk_no_nested
from ..util import cfg_of, find_nodes, known_atoms


def _none_params(init):
    a = init.node.args
    out = set()
    pos = a.posonlyargs + a.args
    for p, d in zip(pos[len(pos) - len(a.defaults):], a.defaults):
        if isinstance(d, ast.Constant) and d.value is None:
            out.add(p.arg)
    for p, d in zip(a.kwonlyargs, a.kw_defaults):
        if d is not None and isinstance(d, ast.Constant) and d.value is None:
            out.add(p.arg)
    return out


def optional_attr_rule(ctx, rid, modnames, what, floor=1):
    ctx.rule(rid, f"optional state in {what}: an attribute stored unchanged from a constructor parameter that defaults to None, and "
                  "compared with None somewhere in its class (so None is a live state), is dereferenced (attribute access, call, "
                  "subscript) only on paths that have tested it against None - otherwise a documented-optional argument crashes a "
                  "method that the property quantifies over", floor=floor)
    m = ctx.model
    for mn in modnames:
        mod = m.module(mn)
        for c in mod.classes.values():
            init = c.methods.get("__init__")
            if init is None:
                continue
            nps = _none_params(init)
            if not nps:
                continue
            # attributes stored unchanged and unconditionally re-bound nowhere else in __init__
            opt = {}
            for st in walk_no_nested(init.node):
                if isinstance(st, ast.Assign) and len(st.targets) == 1 and isinstance(st.targets[0], ast.Attribute) \
                        and src(st.targets[0].value) == "self" and isinstance(st.value, ast.Name) and st.value.id in nps:
                    opt[st.targets[0].attr] = st.value.id
            # the parameter must not be replaced by a default before the store
            for st in walk_no_nested(init.node):
                if isinstance(st, ast.Assign) and any(isinstance(t, ast.Name) and t.id in opt.values() for t in st.targets):
                    opt = {k: v for k, v in opt.items() if v not in [t.id for t in st.targets if isinstance(t, ast.Name)]}
            if not opt:
                continue
            live = set()
            for fi in c.methods.values():
                for z in ast.walk(fi.node):
                    if isinstance(z, ast.Compare) and len(z.ops) == 1 and isinstance(z.ops[0], (ast.Is, ast.IsNot)) \
                            and isinstance(z.comparators[0], ast.Constant) and z.comparators[0].value is None and src(z.left).startswith("self.") \
                            and src(z.left)[5:] in opt:
                        live.add(src(z.left)[5:])
            for attr in sorted(live):
                for name, fi in sorted(c.methods.items()):
                    if name == "__init__":
                        continue
                    uses = [z for z in walk_no_nested(fi.node)
                            if (isinstance(z, ast.Attribute) and src(z.value) == f"self.{attr}")
                            or (isinstance(z, ast.Call) and src(z.func) == f"self.{attr}")
                            or (isinstance(z, ast.Subscript) and src(z.value) == f"self.{attr}")]
                    if not uses:
                        continue
                    ctx.saw_func(fi)
                    cfg = cfg_of(fi)
                    bad = []
                    for node, z in find_nodes(cfg, lambda q: any(q is u for u in uses)):
                        atoms = known_atoms(cfg, node.id)
                        guarded = False
                        for t, pol in atoms:
                            s = src(t)
                            if s == f"self.{attr} is None" and not pol:
                                guarded = True
                            if s == f"self.{attr} is not None" and pol:
                                guarded = True
                            if s == f"self.{attr}" and pol:
                                guarded = True
                        if not guarded:
                            dom = cfg.dominators()
                            for d in dom.get(node.id, ()):
                                a = cfg.nodes[d].ast
                                if isinstance(a, ast.Assert) and src(a.test) in (f"self.{attr} is not None", f"self.{attr}"):
                                    guarded = True
                        # same-expression guards:  a if self._x is None else self._x.f()   /   self._x is not None and self._x.f()
                        if not guarded:
                            for p in ast.walk(node.ast) if node.ast is not None else ():
                                if isinstance(p, ast.IfExp) and f"self.{attr} is" in src(p.test) and any(q is z for q in ast.walk(p)):
                                    guarded = True
                                if isinstance(p, ast.BoolOp) and f"self.{attr} is" in src(p.values[0]) and any(q is z for q in ast.walk(p)):
                                    guarded = True
                        if not guarded:
                            bad.append(z)
                    ctx.check(rid, f"{fi.key}::self.{attr} dereferenced only after a None test", not bad,
                              "; ".join(f"line {b.lineno}: `{short(b, 60)}`" for b in bad[:3]) if bad else "", fi, bad[0] if bad else None)
