"""Shared rule: a refusal that is constructed must be raised (error discipline).  Aliased into several properties with the files
their anchors name."""
import ast

from ..model import src, short, walk_no_nested, AnalysisError

_SELFTEST = '''
def f(x):
    if x is None:
        ValueError("dropped")
    if x == 1:
        return TypeError("returned")
    if x == 2:
        raise ValueError("fine")
    return x
'''


def _exc_name(call):
    f = call.func
    nm = f.id if isinstance(f, ast.Name) else f.attr if isinstance(f, ast.Attribute) else ""
    return nm if (nm.endswith("Error") or nm.endswith("Exception") or nm == "StopIteration") else None


def dead_refusals(fn_node):
    """statements of fn_node (not of nested functions) that build an exception and drop or return it"""
    out = []
    for st in walk_no_nested(fn_node):
        v = st.value if isinstance(st, (ast.Expr, ast.Return)) else None
        if isinstance(v, ast.Call) and _exc_name(v):
            out.append(st)
    return out


def refusal_rule(ctx, rid, modnames, what, only=None, floor=1):
    """only: optional set of function qualnames to restrict the population to"""
    ctx.rule(rid, f"error discipline in {what}: an exception object that is constructed is RAISED - never left as an expression "
                  "statement or handed back with `return` (a refusal that is built but not raised lets the call continue with the "
                  "state it was meant to reject); population: every function that raises or builds an exception", floor=floor)
    t = ast.parse(_SELFTEST)
    if len(dead_refusals(t.body[0])) != 2:
        raise AnalysisError(f"{rid}: self-test of the dead-refusal matcher failed")
    m = ctx.model
    for mn in modnames:
        mod = m.module(mn)
        for fi in mod.all_functions:
            if only is not None and fi.qualname not in only:
                continue
            raises = [n for n in walk_no_nested(fi.node) if isinstance(n, ast.Raise)]
            dead = dead_refusals(fi.node)
            if not raises and not dead:
                continue
            ctx.saw_func(fi)
            ctx.check(rid, f"{fi.key}::every constructed exception is raised", not dead,
                      "; ".join(f"line {d.lineno}: `{short(d, 70)}` is " + ("returned" if isinstance(d, ast.Return) else "dropped") for d in dead) or
                      f"{len(raises)} raise statement(s)", fi, dead[0] if dead else None)
