"""In-memory variants: run a property's rules on /repo with one file's text replaced.
CLI:  python nsa/selftest.py PROP relpath OLD NEW   (textual replacement, must match exactly once)"""
import os
import sys

sys.path.insert(0, os.path.dirname(os.path.dirname(os.path.abspath(__file__))))

from nsa.main import run_property  # noqa: E402
from nsa.model import REPO  # noqa: E402
from nsa import util  # noqa: E402


def run_variant(prop, edits, repo=None, tier="quick"):
    """edits: list of (relpath, old, new).  Returns (code, ctx) or raises ValueError if an edit does not apply."""
    repo = repo or REPO
    texts = {}
    for rel, old, new in edits:
        t = texts.get(rel)
        if t is None:
            with open(os.path.join(repo, rel)) as f:
                t = f.read()
        if t.count(old) != 1:
            raise ValueError(f"edit does not apply exactly once in {rel}: {old!r} ({t.count(old)} matches)")
        texts[rel] = t.replace(old, new)
    for rel, t in texts.items():
        compile(t, rel, "exec")  # the variant must still compile
    util._cfg_cache.clear()
    code, ctx = run_property(prop, tier, repo, overrides=texts, quiet=True, write=False)
    util._cfg_cache.clear()
    return code, ctx


if __name__ == "__main__":
    prop, rel, old, new = sys.argv[1:5]
    code, ctx = run_variant(prop, [(rel, old.encode().decode("unicode_escape"), new.encode().decode("unicode_escape"))])
    for o in ctx.obs:
        if o.verdict == "violated":
            print("VIOLATED", o.rule, o.key, "--", o.detail)
    for e in ctx.errors:
        print("ERROR", e)
    print("exit", code, ctx.counts())
