"""F-SIBLING helpers: collect guarded assignments of a function, unfold jnp.where / lax.cond,
normalise and compare terms of two implementations of one contract."""
import ast
import copy

from .model import src, walk_no_nested, call_name
from .terms import norm, subst

NEG = {ast.Gt: ast.LtE, ast.GtE: ast.Lt, ast.Lt: ast.GtE, ast.LtE: ast.Gt, ast.Eq: ast.NotEq, ast.NotEq: ast.Eq,
       ast.Is: ast.IsNot, ast.IsNot: ast.Is, ast.In: ast.NotIn, ast.NotIn: ast.In}


def negate(e):
    """Logical negation with comparisons flipped (not a > b  ->  a <= b)."""
    if isinstance(e, ast.UnaryOp) and isinstance(e.op, (ast.Not, ast.Invert)):
        return e.operand
    if isinstance(e, ast.Compare) and len(e.ops) == 1 and type(e.ops[0]) in NEG:
        from .model import CanonCompare
        return CanonCompare().visit(ast.Compare(left=e.left, ops=[NEG[type(e.ops[0])]()], comparators=e.comparators))
    return ast.UnaryOp(op=ast.Not(), operand=e)


def atoms_of(test, pol=True):
    """Flatten a condition into a list of atom ASTs that all hold (conjunction), or None if it is not a conjunction."""
    if isinstance(test, ast.UnaryOp) and isinstance(test.op, (ast.Not, ast.Invert)):
        return atoms_of(test.operand, not pol)
    if isinstance(test, ast.BoolOp):
        if (isinstance(test.op, ast.And) and pol) or (isinstance(test.op, ast.Or) and not pol):
            out = []
            for v in test.values:
                a = atoms_of(v, pol)
                if a is None:
                    return None
                out += a
            return out
        return None
    if isinstance(test, ast.BinOp) and isinstance(test.op, ast.BitAnd) and pol:
        a, b = atoms_of(test.left, True), atoms_of(test.right, True)
        if a is None or b is None:
            return None
        return a + b
    if isinstance(test, ast.BinOp) and isinstance(test.op, ast.BitOr) and not pol:
        a, b = atoms_of(test.left, False), atoms_of(test.right, False)
        if a is None or b is None:
            return None
        return a + b
    if isinstance(test, ast.BinOp) and isinstance(test.op, (ast.BitAnd, ast.BitOr)):
        return None
    if isinstance(test, ast.IfExp) and pol and isinstance(test.body, ast.Constant) and test.body.value is False:
        # (False if c else X)  ==  (not c) and X
        a, b = atoms_of(test.test, False), atoms_of(test.orelse, True)
        if a is not None and b is not None:
            return a + b
    if isinstance(test, ast.Compare) and len(test.ops) > 1 and pol:
        out, left = [], test.left
        for op, c in zip(test.ops, test.comparators):
            out.append(ast.Compare(left=left, ops=[op], comparators=[c]))
            left = c
        return out
    return [test if pol else negate(test)]


def atom_texts(atoms, rename=None, drop=()):
    out = set()
    for a in atoms:
        t = src(norm(a, rename))
        if t in drop:
            continue
        out.add(t)
    return frozenset(out)


class GAssign:
    __slots__ = ("stmt", "target", "value", "guards", "aug", "index")

    def __init__(self, stmt, target, value, guards, aug=None, index=0):
        self.stmt, self.target, self.value, self.guards, self.aug, self.index = stmt, target, value, guards, aug, index

    def __repr__(self):
        return f"<{self.target} = {src(self.value)[:40]} | {[src(g) for g in self.guards]}>"


def guarded_assignments(fn_node):
    """All assignments (own scope, source order) with their syntactic guards (list of atom ASTs that hold; a guard that is
    not a conjunction is kept as a single opaque atom)."""
    out = []
    counter = {}

    def add(stmt, tgt, val, guards, aug=None):
        i = counter.get(tgt, 0)
        counter[tgt] = i + 1
        out.append(GAssign(stmt, tgt, val, list(guards), aug, i))

    def rec(body, guards):
        for st in body:
            if isinstance(st, ast.Assign):
                for t in st.targets:
                    if isinstance(t, ast.Name):
                        add(st, t.id, st.value, guards)
                    elif isinstance(t, ast.Tuple):
                        if isinstance(st.value, ast.Tuple) and len(st.value.elts) == len(t.elts):
                            for tt, vv in zip(t.elts, st.value.elts):
                                if isinstance(tt, ast.Name):
                                    add(st, tt.id, vv, guards)
                        else:
                            for i, tt in enumerate(t.elts):
                                if isinstance(tt, ast.Name):
                                    add(st, tt.id, ast.Subscript(value=st.value, slice=ast.Constant(value=i), ctx=ast.Load()), guards)
                    elif isinstance(t, ast.Subscript) and isinstance(t.value, ast.Name) and isinstance(t.slice, ast.Constant):
                        add(st, f"{t.value.id}[{t.slice.value!r}]", st.value, guards)
            elif isinstance(st, ast.AugAssign) and isinstance(st.target, ast.Name):
                add(st, st.target.id, st.value, guards, aug=type(st.op).__name__)
            elif isinstance(st, ast.If):
                a = atoms_of(st.test, True)
                b = atoms_of(st.test, False)
                rec(st.body, guards + (a if a is not None else [st.test]))
                rec(st.orelse, guards + (b if b is not None else [negate(st.test)]))
            elif isinstance(st, (ast.For, ast.While)):
                rec(st.body, guards)
                rec(st.orelse, guards)
            elif isinstance(st, ast.With):
                rec(st.body, guards)
            elif isinstance(st, ast.Try):
                rec(st.body, guards)
                for h in st.handlers:
                    rec(h.body, guards)
                rec(st.orelse, guards)
                rec(st.finalbody, guards)
    rec(fn_node.body, [])
    return out


def jumps_with_guards(fn_node):
    """(kind, stmt, guards) for break / return / raise statements with syntactic guards."""
    out = []

    def rec(body, guards):
        for st in body:
            if isinstance(st, (ast.Break, ast.Return, ast.Raise, ast.Continue)):
                out.append((type(st).__name__, st, list(guards)))
            elif isinstance(st, ast.If):
                a = atoms_of(st.test, True)
                b = atoms_of(st.test, False)
                rec(st.body, guards + (a if a is not None else [st.test]))
                rec(st.orelse, guards + (b if b is not None else [negate(st.test)]))
            elif isinstance(st, (ast.For, ast.While, ast.With)):
                rec(st.body, guards)
                rec(getattr(st, "orelse", []), guards)
    rec(fn_node.body, [])
    return out


def apply_cond(call):
    """lax.cond(pred, lambda x: A, lambda x: B, operand) -> IfExp(pred, A', B') with the operand substituted."""
    if not (isinstance(call, ast.Call) and call_name(call) == "cond" and len(call.args) == 4):
        return None
    pred, ft, ff, operand = call.args
    if not (isinstance(ft, ast.Lambda) and isinstance(ff, ast.Lambda)):
        return None

    def app(lam):
        if len(lam.args.args) != 1:
            return None
        p = lam.args.args[0].arg
        body = copy.deepcopy(lam.body)
        if isinstance(operand, ast.Dict):
            mp = {k.value: v for k, v in zip(operand.keys, operand.values) if isinstance(k, ast.Constant)}

            class T(ast.NodeTransformer):
                def visit_Subscript(self, node):
                    self.generic_visit(node)
                    if isinstance(node.value, ast.Name) and node.value.id == p and isinstance(node.slice, ast.Constant) \
                            and node.slice.value in mp:
                        return copy.deepcopy(mp[node.slice.value])
                    return node
            return T().visit(body)
        return subst(body, {p: operand})
    a, b = app(ft), app(ff)
    if a is None or b is None:
        return None
    return ast.IfExp(test=pred, body=a, orelse=b)


def unfold_where(value, var):
    """`where(C, A, var)` -> [(atoms of C, A)];  `where(C, A, B)` -> [(C, A), (not C, B)];  plain -> [([], value)].
    Nested wheres in the value position are unfolded recursively."""
    v = value
    c = apply_cond(v)
    if c is not None:
        v = c
    if isinstance(v, ast.Call) and call_name(v) == "where" and len(v.args) == 3:
        v = ast.IfExp(test=v.args[0], body=v.args[1], orelse=v.args[2])
    if isinstance(v, ast.IfExp):
        out = []
        ta = atoms_of(v.test, True)
        fa = atoms_of(v.test, False)
        for atoms, branch in ((ta if ta is not None else [v.test], v.body), (fa if fa is not None else [negate(v.test)], v.orelse)):
            if isinstance(branch, ast.Name) and branch.id == var:
                continue  # unchanged
            for sub_atoms, sub_val in unfold_where(branch, var):
                out.append((atoms + sub_atoms, sub_val))
        return out
    return [([], v)]


def ntext(e, rename=None):
    return src(norm(e, rename))
