"""usage: python nsa/silence_debug.py PROP  -- lists violations/errors that appear only under behaviour-preserving variants"""
import sys, os
sys.path.insert(0, os.path.dirname(os.path.dirname(os.path.abspath(__file__))))
from nsa.main import run_property
from nsa.thorough import transformed_sources, AlphaRename, SwapIfElse, CommuteMult, HoistDivisor, FlipCompare
prop = sys.argv[1]
code, ctx = run_property(prop, "quick", quiet=True, write=False)
base = {(o.rule, o.key) for o in ctx.obs if o.verdict == "violated"}
cons = sorted(ctx.model.consulted)
for label, fac in (("roundtrip", lambda: None), ("alpha", AlphaRename), ("swap", SwapIfElse), ("commute", CommuteMult), ("hoist", HoistDivisor), ("flip", FlipCompare)):
    srcs, n = transformed_sources(cons, fac)
    c, c2 = run_property(prop, "quick", overrides=srcs, quiet=True, write=False, reuse=ctx.model)
    for o in c2.obs:
        if o.verdict == "violated" and (o.rule, o.key) not in base:
            print(f"[{label}] {o.rule} {o.key[:170]}\n      -- {(o.detail or '')[:260]}")
    for e in c2.errors:
        print(f"[{label}] ERROR {e[:300]}")
    print(f"[{label}] exit={c} undecided={c2.counts()['undecided']} (base {ctx.counts()['undecided']})")
