"""Flow-sensitive rank-taint over reaching definitions (F-UNIFORM)."""
import ast

from .model import call_name, stmt_targets

COLLECTIVES = {"allgather", "allreduce", "bcast", "Bcast", "Allreduce", "Allgather", "_bcast", "allreduce_sum",
               "check_MPI_equality", "_MPI_unique"}
RANK_SOURCES = {"Get_rank"}


class Taint:
    def __init__(self, cfg, params, seeds=(), rank_calls=RANK_SOURCES, clean_calls=COLLECTIVES, tainted_exprs=()):
        """seeds: parameter names tainted at entry.  tainted_exprs: source texts that are rank dependent
        (e.g. 'self._comm.Get_rank()', 'self.MPI_master')."""
        self.cfg = cfg
        self.rd = cfg.reaching_defs(params)
        self.rank_calls = set(rank_calls)
        self.clean_calls = set(clean_calls)
        self.tainted_exprs = set(tainted_exprs)
        self.tdefs = set()  # (name, def node id)
        for p in seeds:
            self.tdefs.add((p, cfg.entry.id))
        changed = True
        while changed:
            changed = False
            for n in cfg.nodes:
                if self.rd[n.id] is None:
                    continue
                val, targets = self._def_value(n)
                if val is None:
                    continue
                if self.expr_tainted(val, n.id):
                    for t in targets:
                        if (t, n.id) not in self.tdefs:
                            self.tdefs.add((t, n.id))
                            changed = True

    def _def_value(self, n):
        a = n.ast
        if n.kind == "stmt" and isinstance(a, (ast.Assign, ast.AugAssign, ast.AnnAssign)) and getattr(a, "value", None) is not None:
            names = []
            for t in stmt_targets(a):
                if isinstance(t, ast.Name):
                    names.append(t.id)
                elif isinstance(t, ast.Subscript) and isinstance(t.value, ast.Name):
                    names.append(t.value.id)
            return a.value, names
        if n.kind == "for":
            return a.iter, [t.id for t in stmt_targets(a) if isinstance(t, ast.Name)]
        if n.kind == "with":
            return ast.Tuple(elts=[i.context_expr for i in a.items], ctx=ast.Load()), \
                [t.id for t in stmt_targets(a) if isinstance(t, ast.Name)]
        return None, []

    def expr_tainted(self, e, nid, bound=frozenset()):
        env = self.rd[nid] or {}
        if isinstance(e, ast.Call):
            nm = call_name(e)
            if nm in self.rank_calls:
                return True
            if nm in self.clean_calls:
                return False
        if isinstance(e, (ast.Attribute, ast.Call, ast.Subscript)):
            try:
                if ast.unparse(e) in self.tainted_exprs:
                    return True
            except Exception:
                pass
        if isinstance(e, ast.Name):
            if e.id in bound:
                return False
            # a subscript store `x[i] = v` is modelled as a (weak) definition of x: the earlier defs still reach
            for d in env.get(e.id, ()):
                if (e.id, d) in self.tdefs:
                    return True
            # weak updates: any tainted subscript-store def of this name anywhere reaching
            return False
        if isinstance(e, (ast.ListComp, ast.GeneratorExp, ast.SetComp, ast.DictComp)):
            b = set(bound)
            for g in e.generators:
                if self.expr_tainted(g.iter, nid, frozenset(b)):
                    return True
                for t in ast.walk(g.target):
                    if isinstance(t, ast.Name):
                        b.add(t.id)
                for c in g.ifs:
                    if self.expr_tainted(c, nid, frozenset(b)):
                        return True
            parts = [e.key, e.value] if isinstance(e, ast.DictComp) else [e.elt]
            return any(self.expr_tainted(p, nid, frozenset(b)) for p in parts)
        if isinstance(e, ast.Lambda):
            return False
        return any(self.expr_tainted(c, nid, bound) for c in ast.iter_child_nodes(e))
