"""E7 - term extraction: let-inlining through reaching definitions, structural
normalisation and comparison of expression trees."""
import ast
import copy

from .model import src


class _Subst(ast.NodeTransformer):
    def __init__(self, mapping):
        self.mapping = mapping

    def visit_Name(self, node):
        if isinstance(node.ctx, ast.Load) and node.id in self.mapping:
            return copy.deepcopy(self.mapping[node.id])
        return node

    def visit_Lambda(self, node):
        shadow = {a.arg for a in node.args.args + node.args.kwonlyargs}
        inner = {k: v for k, v in self.mapping.items() if k not in shadow}
        node.body = _Subst(inner).visit(node.body)
        return node


def subst(expr, mapping):
    return _Subst(mapping).visit(copy.deepcopy(expr))


def inline_at(cfg, rd, nid, expr, depth=6, stop=(), unpack_calls=False):
    """Replace every Name in `expr` (evaluated at CFG node nid) whose unique
    reaching definition is a plain `name = rhs` (or a tuple unpacking of a
    tuple literal) by that rhs, recursively."""
    if depth <= 0:
        return expr
    mapping = {}
    env = rd.get(nid) or {}
    for x in ast.walk(expr):
        if isinstance(x, ast.Name) and isinstance(x.ctx, ast.Load) and x.id not in mapping and x.id not in stop:
            defs = env.get(x.id)
            if not defs or len(defs) != 1:
                continue
            d = next(iter(defs))
            dn = cfg.nodes[d]
            if dn.kind != "stmt" or not isinstance(dn.ast, ast.Assign) or len(dn.ast.targets) != 1:
                continue
            t = dn.ast.targets[0]
            rhs = None
            if isinstance(t, ast.Name) and t.id == x.id:
                rhs = dn.ast.value
            elif isinstance(t, ast.Tuple) and isinstance(dn.ast.value, ast.Tuple) and len(t.elts) == len(dn.ast.value.elts):
                for tt, vv in zip(t.elts, dn.ast.value.elts):
                    if isinstance(tt, ast.Name) and tt.id == x.id:
                        rhs = vv
            elif isinstance(t, ast.Tuple) and all(isinstance(tt, ast.Name) for tt in t.elts) \
                    and isinstance(dn.ast.value, (ast.Call, ast.Name, ast.Attribute, ast.Subscript)) and unpack_calls:
                for i, tt in enumerate(t.elts):
                    if tt.id == x.id:
                        rhs = ast.Subscript(value=dn.ast.value, slice=ast.Constant(value=i), ctx=ast.Load())
            if rhs is None:
                continue
            # do not inline self-referential updates (x = f(x)) - keep the name
            if any(isinstance(y, ast.Name) and y.id == x.id for y in ast.walk(rhs)) and d in (rd.get(d) or {}).get(x.id, ()):
                continue  # loop-carried self-update: keep the name
            mapping[x.id] = inline_at(cfg, rd, d, rhs, depth - 1, stop, unpack_calls)
    if not mapping:
        return expr
    return subst(expr, mapping)


# ---------------------------------------------------------------- normaliser
class Normalise(ast.NodeTransformer):
    """Maps syntactic variants to one form (see DESIGN E7)."""

    STRIP_CALLS = {"float", "int"}  # float(x) -> x   (python scalar conversions)
    PREFIXES = ("np.", "jnp.", "numpy.", "jax.numpy.")

    def __init__(self, rename=None, strip_calls=None):
        self.rename = rename or {}
        if strip_calls is not None:
            self.STRIP_CALLS = set(strip_calls)

    def visit_Name(self, node):
        if node.id in self.rename:
            r = self.rename[node.id]
            if isinstance(r, ast.AST):
                return copy.deepcopy(r)
            return ast.Name(id=r, ctx=ast.Load())
        return node

    def visit_Attribute(self, node):
        self.generic_visit(node)
        s = src(node)
        for p in self.PREFIXES:
            if s.startswith(p) and "." not in s[len(p):]:
                return ast.Name(id=s[len(p):], ctx=ast.Load())
        return node

    def visit_Subscript(self, node):
        self.generic_visit(node)
        # v["pos"] -> pos   for a designated state-dict name
        if isinstance(node.value, ast.Name) and node.value.id in self.rename.get("__dicts__", ()) \
                and isinstance(node.slice, ast.Constant) and isinstance(node.slice.value, str):
            key = node.slice.value
            key = self.rename.get("__keys__", {}).get(key, key)
            return ast.Name(id=key, ctx=ast.Load())
        return node

    def visit_Call(self, node):
        self.generic_visit(node)
        f = src(node.func)
        if f in self.STRIP_CALLS and len(node.args) == 1 and not node.keywords:
            return node.args[0]
        if f in ("maximum", "max") and len(node.args) == 2:
            return ast.Call(func=ast.Name(id="max", ctx=ast.Load()), args=node.args, keywords=[])
        if f in ("minimum", "min") and len(node.args) == 2:
            return ast.Call(func=ast.Name(id="min", ctx=ast.Load()), args=node.args, keywords=[])
        if f in ("max", "min") and len(node.args) == 1 and isinstance(node.args[0], ast.Tuple) and len(node.args[0].elts) == 2:
            return ast.Call(func=ast.Name(id=f, ctx=ast.Load()), args=list(node.args[0].elts), keywords=[])
        if f in ("where",) and len(node.args) == 3:
            return ast.IfExp(test=node.args[0], body=node.args[1], orelse=node.args[2])
        if f == "array" and len(node.args) == 1 and not node.keywords:
            return node.args[0]
        return node

    def visit_BoolOp(self, node):
        self.generic_visit(node)
        # a and b -> a & b
        op = ast.BitAnd() if isinstance(node.op, ast.And) else ast.BitOr()
        cur = node.values[0]
        for v in node.values[1:]:
            cur = ast.BinOp(left=cur, op=op, right=v)
        return cur

    def visit_Compare(self, node):
        self.generic_visit(node)
        # a < b <= c  -> (a<b) & (b<=c)
        if len(node.ops) > 1:
            parts = []
            left = node.left
            for op, c in zip(node.ops, node.comparators):
                parts.append(ast.Compare(left=left, ops=[op], comparators=[c]))
                left = c
            cur = parts[0]
            for p in parts[1:]:
                cur = ast.BinOp(left=cur, op=ast.BitAnd(), right=p)
            return cur
        return node

    def visit_Constant(self, node):
        if isinstance(node.value, (int, float)) and not isinstance(node.value, bool):
            return ast.Constant(value=float(node.value))
        return node

    def visit_UnaryOp(self, node):
        self.generic_visit(node)
        if isinstance(node.op, ast.USub) and isinstance(node.operand, ast.Constant) \
                and isinstance(node.operand.value, float):
            return ast.Constant(value=-node.operand.value)
        return node


def conj_set(e):
    """Flatten a & b & c into a frozenset of normalised atom texts."""
    out = []

    def rec(x):
        if isinstance(x, ast.BinOp) and isinstance(x.op, ast.BitAnd):
            rec(x.left)
            rec(x.right)
        else:
            out.append(src(x))
    rec(e)
    return frozenset(out)


def norm(expr, rename=None, strip_calls=None):
    e = Normalise(rename, strip_calls).visit(copy.deepcopy(expr))
    ast.fix_missing_locations(e)
    return e


def same(a, b):
    return ast.dump(a) == ast.dump(b)


def text(e):
    return src(e)


# ---------------------------------------------------------------- commutation-insensitive text
class _Canon(ast.NodeTransformer):
    """sorts the operands of (chains of) `*` - and optionally `+` - by their source text"""

    def __init__(self, add=False):
        self.ops = (ast.Mult, ast.Add) if add else (ast.Mult,)

    def visit_BinOp(self, node):
        self.generic_visit(node)
        if isinstance(node.op, self.ops):
            opt = type(node.op)
            parts = []

            def flat(n):
                if isinstance(n, ast.BinOp) and isinstance(n.op, opt):
                    flat(n.left)
                    flat(n.right)
                else:
                    parts.append(n)
            flat(node)
            parts.sort(key=lambda p: ast.unparse(p))
            out = parts[0]
            for p_ in parts[1:]:
                out = ast.BinOp(left=out, op=opt(), right=p_)
            return ast.copy_location(out, node)
        return node


def canon(e, add=False):
    """canonical source text (no blanks) of an expression or of expression text; `a*b` and `b*a` give the same string"""
    if isinstance(e, str):
        try:
            e = ast.parse(e, mode="eval").body
        except SyntaxError:
            return e.replace(" ", "")
    else:
        e = copy.deepcopy(e)
    e = _Canon(add).visit(e)
    ast.fix_missing_locations(e)
    return ast.unparse(e).replace(" ", "")
