"""Thorough tier: self-test of the checkers in both directions on in-memory variants of /repo's current tree.

* silence variants (behaviour preserving): alpha-renaming of function locals, `if c: A else: B` -> `if not c: B else: A`,
  an ast.unparse round trip.  The verdict must stay free of violations.
* must-fire variants (nsa/variants.py): one small breaking edit per confirmed rule instance; the named rule must report it.

Nothing is written under /repo, /verif or /tmp; variants are compiled to make sure they are still valid Python.
"""
import ast
import copy
import os

from . import util
from .model import REPO, walk_no_nested, stmt_targets


# ----------------------------------------------------------------------------- transformers
class AlphaRename(ast.NodeTransformer):
    """Renames the locals of every function (names bound by assignment/for/with inside the function; not parameters, not
    globals/nonlocals, not names that also occur in nested scopes of the function)."""

    def __init__(self, suffix="_rn"):
        self.suffix = suffix
        self.count = 0

    def _rename_function(self, fn):
        params = {a.arg for a in fn.args.posonlyargs + fn.args.args + fn.args.kwonlyargs}
        if fn.args.vararg:
            params.add(fn.args.vararg.arg)
        if fn.args.kwarg:
            params.add(fn.args.kwarg.arg)
        declared = set()
        bound = set()
        for n in walk_no_nested(fn):
            if isinstance(n, (ast.Global, ast.Nonlocal)):
                declared.update(n.names)
            if isinstance(n, (ast.Assign, ast.AugAssign, ast.AnnAssign, ast.For, ast.With)):
                for t in stmt_targets(n):
                    if isinstance(t, ast.Name):
                        bound.add(t.id)
        for n in walk_no_nested(fn):
            if isinstance(n, (ast.Import, ast.ImportFrom)):
                for al in n.names:
                    declared.add((al.asname or al.name).split(".")[0])
            if isinstance(n, ast.ExceptHandler) and n.name:
                declared.add(n.name)
            if isinstance(n, (ast.FunctionDef, ast.AsyncFunctionDef, ast.ClassDef)) and n is not fn:
                declared.add(n.name)  # `f = jit(f)` after `def f`: renaming the assignment only would break the code
        nested_names = set()
        for n in walk_no_nested(fn):
            if isinstance(n, (ast.FunctionDef, ast.AsyncFunctionDef, ast.Lambda, ast.ClassDef, ast.ListComp, ast.SetComp,
                              ast.DictComp, ast.GeneratorExp)):
                for x in ast.walk(n):
                    if isinstance(x, ast.Name):
                        nested_names.add(x.id)
                    if isinstance(x, ast.arg):
                        nested_names.add(x.arg)
        # keyword-argument names of calls are not Names, f-string fields are: fine
        victims = {b for b in bound if b not in params and b not in declared and b not in nested_names and not b.startswith("__")}
        if not victims:
            return
        sfx = self.suffix

        class R(ast.NodeTransformer):
            def visit_Name(self, node):
                if node.id in victims:
                    return ast.copy_location(ast.Name(id=node.id + sfx, ctx=node.ctx), node)
                return node

            def visit_FunctionDef(self, node):
                return node  # nested scopes untouched (their names were excluded)

            visit_AsyncFunctionDef = visit_Lambda = visit_ClassDef = visit_FunctionDef

        for i, st in enumerate(fn.body):
            fn.body[i] = R().visit(st)
        self.count += len(victims)

    def visit_FunctionDef(self, node):
        self.generic_visit(node)
        self._rename_function(node)
        return node

    visit_AsyncFunctionDef = visit_FunctionDef


class SwapIfElse(ast.NodeTransformer):
    """if c: A else: B  ->  if not c: B else: A   (only when both branches exist and it is not an elif chain)"""

    def __init__(self):
        self.count = 0

    def visit_If(self, node):
        self.generic_visit(node)
        if node.orelse and not (len(node.orelse) == 1 and isinstance(node.orelse[0], ast.If)):
            self.count += 1
            test = node.test.operand if isinstance(node.test, ast.UnaryOp) and isinstance(node.test.op, ast.Not) \
                else ast.UnaryOp(op=ast.Not(), operand=node.test)
            return ast.copy_location(ast.If(test=test, body=node.orelse, orelse=node.body), node)
        return node


class CommuteMult(ast.NodeTransformer):
    """a * b -> b * a  (exactly commutative for python/numpy/jax numbers and arrays and for NIFTy's point-wise products);
    operands that are string/list/tuple displays are left alone"""

    def __init__(self):
        self.count = 0

    def visit_BinOp(self, node):
        self.generic_visit(node)
        if isinstance(node.op, ast.Mult) and not any(isinstance(x, (ast.List, ast.Tuple, ast.JoinedStr)) or
                                                     (isinstance(x, ast.Constant) and isinstance(x.value, (str, bytes))) for x in (node.left, node.right)):
            self.count += 1
            return ast.copy_location(ast.BinOp(left=node.right, op=ast.Mult(), right=node.left), node)
        return node


class FlipCompare(ast.NodeTransformer):
    """a < b -> b > a, a <= b -> b >= a, a == b -> b == a, a != b -> b != a  (single comparisons only)"""
    MAP = {ast.Lt: ast.Gt, ast.Gt: ast.Lt, ast.LtE: ast.GtE, ast.GtE: ast.LtE, ast.Eq: ast.Eq, ast.NotEq: ast.NotEq}

    def __init__(self):
        self.count = 0

    def visit_Compare(self, node):
        self.generic_visit(node)
        if len(node.ops) == 1 and type(node.ops[0]) in self.MAP:
            self.count += 1
            return ast.copy_location(ast.Compare(left=node.comparators[0], ops=[self.MAP[type(node.ops[0])]()], comparators=[node.left]), node)
        return node


class HoistDivisor(ast.NodeTransformer):
    """x = a / b  ->  _hd = b; x = a / _hd   for plain assignments at function level (introduces a temporary, nothing else)"""

    def __init__(self):
        self.count = 0

    def _body(self, stmts):
        out = []
        for st in stmts:
            if isinstance(st, ast.Assign) and len(st.targets) == 1 and isinstance(st.targets[0], ast.Name) and isinstance(st.value, ast.BinOp) \
                    and isinstance(st.value.op, ast.Div) and not isinstance(st.value.right, (ast.Constant, ast.Name)):
                self.count += 1
                tmp = f"_hd{self.count}"
                out.append(ast.copy_location(ast.Assign(targets=[ast.Name(id=tmp, ctx=ast.Store())], value=st.value.right), st))
                out.append(ast.copy_location(ast.Assign(targets=st.targets, value=ast.BinOp(left=st.value.left, op=ast.Div(),
                                                                                             right=ast.Name(id=tmp, ctx=ast.Load()))), st))
            else:
                out.append(st)
        return out

    def visit_FunctionDef(self, node):
        self.generic_visit(node)
        node.body = self._body(node.body)
        return node


def transformed_sources(relpaths, transformer_factory, repo=None):
    repo = repo or REPO
    out = {}
    total = 0
    for rel in relpaths:
        with open(os.path.join(repo, rel)) as f:
            text = f.read()
        tree = ast.parse(text)
        tr = transformer_factory()
        tree = tr.visit(tree) if tr is not None else tree
        ast.fix_missing_locations(tree)
        new = ast.unparse(tree)
        compile(new, rel, "exec")
        out[rel] = new
        total += getattr(tr, "count", 0) if tr is not None else 0
    return out, total


def run_selftests(ctx, repo=None):
    """Called by main for --tier thorough after the rules ran on the real tree."""
    from .main import run_property
    from .variants import VARIANTS
    prop = ctx.prop
    consulted = sorted(ctx.model.consulted) if ctx.model is not None else []
    report = {"silence": [], "must_fire": [], "files": len(consulted)}
    base_viol = {(o.rule, o.key) for o in ctx.obs if o.verdict == "violated"}
    # ---- silence variants
    for label, fac in (("ast-roundtrip", lambda: None), ("alpha-rename-locals", AlphaRename), ("swap-if-else", SwapIfElse),
                       ("commute-mult", CommuteMult), ("hoist-divisor", HoistDivisor), ("flip-compare", FlipCompare)):
        try:
            srcs, n = transformed_sources(consulted, fac, repo)
        except SyntaxError as e:
            report["silence"].append({"variant": label, "result": "not-compilable", "detail": str(e)})
            continue
        code, c2 = run_property(prop, "quick", repo, overrides=srcs, quiet=True, write=False, reuse=ctx.model)
        new_viol = sorted({(o.rule, o.key) for o in c2.obs if o.verdict == "violated"} - base_viol)
        # keys contain normalised statement text, which legitimately changes under renaming: compare per rule counts instead
        base_cnt, new_cnt = {}, {}
        for o in ctx.obs:
            if o.verdict == "violated":
                base_cnt[o.rule] = base_cnt.get(o.rule, 0) + 1
        for o in c2.obs:
            if o.verdict == "violated":
                new_cnt[o.rule] = new_cnt.get(o.rule, 0) + 1
        false_alarms = {r: n_ for r, n_ in new_cnt.items() if n_ > base_cnt.get(r, 0)}
        entry = {"variant": label, "sites_transformed": n, "exit": code, "new_violations_by_rule": false_alarms,
                 "undecided": c2.counts()["undecided"], "analysis_errors": c2.errors[:5]}
        if false_alarms:
            ex = [o for o in c2.obs if o.verdict == "violated" and o.rule in false_alarms][:3]
            entry["examples"] = [f"{o.rule} {o.key[:160]} -- {(o.detail or '')[:160]}" for o in ex]
        report["silence"].append(entry)
        if false_alarms:
            ctx.error(f"self-test: behaviour-preserving variant `{label}` makes rule(s) {sorted(false_alarms)} report a violation "
                      f"(checker is text-sensitive): {entry.get('examples', [''])[0]}")
        elif c2.errors:
            ctx.notes.append(f"self-test: variant `{label}` -> analysis errors {c2.errors[:2]} (idiom lost under refactoring; no alarm)")
    # ---- must-fire variants
    fired = applied = 0
    for label, rel, old, new, rule in VARIANTS.get(prop, []):
        path = os.path.join(repo or REPO, rel)
        try:
            with open(path) as f:
                text = f.read()
        except OSError:
            report["must_fire"].append({"variant": label, "result": "file-missing"})
            continue
        if text.count(old) != 1:
            report["must_fire"].append({"variant": label, "result": "not-applicable (text changed)"})
            continue
        mutated = text.replace(old, new)
        try:
            compile(mutated, rel, "exec")
        except SyntaxError as e:
            report["must_fire"].append({"variant": label, "result": "not-compilable", "detail": str(e)})
            continue
        applied += 1
        code, c2 = run_property(prop, "quick", repo, overrides={rel: mutated}, quiet=True, write=False, reuse=ctx.model)
        hits = [o for o in c2.obs if o.verdict == "violated" and (o.rule, o.key) not in base_viol]
        ok = any(o.rule == rule or rule is None for o in hits)
        fired += bool(ok)
        report["must_fire"].append({"variant": label, "expected_rule": rule, "fired": ok,
                                    "reported": [f"{o.rule}: {o.key[:120]}" for o in hits[:3]]})
        if not ok:
            ctx.error(f"self-test: must-fire variant `{label}` ({rel}) is not reported by {rule} - the rule lost its sensitivity")
    # ---- kept seeded changes (independent sub-agents) that this property's check is recorded to catch: must still be caught
    from .udiff import apply_to_texts
    import json
    seed_root = os.path.join(os.path.dirname(os.path.dirname(os.path.abspath(__file__))), "seeded")
    report["seeded"] = []
    s_applied = s_fired = 0
    root = repo or REPO
    for sid in sorted(os.listdir(seed_root)) if os.path.isdir(seed_root) else []:
        d = os.path.join(seed_root, sid)
        try:
            meta = json.load(open(os.path.join(d, "meta.json")))
        except Exception:
            continue
        rec = (meta.get("static_checks") or {}).get(prop)
        if not rec or rec.get("exit") != 1:
            continue
        got = None
        for pf in ("patch.diff", "patch_rebased.diff"):
            pp = os.path.join(d, pf)
            if not os.path.exists(pp):
                continue
            try:
                got = apply_to_texts(open(pp).read(), lambda rel: open(os.path.join(root, rel)).read())
                break
            except (ValueError, OSError):
                got = None
        if got is None:
            report["seeded"].append({"seed": sid, "result": "not-applicable (tree moved on)"})
            continue
        try:
            for rel, txt in got.items():
                compile(txt, rel, "exec")
        except SyntaxError as e:
            report["seeded"].append({"seed": sid, "result": "not-compilable", "detail": str(e)})
            continue
        s_applied += 1
        code, c2 = run_property(prop, "quick", repo, overrides=got, quiet=True, write=False, reuse=ctx.model)
        hits = sorted({o.rule for o in c2.obs if o.verdict == "violated" and (o.rule, o.key) not in base_viol})
        s_fired += bool(hits)
        report["seeded"].append({"seed": sid, "caught": bool(hits), "rules": hits, "recorded_rules": rec.get("rules")})
        if not hits:
            ctx.error(f"self-test: kept seeded change `{sid}` was recorded as caught by {prop} {rec.get('rules')} but is no longer reported")
    report["seeded_applied"] = s_applied
    report["seeded_caught"] = s_fired
    report["must_fire_applied"] = applied
    report["must_fire_fired"] = fired
    ctx.selftest = report
    ctx.extra["selftest_summary"] = (f"{len(report['silence'])} silence variant families over {len(consulted)} files; "
                                     f"{fired}/{applied} must-fire variants reported; "
                                     f"{s_fired}/{s_applied} kept seeded changes still caught")
