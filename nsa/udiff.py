"""Minimal unified-diff applier working on text in memory (no file is written).  Hunks are located by their old block
(context + removed lines); the recorded line number is only a hint.  Returns {relpath: new text} or raises ValueError."""
import os
import re


def parse(diff_text):
    files = {}
    cur = None
    hunk = None
    for line in diff_text.splitlines():
        if line.startswith("diff --git"):
            cur = None
            continue
        if line.startswith("+++ "):
            p = line[4:].strip()
            if p.startswith("b/"):
                p = p[2:]
            cur = files.setdefault(p, [])
            continue
        if line.startswith("--- ") or line.startswith("index ") or line.startswith("new file") or line.startswith("deleted file") or line.startswith("similarity"):
            continue
        m = re.match(r"@@ -(\d+)(?:,(\d+))? \+(\d+)(?:,(\d+))? @@", line)
        if m and cur is not None:
            hunk = {"start": int(m.group(1)), "old": [], "new": []}
            cur.append(hunk)
            continue
        if hunk is None or cur is None:
            continue
        if line.startswith("\\"):
            continue
        tag, body = (line[0], line[1:]) if line else (" ", "")
        if tag == " ":
            hunk["old"].append(body)
            hunk["new"].append(body)
        elif tag == "-":
            hunk["old"].append(body)
        elif tag == "+":
            hunk["new"].append(body)
    return files


def apply_to_texts(diff_text, read):
    """read(relpath) -> current text.  Returns {relpath: patched text}."""
    out = {}
    for rel, hunks in parse(diff_text).items():
        text = read(rel)
        lines = text.split("\n")
        offset = 0
        for h in hunks:
            old, new = h["old"], h["new"]
            guess = h["start"] - 1 + offset
            pos = None
            cands = [guess] + [guess + d for k in range(1, 400) for d in (k, -k)]
            for c in cands:
                if 0 <= c <= len(lines) - len(old) and lines[c:c + len(old)] == old:
                    pos = c
                    break
            if pos is None:
                raise ValueError(f"hunk at line {h['start']} of {rel} does not apply")
            lines[pos:pos + len(old)] = new
            offset += len(new) - len(old)
        out[rel] = "\n".join(lines)
    return out
