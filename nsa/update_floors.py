"""Regenerates nsa/floors.py from the evidence of a clean quick run: exact count for rules with <= 20 decided instances,
85% otherwise.  Only ADDS rules that have no floor yet, or raises a floor when --raise is given (never lowers one)."""
import glob
import json
import os
import sys

here = os.path.dirname(os.path.abspath(__file__))
sys.path.insert(0, os.path.dirname(here))
from nsa.floors import FLOORS  # noqa: E402

raise_ = "--raise" in sys.argv
new = dict(FLOORS)
for f in sorted(glob.glob(os.path.join(os.path.dirname(here), "evidence", "C*.json"))):
    ev = json.load(open(f))
    for rule, c in ev["coverage"]["per_rule"].items():
        decided = c["discharged"] + c["violated"]
        fl = decided if decided <= 20 else int(decided * 0.85)
        if rule not in new or (raise_ and fl > new[rule]):
            new[rule] = fl
with open(os.path.join(here, "floors.py")) as fh:
    head = fh.read().split("FLOORS = {")[0]
with open(os.path.join(here, "floors.py"), "w") as fh:
    fh.write(head + "FLOORS = {\n")
    for k in sorted(new):
        fh.write(f'    "{k}": {new[k]},\n')
    fh.write("}\n")
print("floors:", len(FLOORS), "->", len(new), {k: (FLOORS.get(k), v) for k, v in new.items() if FLOORS.get(k) != v})
