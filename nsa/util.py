"""Shared helpers for the rules."""
import ast

from .cfg import CFG
from .model import src, walk_no_nested, is_self_attr, call_name, AnalysisError

_cfg_cache = {}


def cfg_of(fi):
    c = _cfg_cache.get(id(fi.node))
    if c is None:
        c = CFG(fi.node)
        _cfg_cache[id(fi.node)] = (c, fi.node)
        return c
    return c[0]


def guards(cfg, nid, disabled=None):
    """Control guards of node `nid`: list of (test ast, polarity) for every test
    node that dominates nid and from which nid is reachable through exactly one
    of its two edges (early-return style guards included).  'for' heads give
    (ast.For, 'iter')."""
    gc = getattr(cfg, "_guard_cache", None)
    if gc is None:
        gc = cfg._guard_cache = {}
    if not disabled and nid in gc:
        return list(gc[nid])
    dom = cfg.dominators(disabled)
    out = []
    if nid not in dom:
        return out
    for d in sorted(dom[nid]):
        n = cfg.nodes[d]
        if d == nid or n.kind != "test":
            continue
        via = {}
        for b, label in cfg.successors(d, disabled):
            if label in ("T", "F"):
                r = cfg.reachable(b, avoid=[d], disabled=disabled)
                via[label] = nid in r
        if via.get("T") and not via.get("F"):
            out.append((n.ast, True))
        elif via.get("F") and not via.get("T"):
            out.append((n.ast, False))
    if not disabled:
        gc[nid] = list(out)
    return out


def parent_map(root):
    pm = {}
    for p in ast.walk(root):
        for c in ast.iter_child_nodes(p):
            pm[c] = p
    return pm


def enclosing_stmt(pm, node):
    while node in pm and not isinstance(node, ast.stmt):
        node = pm[node]
    return node


def node_of_stmt(cfg, stmt):
    ns = cfg.nodes_of(stmt)
    return ns[0] if ns else None


def find_nodes(cfg, pred):
    """CFG nodes whose own ast (not nested compound bodies) contains a sub-node
    satisfying pred.  Returns list of (cfg node, matching ast node)."""
    out = []
    for n in cfg.nodes:
        if n.ast is None or n.kind in ("with_exit",):
            continue
        if n.kind == "for":
            if not n.first:
                continue
            roots = [n.ast.iter, n.ast.target]
        elif n.kind == "with":
            roots = [i for i in n.ast.items]
        elif n.kind == "handler":
            roots = [n.ast.type] if n.ast.type else []
        elif n.kind == "match":
            roots = [n.ast.subject]
        elif isinstance(n.ast, (ast.FunctionDef, ast.AsyncFunctionDef, ast.ClassDef)):
            roots = []
        else:
            roots = [n.ast]
        for r in roots:
            for x in walk_no_nested(r, include_self=True):
                if pred(x):
                    out.append((n, x))
    return out


def calls_named(cfg, names):
    if isinstance(names, str):
        names = (names,)
    return find_nodes(cfg, lambda x: isinstance(x, ast.Call) and call_name(x) in names)


def attr_chain(node):
    """self._val.flags.writeable -> ['self','_val','flags','writeable'] or None."""
    parts = []
    while isinstance(node, ast.Attribute):
        parts.append(node.attr)
        node = node.value
    if isinstance(node, ast.Name):
        parts.append(node.id)
        return list(reversed(parts))
    return None


def strip_not(test, pol=True):
    while isinstance(test, ast.UnaryOp) and isinstance(test.op, ast.Not):
        test = test.operand
        pol = not pol
    return test, pol


def conj_atoms(test, pol):
    """Atoms that are known to hold given (test, polarity): for a true `a and b`
    both a and b; for a false `a or b` both not-a and not-b."""
    test, pol = strip_not(test, pol)
    if isinstance(test, ast.BoolOp):
        if (isinstance(test.op, ast.And) and pol) or (isinstance(test.op, ast.Or) and not pol):
            out = []
            for v in test.values:
                out += conj_atoms(v, pol)
            return out
        return [(test, pol)]
    return [(test, pol)]


def known_atoms(cfg, nid, disabled=None):
    out = []
    for t, p in guards(cfg, nid, disabled):
        out += conj_atoms(t, p)
    return out


def require(cond, msg):
    if not cond:
        raise AnalysisError(msg)


def returns_of(fi):
    return [n for n in walk_no_nested(fi.node) if isinstance(n, ast.Return)]


def single_return_expr(fi):
    rs = returns_of(fi)
    if len(rs) == 1:
        return rs[0].value
    return None


def assigned_attrs(func_node, selfname="self"):
    """attribute names X for which `self.X = ...` (any assignment form) occurs."""
    out = {}
    for n in walk_no_nested(func_node):
        tg = []
        if isinstance(n, ast.Assign):
            tg = n.targets
        elif isinstance(n, (ast.AugAssign, ast.AnnAssign)):
            tg = [n.target]
        for t in tg:
            for e in ([t] if not isinstance(t, (ast.Tuple, ast.List)) else t.elts):
                if is_self_attr(e, None, selfname):
                    out.setdefault(e.attr, []).append(n)
    return out
