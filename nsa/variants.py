"""Must-fire variants: (label, relpath, old text, new text, rule expected to report it).
Each is a small edit that still compiles; applied in memory by the thorough tier.  An entry whose `old` text is no longer
present exactly once is skipped (the tree moved on), never an error."""
V = {}
def add(prop, label, rel, old, new, rule):
    V.setdefault(prop, []).append((label, rel, old, new, rule))
OPS = "nifty/cl/operators/"
add("C01", "chain capability or-ed", OPS + "chain_operator.py", "self._capability &= op.capability", "self._capability |= op.capability", "R01.2")
add("C01", "sum capability skips first", OPS + "sum_operator.py", "        for op in ops:\n            self._capability &= op.capability",
    "        for op in ops[1:]:\n            self._capability &= op.capability", "R01.2")
add("C01", "modeTable entry", OPS + "linear_operator.py", "_modeTable = ((1, 2, 4, 8),", "_modeTable = ((1, 2, 8, 4),", "R01.1")
add("C01", "scaling drops conj for adjoint-inverse", OPS + "scaling_operator.py",
    "MODES_WITH_ADJOINT = self.ADJOINT_TIMES | self.ADJOINT_INVERSE_TIMES", "MODES_WITH_ADJOINT = self.ADJOINT_TIMES", "R01.3")
add("C01", "chain applies in stored order for TIMES", OPS + "chain_operator.py",
    "t_ops = self._ops if mode & self._backwards else reversed(self._ops)", "t_ops = self._ops if mode & self.ADJOINT_TIMES else reversed(self._ops)", "R01.3")
add("C01", "adapter flip composes with or", OPS + "operator_adapter.py", "newtrafo = trafo ^ self._trafo", "newtrafo = trafo | self._trafo", "R01.3")
add("C01", "diagonal sum keeps raw diagonals", OPS + "diagonal_operator.py",
    "tdiag = (self._get_actual_diag() * (-1 if selfneg else 1) +\n                 op._get_actual_diag() * (-1 if opneg else 1))",
    "tdiag = (self._ldiag * (-1 if selfneg else 1) +\n                 op._ldiag * (-1 if opneg else 1))", "R01.3")
add("C02", "PartialConjugate attribute typo", OPS + "partial_conjugate.py", "self._capability = self._all_ops", "self._capabilities = self._all_ops", "R02.1")
add("C02", "distributor result on wrong domain", OPS + "distributors.py", "        return Field(self._target, oarr.reshape(self._target.shape))",
    "        return Field(self._domain, oarr.reshape(self._target.shape))", "R02.4")
add("C02", "slope remover writes into input", "nifty/cl/library/correlated_fields.py", "            res = x.val_rw()", "            res = x.val", "R02.6")
add("C02", "mask operator skips input check", OPS + "mask_operator.py", "        self._check_input(x, mode)\n        self._device_preparation(x, mode)\n        x = x.val",
    "        self._device_preparation(x, mode)\n        x = x.val", "R02.2")
add("C03", "tan derivative", "nifty/cl/pointwise.py", "lambda v: (np.tan(v), 1./np.cos(v)**2)", "lambda v: (np.tan(v), 1./np.cos(v))", "R03.2")
add("C03", "product drops metric request", OPS + "operator.py", "        lin2 = self._op2(Linearization.make_var(v2, wm))", "        lin2 = self._op2(Linearization.make_var(v2))", "R03.3")
add("C06", "vdot arguments swapped", "nifty/cl/any_array.py", "return cpu_vdot(self._val, x._val)", "return cpu_vdot(x._val, self._val)", "R06.3")
add("C06", "s_vdot without domain check", "nifty/cl/field.py",
    "        utilities.check_object_identity(x._domain, self._domain)\n\n        return self._val.vdot(x._val)", "        return self._val.vdot(x._val)", "R06.2")
add("C07", "lock tests self", "nifty/cl/any_array.py", "        if isinstance(self._val, np.ndarray):\n            self._val.flags.writeable = False",
    "        if isinstance(self, np.ndarray):\n            self._val.flags.writeable = False", "R07.1")
add("C07", "val_rw without copy", "nifty/cl/field.py", "        return self._val.copy()", "        return self._val", "R07.5")
add("C07", "Field.__init__ no lock", "nifty/cl/field.py", "        val = AnyArray(val)\n        val.lock()\n", "        val = AnyArray(val)\n", "R07.2")
add("C08", "MultiDomain stores under other key", "nifty/cl/multi_domain.py", "        MultiDomain._domainCache[tmp] = obj", "        MultiDomain._domainCache[inp] = obj", "R08.2")
add("C08", "unpickle bypasses make", "nifty/cl/domain_tuple.py", "    return DomainTuple.make(*args)", "    return DomainTuple(*args, _callingfrommake=True)", "R08.3")
add("C09", "jax hartley misspelt literal", "nifty/re/correlated_field.py", 'c == "non_canonical_hartley" else operator.sub', 'c == "noncanonical_hartley" else operator.sub', "R09.1")
add("C10", "adjoint distribution overwrites", OPS + "distributors.py", "        oarr = special_add_at(oarr, 1, self._dofdex, arr)", "        oarr[:, self._dofdex.val, :] = arr", "R10.1")
add("C11", "metric skipped for complex", OPS + "energy_operators.py", "        if not x.want_metric:\n            return res\n        if not self._use_full_fisher:",
    "        if not x.want_metric or self._cplx:\n            return res\n        if not self._use_full_fisher:", "R11.1")
add("C12", "metric without jvp", "nifty/re/likelihood.py", "        return bwd(self.likelihood.metric(y, fwd(tangents), **kw_l))[0]",
    "        return bwd(self.likelihood.metric(y, tangents, **kw_l))[0]", "R12.1")
add("C12", "frozen primals as tangents", "nifty/re/likelihood.py",
    "            flat_fill=(self.primals_frozen, zeros_like(self.primals_frozen)),\n            remove_axes=self.insert_axes,",
    "            flat_fill=(self.primals_frozen, self.primals_frozen),\n            remove_axes=self.insert_axes,", "R12.3")
add("C13", "diagonal inverse sampling flag", OPS + "diagonal_operator.py", "from_inverse2 = from_inverse ^ (self._trafo >= 2)", "from_inverse2 = from_inverse ^ (self._trafo >= 1)", "R13.2")
add("C13", "sum samples from inverse", OPS + "sum_operator.py", "        if from_inverse:\n            raise NotImplementedError(\n                \"cannot draw from inverse of this operator\")\n        res = None",
    "        res = None", "R13.1")
add("C14", "recurrence sign", "nifty/cl/minimization/conjugate_gradient.py", "                r = r - q*alpha", "                r = r + q*alpha", "R14.2")
add("C14", "quadratic energy gradient sign", "nifty/cl/minimization/quadratic_energy.py", "self._grad = Ax if b is None else Ax - b", "self._grad = Ax if b is None else Ax + b", "R14.3")
add("C15", "static reset residual sign", "nifty/re/conjugate_gradient.py", '            lambda x: mat(x["pos"]) - x["j"],', '            lambda x: x["j"] - mat(x["pos"]),', "R15.1")
add("C15", "eager resnorm <=", "nifty/re/conjugate_gradient.py", "            if norm < resnorm and i >= miniter:", "            if norm <= resnorm and i >= miniter:", "R15.1")
add("C15", "fallback uphill", "nifty/re/conjugate_gradient.py", "                pos = pos - previous_gamma / (-curv) * d", "                pos = pos + previous_gamma / (-curv) * d", "R15.2")
add("C16", "tolerant energy comparison", "nifty/cl/minimization/descent_minimizers.py", "            if new_energy.value > energy.value:",
    "            if new_energy.value > energy.value + 1e-8*abs(energy.value):", "R16.1")
add("C17", "static accepts slightly uphill", "nifty/re/optimize.py", "        status = jnp.where(new_energy <= start_energy, 0, status)",
    "        status = jnp.where(new_energy <= start_energy + 1e-10, 0, status)", "R17.1")
add("C17", "eager reset after 5", "nifty/re/optimize.py", "            if naive_ls_it == 5:", "            if naive_ls_it == 4:", "R17.2")
add("C21", "legacy randint", "nifty/cl/random.py", "            x = _rng[-1].integers(low, high+1, shape)", "            x = np.random.randint(low, high+1, shape)", "R21.1")
add("C21", "context exit swallows", "nifty/cl/random.py", "        return exc_type is None", "        return True", "R21.2")
add("C21", "state keeps unsplit key", "nifty/re/optimize_kl.py", "        key, sk = random.split(key, 2)", "        _, sk = random.split(key, 2)", "R21.4")
add("C22", "iterator loop bound local", "nifty/cl/minimization/sample_list.py", "                for i in range(_bcast(self.n_local_samples, self._comm, itask)):",
    "                for i in range(self.n_local_samples):", "R22.1")
add("C22", "seed by local index", "nifty/cl/minimization/kl_energies.py", "        with random.Context(sseq[i]):\n            neg",
    "        with random.Context(sseq[i - shareRange(len(sseq), ntask, rank)[0]]):\n            neg", "R22.3")
add("C23", "receive from wrong rank", "nifty/cl/utilities.py", "_recv(comm, source=who[j+step], dtype=dtype)", "_recv(comm, source=who[j], dtype=dtype)", "R23.2")
add("C23", "loop bound local", "nifty/cl/utilities.py", "        for j in range(0, nobj, 2*step):", "        for j in range(0, hi, 2*step):", "R23.1")
add("C23", "send order swapped", "nifty/cl/utilities.py", "        comm.send((obj.shape, obj.dtype), dest=dest)\n        comm.Send(obj, dest=dest)",
    "        comm.Send(obj, dest=dest)\n        comm.send((obj.shape, obj.dtype), dest=dest)", "R23.3")
add("C24", "state written in place", "nifty/re/optimize_kl.py", "            tmp_fn = last_fn + \".tmp\"", "            tmp_fn = last_fn", "R24.1")
add("C24", "dump only samples", "nifty/re/optimize_kl.py", "                pickle.dump((samples, opt_vi_st._replace(config={})), f)", "                pickle.dump((samples, None), f)", None)
add("C25", "marker before minisanity", "nifty/cl/minimization/optimize_kl.py",
    "        _minisanity(lh, iglobal, sl, comm, plot_minisanity_history)\n        _barrier(comm(iglobal))\n\n        # Commit",
    "        _barrier(comm(iglobal))\n\n        # Commit", None)
add("C25", "save_to_disk in place", "nifty/cl/minimization/sample_list.py", "    tmp = os.path.join(head, \".tmp_\" + tail)", "    tmp = file_name", "R25.3")
add("C26", "barrier at local count", "nifty/cl/minimization/sample_list.py",
    "        _ensure_proper_sample_list_ending(_sample_file_name(file_name_base, self.n_samples),\n                                          overwrite, self.comm)\n\n        # Save samples\n        with ensure_all_tasks_succeed(self.comm):\n            for ii, isample in enumerate(self.local_indices):\n                obj = self._s[ii]",
    "        _ensure_proper_sample_list_ending(_sample_file_name(file_name_base, self.n_local_samples),\n                                          overwrite, self.comm)\n\n        # Save samples\n        with ensure_all_tasks_succeed(self.comm):\n            for ii, isample in enumerate(self.local_indices):\n                obj = self._s[ii]", "R26.2")
add("C26", "writer extension with dot", "nifty/cl/minimization/sample_list.py", '    return f"{file_name_base}.{isample}.pickle"', '    return f"{file_name_base}.{isample}.pkl.gz"', "R26.1")
add("C27", "pop skipped on dry run", "nifty/cl/minimization/optimize_kl.py", "            pop_sseq()\n            continue", "            continue", "R27.2")
add("C27", "iglobal unbound", "nifty/cl/minimization/optimize_kl.py", "            check_MPI_synced_random_state(comm(initial_index))", "            check_MPI_synced_random_state(comm(iglobal))", "R27.1")
add("C32", "second kick at old position", "nifty/re/hmc.py", ") * potential_energy_gradient(position_fullstep)", ") * potential_energy_gradient(position)", "R32.1")
add("C32", "drift with full-step momentum", "nifty/re/hmc.py", "        inverse_mass_matrix, momentum_halfstep\n    )", "        inverse_mass_matrix, momentum\n    )", "R32.1")
add("C33", "floordiv bound to truediv", "nifty/re/tree_math/vector.py", "__floordiv__, __rfloordiv__ = _fwd_rev_binary_op(operator.floordiv)",
    "__floordiv__, __rfloordiv__ = _fwd_rev_binary_op(operator.truediv)", "R33.1")
add("C33", "reflected op keeps order", "nifty/re/tree_math/vector.py", "        return _broadcast_binary_op(op, rhs, lhs)", "        return _broadcast_binary_op(op, lhs, rhs)", "R33.1")
add("C06", "multi-field norm ignores ord", "nifty/cl/multi_field.py", "        return (nrm ** ord).sum() ** (1./ord)", "        return np.sqrt((nrm ** 2).sum())", "R06.6")
add("C06", "Field.norm drops ord", "nifty/cl/field.py", "        return self._val.norm(ord=ord)", "        return self._val.norm()", "R06.6")
add("C06", "weight indexes the shape vector with the sub-domain index", "nifty/cl/field.py",
    "                new_shape[self._domain.axes[ind][0]:\n                          self._domain.axes[ind][-1]+1] = wgt.shape", "                new_shape[ind] = wgt.size", "R06.8")
add("C10", "weight indexes the shape vector with the sub-domain index", "nifty/cl/field.py",
    "                new_shape[self._domain.axes[ind][0]:\n                          self._domain.axes[ind][-1]+1] = wgt.shape", "                new_shape[ind] = wgt.size", "R10.6")
add("C11", "inverse gamma stores alpha instead of alpha+1", OPS + "energy_operators.py", "        self._alphap1 = alpha+1\n", "        self._alphap1 = alpha\n", "R11.6")
add("C11", "Bernoulli non-event term in the integer dtype", OPS + "energy_operators.py", ".vdot(self._d-1.)", ".vdot(self._d-1)", "R11.7")
add("C11", "Poisson energy without the sum of the rates", OPS + "energy_operators.py", "        res = x.sum() - x.log().vdot(self._d)", "        res = -x.log().vdot(self._d)", "R11.6")
add("C19", "JAX KL sums instead of averaging", "nifty/re/optimize_kl.py", "_reduce = partial(tree_map, partial(jnp.mean, axis=0))", "_reduce = partial(tree_map, partial(jnp.sum, axis=0))", "R19.3")
add("C19", "JAX Hamiltonian prior without the factor 1/2", "nifty/re/optimize_kl.py", "+ 0.5 * vdot(primals, primals)", "+ vdot(primals, primals)", "R19.3")
add("C19", "JAX KL metric maps the tangents too", "nifty/re/optimize_kl.py", "vmet = map(ham.metric, in_axes=(0, None))", "vmet = map(ham.metric, in_axes=(0, 0))", "R19.3")
add("C19", "JAX KL evaluated at the bare residuals", "nifty/re/optimize_kl.py", "    s = vvg(primals_samples.at(primals).samples)", "    s = vvg(primals_samples._samples)", "R19.3")
add("C19", "constant keys: value stripped instead of gradient", "nifty/re/optimize_kl.py", "                remove_axes=(False, insert_axes),", "                remove_axes=(insert_axes, False),", "R19.4")
add("C19", "constant keys: tangent slot filled with the frozen primals", "nifty/re/optimize_kl.py", "flat_fill=(primals_frozen, zeros_like(primals_frozen)),", "flat_fill=(primals_frozen, primals_frozen),", "R19.4")
add("C19", "constant keys: minimiser starts from the full position", "nifty/re/optimize_kl.py", "            x0=pl,", "            x0=samples.pos,", "R19.4")
add("C18", "both white draws use the same sub-key", "nifty/re/evi.py", "    prr_inv_metric_smpl = random_like(key=subkey_prr, primals=p_liquid)", "    prr_inv_metric_smpl = random_like(key=subkey_nll, primals=p_liquid)", "R18.3")
add("C18", "metric sample without the prior draw", "nifty/re/evi.py", "    smpl = nll_smpl + prr_smpl\n", "    smpl = nll_smpl\n", "R18.3")
add("C18", "CG metric without the prior identity", "nifty/re/evi.py", "    return lh.metric(p_liquid, tangents, **primals_kw) + tangents\n\n\ndef draw_linear_residual", "    return lh.metric(p_liquid, tangents, **primals_kw)\n\n\ndef draw_linear_residual", "R18.3")
add("C18", "classic right-hand side drawn from the prior metric twice", "nifty/cl/operators/sampling_enabler.py", "                nj = self._likelihood.draw_sample(device_id=device_id)", "                nj = self._prior.draw_sample(device_id=device_id)", "R18.3")
add("C18", "classic initial gradient with the wrong sign", "nifty/cl/operators/sampling_enabler.py", "_grad=self._likelihood(s) - nj)", "_grad=self._likelihood(s) + nj)", "R18.3")
add("C18", "classic prior draw not from the inverse", "nifty/cl/operators/sampling_enabler.py", "s = self._prior.draw_sample(from_inverse=True, device_id=device_id)", "s = self._prior.draw_sample(from_inverse=False, device_id=device_id)", "R18.3")
add("C26", "biased variance", "nifty/cl/probing.py", "        return self._M2 * (1./(self._count-1))", "        return self._M2 * (1./self._count)", "R26.7")
add("C26", "spread accumulated with the old deviation twice", "nifty/cl/probing.py", "            self._M2 = self._M2 + delta*delta2", "            self._M2 = self._M2 + delta*delta", "R26.7")
add("C26", "running mean divided by the old count", "nifty/cl/probing.py", "            self._mean = self.mean + delta*(1./self._count)", "            self._mean = self.mean + delta*(1./(self._count-1))", "R26.7")
add("C26", "offset from the standard share of the total", "nifty/cl/minimization/sample_list.py", "    start = sum(n_locals[:comm.Get_rank()])", "    start = shareRange(sum(n_locals), comm.Get_size(), comm.Get_rank())[0]", "R26.4")
add("C08", "isotropy shortcut tests two axes only", "nifty/cl/domains/rg_space.py", "        if np.all(self.distances == self.distances[0]):  # shortcut", "        if self.distances[0] == self.distances[-1]:  # shortcut", "R08.10")
OTO = "nifty/cl/operator_tree_optimiser.py"
add("C05", "rewrite runs on the caller's operator", OTO, "    op_optimised = deepcopy(op)\n", "    op_optimised = op\n", "R05.1")
add("C05", "placeholder created on the domain of the cut operator", OTO, "FieldAdapter(res_op.target, next(prepend_id) + str(id(res_op)))", "FieldAdapter(res_op.domain, next(prepend_id) + str(id(res_op)))", "R05.2")
add("C05", "operator.adjoint(placeholder) instead of placeholder.adjoint(operator)", OTO, "        op = op.partial_insert(same_op[key][1].adjoint(same_op[key][0]))", "        op = op.partial_insert(same_op[key][0].adjoint(same_op[key][1]))", "R05.2")
add("C05", "self-check compares the rewritten operator with itself", OTO, "        myassert(allclose(op(test_field).asnumpy(), op_optimised(test_field).asnumpy(), 1e-10))", "        myassert(allclose(op_optimised(test_field).asnumpy(), op_optimised(test_field).asnumpy(), 1e-10))", "R05.1")
add("C05", "subtree placeholders are never bound back", OTO, "    for key in key_list_subtrees:\n        op = op.partial_insert(same_subtrees[key][1].adjoint(same_subtrees[key][0]))\n", "", "R05.2")
EOP = OPS + "energy_operators.py"
add("C04", "specialised variable-covariance energy halves the log-determinant for complex sampling too", EOP, "            if not self._cplx:\n                trlog /= 2\n", "            trlog /= 2\n", "R04.2")
add("C04", "specialised variable-covariance energy with the wrong sign of the log-determinant", EOP, "            res = res + ConstantLikelihoodEnergyOperator(-trlog)", "            res = res + ConstantLikelihoodEnergyOperator(trlog)", "R04.2")
add("C04", "product gives both factors the constants of the first factor's domain", OPS + "operator.py",
    "        f2, o2 = self._op2.simplify_for_constant_input(\n            c_inp.extract_part(self._op2.domain))\n        if not isinstance(self._target, MultiDomain):\n            return None, _OpProd(o1, o2)",
    "        f2, o2 = self._op2.simplify_for_constant_input(\n            c_inp.extract_part(self._op1.domain))\n        if not isinstance(self._target, MultiDomain):\n            return None, _OpProd(o1, o2)", "R04.3")
add("C04", "chain is specialised from the output side", OPS + "chain_operator.py", "        for op in reversed(self._ops):\n            c_inp, t_op = op.simplify_for_constant_input(c_inp)", "        for op in self._ops:\n            c_inp, t_op = op.simplify_for_constant_input(c_inp)", "R04.3")
add("C04", "sum rebuilt as a product", OPS + "operator.py", "            return None, _OpSum(o1, o2)", "            return None, _OpProd(o1, o2)", "R04.3")
add("C06", "mean of non-uniform volumes without weights", "nifty/cl/field.py", "        tmp = self.weight(1, spaces)\n        return tmp.sum(spaces)*(1./tmp.total_volume(spaces))", "        tmp = self\n        return tmp.sum(spaces)*(1./tmp.total_volume(spaces))", "R06.9")
add("C06", "uniform-volume integral forgets the weight", "nifty/cl/field.py", "            res = res*swgt\n            return res", "            return res", "R06.9")
add("C06", "s_integrate weights twice", "nifty/cl/field.py", "        tmp = self.weight(1)\n        return tmp.s_sum()", "        tmp = self.weight(2)\n        return tmp.s_sum()", "R06.9")
add("C18", "mirror flag of another position", "nifty/cl/minimization/sample_list.py", "        return self._m.flexible_addsub(self._r[i], self._n[i])",
    "        return self._m.flexible_addsub(self._r[i], self._n[i-1])", "R18.1")
add("C18", "mirrored sample stored pre-negated", "nifty/cl/minimization/kl_energies.py", "                local_samples.append(yi)\n                local_neg.append(neg)",
    "                local_samples.append(-yi if neg else yi)\n                local_neg.append(neg)", "R18.1")
add("C19", "residuals shifted when the mean moves", "nifty/cl/minimization/sample_list.py", "        return ResidualSampleList(mean, self._r, self._n, self.comm)",
    "        return ResidualSampleList(mean, [rr + (self._m - mean) for rr in self._r], self._n, self.comm)", "R19.2")
add("C04", "constants not removed from the position", "nifty/cl/minimization/energy_adapter.py", "            position = position.extract_by_keys(varkeys)\n", "", "R04.1")
add("C08", "empty upper bins not counted", "nifty/cl/domains/power_space.py", "minlength=nbin)", ")", "R08.6")
add("C09", "config rebinds the shared dict", "nifty/config.py", "    _config[key] = value", "    _config = {**_config, key: value}", "R09.3")
add("C09", "scipy hartley loses axes on device", "nifty/cl/ducc_dispatch.py", "        tmp = AnyArray(cufftn(a._val, axes=axes))", "        tmp = AnyArray(cufftn(a._val))", "R09.4")
add("C09", "hartley operator transforms all axes", OPS + "harmonic_operators.py", "        tmp = hartley(x.val, axes=axes)", "        tmp = hartley(x.val)", "R09.4")
add("C09", "jax correlated field axes start at zero", "nifty/re/correlated_field.py", "axes = tuple(range(n - len(sub_shp), n))", "axes = tuple(range(0, len(sub_shp)))", "R09.5")
add("C10", "power_analyze drops imaginary part", "nifty/cl/sugar.py", "parts = [field.real*field.real + field.imag*field.imag]", "parts = [field.real*field.real]", "R10.3")
add("C10", "power_analyze refuses complex input again", "nifty/cl/sugar.py", "    if field_real and keep_phase_information:", "    if (not field_real) and keep_phase_information:", "R10.3")
add("C10", "bin sums not divided by bin size", "nifty/cl/sugar.py", "return pd.adjoint_times(field.weight(1)).weight(-1)", "return pd.adjoint_times(field.weight(1))", "R10.3")
add("C10", "Field spectrum unreachable", "nifty/cl/sugar.py", "    if isinstance(power_spectrum, Field) or not callable(power_spectrum):", "    if not callable(power_spectrum):", "R10.4")
add("C10", "index array narrowed", OPS + "distributors.py", "self._dofdex = AnyArray(dofdex.ravel())", "self._dofdex = AnyArray(dofdex.ravel().astype(np.int16))", "R10.5")
add("C11", "nested likelihood sums duplicated", OPS + "energy_operators.py", "                res = cls.unpack(op._ops, res)", "                res = res + cls.unpack(op._ops, res)", "R11.3")
add("C11", "poisson transformation scale", OPS + "energy_operators.py", "return np.float64, 2.*Operator.identity_operator(self._domain).sqrt()",
    "return np.float64, Operator.identity_operator(self._domain).sqrt()", "R11.4")
add("C11", "bernoulli energy sign", OPS + "energy_operators.py", "res = -x.log().vdot(self._d) + (1.-x).log().vdot(self._d-1.)",
    "res = -x.log().vdot(self._d) - (1.-x).log().vdot(self._d-1.)", "R11.4")
add("C11", "student-t metric constant", OPS + "energy_operators.py", "makeOp(((th+1)/(th+3)).sqrt())", "makeOp(((th+1)/(th+2)).sqrt())", "R11.4")
add("C11", "sandwich scaling shortcut squares a complex factor", OPS + "sandwich_operator.py", "fct = abs(bun._factor)**2", "fct = bun._factor**2", "R11.5")
add("C13", "sum sample keeps last summand", OPS + "sum_operator.py", "res = tmp if res is None else res.unite(tmp)", "res = tmp", "R13.3")
add("C32", "momentum scale exponent", "nifty/re/hmc_oo.py", "self.inverse_mass_matrix ** (-0.5)", "self.inverse_mass_matrix ** (0.5)", "R32.2")
add("C32", "kinetic gradient without mass", "nifty/re/hmc_oo.py", "kinetic_energy_gradient = lambda inv_m, mom: inv_m * mom", "kinetic_energy_gradient = lambda inv_m, mom: mom", "R32.2")
add("C32", "unbiased merge prefers old tree", "nifty/re/hmc.py", "            new_subtree.logweight - current_subtree.logweight\n        )\n    # print",
    "            current_subtree.logweight - new_subtree.logweight\n        )\n    # print", "R32.3")
add("C32", "single endpoint selection inverted", "nifty/re/hmc.py", "proposal_candidate = select(remain, tree.proposal_candidate, qp)",
    "proposal_candidate = select(remain, qp, tree.proposal_candidate)", "R32.3")
add("C32", "key reused for direction and subtree", "nifty/re/hmc.py", "go_right = random.bernoulli(key_dir, 0.5)", "go_right = random.bernoulli(key_subtree, 0.5)", "R32.4")
add("C32", "NaN energy accepted", "nifty/re/hmc.py", "jnp.where(jnp.isnan(energy_diff), -jnp.inf, energy_diff)", "jnp.where(jnp.isnan(energy_diff), jnp.inf, energy_diff)", "R32.5")
add("C32", "acceptance uses reversed energy difference", "nifty/re/hmc.py", "energy_diff = total_energy(initial_qp) - total_energy(proposed_qp)",
    "energy_diff = total_energy(proposed_qp) - total_energy(initial_qp)", "R32.5")
add("C33", "vdot without conjugation", "nifty/re/tree_math/vector_math.py", "tree_map(partial(jnp.vdot, precision=precision), a, b)",
    "tree_map(partial(jnp.dot, precision=precision), a, b)", "R33.2")
add("C33", "vdot swaps operands", "nifty/re/tree_math/vector_math.py", "tree_map(partial(jnp.vdot, precision=precision), a, b)",
    "tree_map(partial(jnp.vdot, precision=precision), b, a)", "R33.2")
add("C33", "max reduces pairs with min", "nifty/re/tree_math/vector_math.py", "max = _unary_reduction(jnp.max)", "max = _unary_reduction(jnp.min)", "R33.2")
add("C33", "norm ord=0 branch removed", "nifty/re/tree_math/vector_math.py", "    if ord == 0:\n", "    if ord is None:\n", "R33.2")
add("C33", "smap returns input for unmapped output", "nifty/re/custom_map.py", "            out.append(el[0])", "            out.append(unmapped.pop(0))", "R33.3")
add("C33", "smap moves output to the input axis order", "nifty/re/custom_map.py", "out.append(_moveaxis(el, 0, i))", "out.append(_moveaxis(el, i, 0))", "R33.3")
SDP = "nifty/re/num/stats_distributions.py"
SPDP = "nifty/cl/library/special_distributions.py"
add("C30", "normal inverse multiplies", SDP, "    return (y - mean) / std", "    return (y - mean) * std", "R30.1")
add("C30", "lognormal moments forget the half", SDP, "logmean = log(mean) - 0.5 * logstd**2", "logmean = log(mean) - logstd**2", "R30.1")
add("C30", "laplace upper branch uses the wrong tail", SDP, "res -= (xi > 0) * (norm_logcdf(-xi) + jnp.log(2))", "res -= (xi > 0) * (norm_logcdf(xi) + jnp.log(2))", "R30.1")
add("C30", "uniform scale is a_max", SDP, "    scale = a_max - a_min", "    scale = a_max", "R30.1")
add("C30", "lognormal prior swaps moments", SDP, "return Partial(_standard_to_lognormal, log_mean=_log_mean, log_std=_log_std)",
    "return Partial(_standard_to_lognormal, log_mean=_log_std, log_std=_log_mean)", "R30.1")
add("C30", "invgamma scale applied twice", SDP, "        if loc == 0.0:\n            return standard_to_invgamma_interp(x) * scale\n        return standard_to_invgamma_interp(x)",
    "        return standard_to_invgamma_interp(x) * scale", "R30.1")
add("C30", "classic uniform jacobian without scale", SPDP, "jac = makeOp(Field(self._domain, norm._pdf(xval)*self._scale))", "jac = makeOp(Field(self._domain, norm._pdf(xval)))", "R30.2")
add("C30", "classic uniform inverse forgets loc", SPDP, "res = norm._ppf((field.val - self._loc) / self._scale)", "res = norm._ppf(field.val / self._scale)", "R30.2")
add("C30", "laplace jacobian branches swapped", SPDP, "np.where(y > 0.5, 1/(1-y), 1/y)", "np.where(y > 0.5, 1/y, 1/(1-y))", "R30.2")
add("C30", "inverse gamma mean formula", SPDP, "self._mean = self._q / (self._alpha - 1)", "self._mean = self._q / (self._alpha + 1)", "R30.2")
add("C30", "gamma alpha from mean and var", SPDP, "            alpha = mean / theta", "            alpha = mean * theta", "R30.2")
add("C30", "classic lognormal moments", "nifty/cl/utilities.py", "logmean = np.log(mean) - logsigma**2 / 2", "logmean = np.log(mean) + logsigma**2 / 2", "R30.2")
add("C36", "re chi-square divided by size for complex input", "nifty/re/minisanity.py", "    ndof = inp.size if jnp.isrealobj(inp) else 2 * inp.size", "    ndof = inp.size", "R36.1")
add("C36", "re chi-square without conjugation", "nifty/re/minisanity.py", "rchisq = jnp.vdot(inp, inp).real / ndof", "rchisq = jnp.dot(inp, inp).real / ndof", "R36.1")
add("C36", "re reports std of the wrong statistic", "nifty/re/minisanity.py", "rx = jnp.array([jnp.mean(rx), jnp.std(rx)])", "rx = jnp.array([jnp.mean(rx), jnp.std(m)])", "R36.1")
add("C36", "classic chi-square divided by full size", "nifty/cl/extra.py", "                    xredchisq[ii][kk].add(tmp / lsize)", "                    xredchisq[ii][kk].add(tmp / sskk.size)", "R36.2")
add("C36", "classic zero entries not ignored", "nifty/cl/extra.py", "lsize = sskk.size - n_isnan - n_iszero", "lsize = sskk.size - n_isnan", "R36.2")
add("C36", "classic mean accumulates squares", "nifty/cl/extra.py", "if (tmp:=np.nansum(sskk)) == 0 and lsize == 0:", "if (tmp:=np.nansum(sskk**2)) == 0 and lsize == 0:", "R36.2")
add("C36", "classic ignored count drops zeros", "nifty/cl/extra.py", "xnigndof[ii][kk] = n_isnan + n_iszero", "xnigndof[ii][kk] = n_isnan", "R36.2")
add("C36", "classic slots swapped in the result", "nifty/cl/extra.py", "                'data_residuals': xredchisq[0],\n                'latent_variables': xredchisq[1]",
    "                'data_residuals': xredchisq[1],\n                'latent_variables': xredchisq[0]", "R36.2")
GMP = "nifty/re/gauss_markov.py"
add("C29", "wiener amplitude linear in dt", GMP, "    amp = jnp.sqrt(dt) * sigma", "    amp = dt * sigma", "R29.1")
add("C29", "OU amplitude uses drift not drift squared", GMP, "amp = sigma * jnp.sqrt(1.0 - drift**2)", "amp = sigma * jnp.sqrt(1.0 - drift)", "R29.2")
add("C29", "OU drift without minus", GMP, "drift = jnp.exp(-gamma * dt)", "drift = jnp.exp(-gamma * dt / 2)", "R29.2")
add("C29", "OU hands amplitude and drift swapped", GMP, "return scalar_gauss_markov_process(xi, x0, drift, amp)", "return scalar_gauss_markov_process(xi, x0, amp, drift)", "R29.2")
add("C29", "IWP own-variance term", GMP, "jnp.sqrt(dt**2 / 12.0 + asperity)", "jnp.sqrt(dt**2 / 3.0 + asperity)", "R29.3")
add("C29", "IWP cross term", GMP, "res = res.at[:, 0].add(0.5 * dt * res[:, 1])", "res = res.at[:, 0].add(dt * res[:, 1])", "R29.3")
add("C29", "IWP drift uses current slope", GMP, "res = res.at[1:, 0].add(dt * res[:-1, 1])", "res = res.at[1:, 0].add(dt * res[1:, 1])", "R29.3")
add("C29", "generic loop multiplies the wrong row", GMP, "return a.at[i + 1].add(jnp.matmul(d, a[i]))", "return a.at[i + 1].add(jnp.matmul(d, a[i + 1]))", "R29.4")
add("C29", "generic noise uses drift", GMP, "res = vmap(jnp.matmul, in_ax, 0)(diffamp, xi)", "res = vmap(jnp.matmul, in_ax, 0)(drift, xi)", "R29.4")
add("C35", "mask stores the flags themselves", OPS + "mask_operator.py", "self._flags = np.logical_not(flags.val)", "self._flags = flags.val.astype(bool)", "R35.1")
add("C35", "mask adjoint leaves the rest uninitialised", OPS + "mask_operator.py", "        res[~self._flags] = 0\n", "", "R35.1")
add("C35", "mask adjoint scatters into the complement", OPS + "mask_operator.py", "        res[self._flags] = x\n        res[~self._flags] = 0", "        res[~self._flags] = x\n        res[self._flags] = 0", "R35.1")
add("C35", "central adjoint overwrites the overlap", OPS + "field_zero_padder.py", "                    xnew[i1] += v[i1]", "                    xnew[i1] = v[i1]", "R35.2")
add("C35", "central forward uses Nyquist of the output", OPS + "field_zero_padder.py", "                    Nyquist = v.shape[d]//2", "                    Nyquist = xnew.shape[d]//2", "R35.2")
add("C35", "regridding adjoint swaps the weights", OPS + "regridding_operator.py", "xnew = special_add_at(xnew, d, self._bindex[d-d0], v*(1.-wgt))\n                xnew = special_add_at(xnew, d, self._bindex[d-d0]+1, v*wgt)",
    "xnew = special_add_at(xnew, d, self._bindex[d-d0], v*wgt)\n                xnew = special_add_at(xnew, d, self._bindex[d-d0]+1, v*(1.-wgt))", "R35.3")
add("C35", "regridding index not clamped", OPS + "regridding_operator.py", "self._bindex[d] = np.minimum(dom.shape[d]-2, tmp.astype(np.int64))", "self._bindex[d] = tmp.astype(np.int64)", "R35.3")
add("C35", "interpolator truncates instead of floor", OPS + "linear_interpolation.py", "pos = np.floor(pos).astype(np.int64)", "pos = pos.astype(np.int64)", "R35.4")
add("C35", "interpolator weight without abs complement", OPS + "linear_interpolation.py", "np.abs(1 - mg[:, i].reshape(-1, 1) - excess)", "np.abs(mg[:, i].reshape(-1, 1) - excess)", "R35.4")
add("C35", "interpolator adjoint uses matvec", OPS + "linear_interpolation.py", "res = self._sop.rmatvec(x).reshape(self.domain.shape)", "res = self._sop.matvec(x).reshape(self.domain.shape)", "R35.4")
add("C24", "temporary state file opened exclusively", "nifty/re/optimize_kl.py", '            with open(tmp_fn, "wb") as f:', '            with open(tmp_fn, "xb") as f:', "R24.1")
add("C24", "sampler cached on the instance", "nifty/re/optimize_kl.py", "        sampler = Partial(self.draw_linear_residual, **kwargs)\n",
    "        sampler = Partial(self.draw_linear_residual, **kwargs)\n        self._last_sampler = sampler\n", "R24.4")
add("C01", "sandwich scaling shortcut squares a complex factor", OPS + "sandwich_operator.py", "fct = abs(bun._factor)**2", "fct = bun._factor**2", "R01.4")
add("C23", "bcast master is rank zero", "nifty/cl/utilities.py", "    master = comm.Get_rank() == root", "    master = comm.Get_rank() == 0", "R23.6")
add("C23", "send skips the contiguity copy for Fortran order", "nifty/cl/utilities.py", "        shp_orig = obj.shape\n        obj = np.ascontiguousarray(obj).reshape(shp_orig)\n",
    "        if not obj.flags.forc:\n            shp_orig = obj.shape\n            obj = np.ascontiguousarray(obj).reshape(shp_orig)\n", "R23.5")
add("C23", "send asserts before coercing", "nifty/cl/utilities.py", "    if dtype is np.ndarray:\n        # Partial sums of 0-d arrays are numpy scalars\n        obj = np.asarray(obj)\n    assert isinstance(obj, dtype)",
    "    assert isinstance(obj, dtype)", "R23.5")
add("C07", "distributor reuses its output buffer", OPS + "distributors.py", "        oarr = np.empty_like(arr, shape=self._pshape, dtype=x.dtype)\n        oarr[()] = arr[(slice(None), self._dofdex, slice(None))]",
    "        if getattr(self, '_obuf', None) is None:\n            self._obuf = np.empty_like(arr, shape=self._pshape, dtype=x.dtype)\n        oarr = self._obuf\n        oarr[()] = arr[(slice(None), self._dofdex, slice(None))]", "R07.7")
add("C07", "AnyArray strips subclasses with asarray", "nifty/cl/any_array.py", "        if np.isscalar(arr):\n            arr = np.array(arr)\n",
    "        if np.isscalar(arr):\n            arr = np.array(arr)\n        elif isinstance(arr, np.ndarray) and type(arr) is not np.ndarray:\n            arr = np.asarray(arr)\n", "R07.6")
add("C21", "repeated iteration aliases the previous seed sequence", "nifty/cl/minimization/optimize_kl.py", "            sseqs[iglobal] = sseq_dup", "            sseqs[iglobal] = sseqs[iglobal-1]", "R21.7")
add("C21", "resume rebuilds the state without the key", "nifty/re/optimize_kl.py", "        opt_vi_st = opt_vi_st._replace(config=opt_vi_st_init.config)",
    "        opt_vi_st = opt_vi_st_init._replace(nit=opt_vi_st.nit, sample_state=opt_vi_st.sample_state, minimization_state=opt_vi_st.minimization_state)", "R21.8")
GRP = "nifty/re/multi_grid/grid.py"
add("C31", "periodic parent divides by own split", GRP, "        return index // self.parent_splits[bc]\n", "        return index // self.splits[bc]\n", "R31.1")
add("C31", "periodic coordinate without half-cell offset", GRP, "        return (index + 0.5) / self.shape[slc]", "        return index / self.shape[slc]", "R31.1")
add("C31", "open parent forgets the padding", GRP, "        return (index // self.parent_splits[bc]) + self.parent_padding[bc]", "        return index // self.parent_splits[bc]", "R31.2")
add("C31", "open shifts recurrence without padding", GRP, "            shifts = si * (shifts + pd)", "            shifts = si * shifts + pd", "R31.2")
add("C31", "open shape recurrence single padding", GRP, "            shp = si * (shp - 2 * pd)\n            shifts", "            shp = si * (shp - pd)\n            shifts", "R31.2")
add("C31", "open coord2index adds the shift", GRP, "index = coord * shp[slc] - self.shifts[slc] - 0.5", "index = coord * shp[slc] + self.shifts[slc] - 0.5", "R31.2")
add("C31", "open children clip off by one", GRP, "return super().children(index.clip(lo, hi - 1) - lo)", "return super().children(index.clip(lo, hi) - lo)", "R31.2")
add("C31", "flat children converted at the wrong level", GRP, "        return self.index2flatindex(children, +1)", "        return self.index2flatindex(children)", "R31.3")
add("C31", "flat parent level shift sign", GRP, "        return self.index2flatindex(window, -1)", "        return self.index2flatindex(window, +1)", "R31.3")
LZP = "nifty/re/num/lanczos.py"
add("C34", "lanczos forgets the previous vector", LZP, "w = w - a * v_curr__ - jnp.where(i > 0, beta_full__[i - 1] * v_prev__, 0.0)", "w = w - a * v_curr__", "R34.1")
add("C34", "lanczos uses beta of the current step", LZP, "jnp.where(i > 0, beta_full__[i - 1] * v_prev__, 0.0)", "jnp.where(i > 0, beta_full__[i] * v_prev__, 0.0)", "R34.1")
add("C34", "lanczos keeps the old previous vector", LZP, "            v_prev2 = v_curr__\n", "            v_prev2 = v_prev__\n", "R34.1")
add("C34", "quadrature weights not squared", LZP, "    terms = first_evec_components**2 * fe", "    terms = first_evec_components * fe", "R34.2")
add("C34", "gauss quadrature uses the last eigenvector row", LZP, "        return _quadrature_from_eigh(\n            evals,\n            evecs[0, :],\n            fn,",
    "        return _quadrature_from_eigh(\n            evals,\n            evecs[-1, :],\n            fn,", "R34.2")
add("C34", "radau correction without beta squared", LZP, "alpha_last_hat = mu + (beta_last**2) * g", "alpha_last_hat = mu + beta_last * g", "R34.2")
add("C34", "tridiagonal not symmetric", LZP, "return jnp.diag(alpha) + jnp.diag(off, 1) + jnp.diag(off, -1)", "return jnp.diag(alpha) + jnp.diag(off, 1)", "R34.2")
add("C34", "classic ELBO adds the full dimension", "nifty/cl/evidence_lower_bound.py", "posterior_contribution = Field.scalar(tr_log_lat_cov + 0.5 * metric_size)", "posterior_contribution = Field.scalar(tr_log_lat_cov + metric_size)", "R34.3")
add("C34", "jax ELBO trace-log sign", "nifty/re/evidence_lower_bound.py", "        tr_log_lat_cov = -0.5 * exact_log\n", "        tr_log_lat_cov = 0.5 * exact_log\n", "R34.3")
add("C34", "jax analytic prior keeps the full Hamiltonian", "nifty/re/evidence_lower_bound.py", "sample_energy = likelihood if analytic_prior_term else hamiltonian", "sample_energy = hamiltonian", "R34.3")
add("C34", "classic prior term forgets the mean", "nifty/cl/evidence_lower_bound.py", "prior_term = Field.scalar(0.5 * (trace_inv_total + prior_mean_sq))", "prior_term = Field.scalar(0.5 * trace_inv_total)", "R34.3")
add("C34", "classic lower bound adds the lower error", "nifty/cl/evidence_lower_bound.py", 'elbo_lw = elbo_mean - elbo_var.sqrt() - stats["lower_error"]', 'elbo_lw = elbo_mean - elbo_var.sqrt() + stats["lower_error"]', "R34.3")
add("C20", "wiener filter dereferences the None default", "nifty/re/evi.py", "    draw_linear_kwargs = {} if draw_linear_kwargs is None else draw_linear_kwargs\n", "", "R20.2")
add("C20", "signal-space operator without the prior term", "nifty/re/evi.py", "            return forward_lin_T(n_inv(forward_lin(tangents)))[0] + tangents", "            return forward_lin_T(n_inv(forward_lin(tangents)))[0]", "R20.1")
add("C20", "information source without noise weighting", "nifty/re/evi.py", "        (j,) = forward_lin_T(n_inv(data))", "        (j,) = forward_lin_T(data)", "R20.1")
add("C20", "data-space operator without the noise", "nifty/re/evi.py", "            return RR_dagger_d + noise_covariance(tangents)", "            return RR_dagger_d", "R20.1")
add("C20", "transpose not conjugated", "nifty/re/evi.py", "    forward_lin_T = _functional_conj(forward_lin_T)\n\n    if signal_space:", "\n    if signal_space:", "R20.1")
add("C20", "classic curvature uses S instead of its inverse", "nifty/cl/library/wiener_filter_curvature.py", "    Sinv = S.inverse", "    Sinv = S", "R20.3")
add("C20", "classic curvature sandwiches N instead of its inverse", "nifty/cl/library/wiener_filter_curvature.py", "M = SandwichOperator.make(R, N.inverse)", "M = SandwichOperator.make(R, N)", "R20.3")
add("C27", "sample list save refuses to overwrite under save_strategy all", "nifty/cl/minimization/optimize_kl.py", "                    overwrite=True)\n\n            if _MPI_master(comm(iglobal)):", "                    overwrite=save_strategy == 'latest')\n\n            if _MPI_master(comm(iglobal)):", "R27.8")
add("C27", "callback arity from the code object", "nifty/cl/minimization/optimize_kl.py", "    from inspect import signature\n    return len(signature(func).parameters)",
    "    code = getattr(func, '__code__', None)\n    if code is not None:\n        return code.co_argcount\n    from inspect import signature\n    return len(signature(func).parameters)", "R27.9")
add("C21", "seed preparation starts at the resume index", "nifty/cl/minimization/optimize_kl.py", "    for iglobal in range(total_iterations):\n        if not fresh_stochasticity(iglobal):", "    for iglobal in range(initial_index, total_iterations):\n        if not fresh_stochasticity(iglobal):", "R21.9")
add("C25", "seed preparation starts at the resume index", "nifty/cl/minimization/optimize_kl.py", "    for iglobal in range(total_iterations):\n        if not fresh_stochasticity(iglobal):", "    for iglobal in range(initial_index, total_iterations):\n        if not fresh_stochasticity(iglobal):", "R25.5")
add("C23", "bcast sends the array as it is", "nifty/cl/utilities.py", "        data = (np.ascontiguousarray(obj).reshape(shape) if master\n                else np.empty(shape, dtype))", "        data = obj if master else np.empty(shape, dtype)", "R23.7")
add("C14", "controller keeps its convergence counter between runs", "nifty/cl/minimization/iteration_controllers.py",
    "    @append_history\n    def start(self, energy):\n        self._itcount = -1\n        self._ccount = 0\n        self._Eold = 0.\n        return self.check(energy)\n\n    @append_history\n    def check(self, energy):\n        self._itcount += 1\n\n        inclvl = False\n        Eval = energy.value\n        diff = abs(self._Eold-Eval)",
    "    @append_history\n    def start(self, energy):\n        self._itcount = -1\n        return self.check(energy)\n\n    @append_history\n    def check(self, energy):\n        self._itcount += 1\n\n        inclvl = False\n        Eval = energy.value\n        diff = abs(self._Eold-Eval)", "R14.5")
add("C14", "CG overwrites the cached gradient norm", "nifty/cl/minimization/conjugate_gradient.py", "            status = controller.check(energy)\n            if status != controller.CONTINUE:",
    "            energy._gradnorm = np.sqrt(gamma)\n            status = controller.check(energy)\n            if status != controller.CONTINUE:", "R14.6")
add("C14", "relative criterion with an absolute floor", "nifty/cl/minimization/iteration_controllers.py", "rel = abs(self._Eold-Eval)/max(abs(self._Eold), abs(Eval))", "rel = abs(self._Eold-Eval)/max(abs(self._Eold), abs(Eval), 1.)", "R14.7")
add("C22", "mirrored sample warm-started from the task-local list", "nifty/cl/minimization/kl_energies.py", "                pos = sam_position - yi if neg else sam_position + yi",
    "                pos = sam_position - local_samples[-1] if (neg and len(local_samples) > 0) else (sam_position - yi if neg else sam_position + yi)", "R22.5")
add("C17", "compiled line search halves after the reset", "nifty/re/optimize.py",
    "        grad_scaling = jnp.where(status < -1, grad_scaling / 2, grad_scaling)\n\n        do_reset = (i == 5) & (status < -1)\n        reset = jnp.where(do_reset, True, reset)\n        grad_scaling = jnp.where(do_reset, 1.0, grad_scaling)\n",
    "\n        do_reset = (i == 5) & (status < -1)\n        reset = jnp.where(do_reset, True, reset)\n        grad_scaling = jnp.where(do_reset, 1.0, grad_scaling)\n        grad_scaling = jnp.where(status < -1, grad_scaling / 2, grad_scaling)\n", "R17.4")
add("C17", "trust region takes the farther boundary point", "nifty/re/conjugate_gradient.py", "p_boundary = where(soa(pa) < soa(pb), pa, pb)", "p_boundary = where(vdot(z, d) > 0, pa, pb)", "R17.5")
add("C02", "nested sum signs combined with or", OPS + "sum_operator.py", "                if ng:\n                    negnew += [not n for n in op._neg]\n                else:\n                    negnew += list(op._neg)",
    "                negnew += [n or ng for n in op._neg]", "R02.8")
add("C01", "nested sum signs combined with or", OPS + "sum_operator.py", "                if ng:\n                    negnew += [not n for n in op._neg]\n                else:\n                    negnew += list(op._neg)",
    "                negnew += [n or ng for n in op._neg]", "R01.5")
add("C02", "slice adjoint buffer without dtype", OPS + "selection_operators.py", "res = np.zeros(self.domain.shape, x.dtype)", "res = np.zeros(self.domain.shape)", "R02.9")
add("C02", "outer product adjoint without conjugation", OPS + "outer_product_operator.py", "np.tensordot(self._field.val.conj(), x.val, axes)", "np.tensordot(self._field.val, x.val, axes)", "R02.10")
add("C28", "amplitude normalised without the volume", "nifty/re/correlated_field.py", "            amplitude = flu * (jnp.sqrt(self.grid.total_volume) / norm) * spectrum\n", "            amplitude = flu * (1.0 / norm) * spectrum\n", "R28.1")
add("C28", "power kind normalised like amplitude kind", "nifty/re/correlated_field.py", "            norm = jnp.sqrt(jnp.sum(mode_multiplicity[1:] * spectrum[1:]))\n            norm /= jnp.sqrt(\n                self.grid.total_volume\n            )  # Due to integral in harmonic space\n            amplitude = (",
    "            norm = jnp.sqrt(jnp.sum(mode_multiplicity[1:] * spectrum[1:] ** 2))\n            norm /= jnp.sqrt(\n                self.grid.total_volume\n            )  # Due to integral in harmonic space\n            amplitude = (", "R28.1")
add("C28", "zero mode not set to the volume", "nifty/re/correlated_field.py", "        amplitude = amplitude.at[0].set(self.grid.total_volume)\n        return amplitude", "        return amplitude", "R28.1")
add("C28", "jax matern exponent", "nifty/re/correlated_field.py", "            0.25 * slp * jnp.log1p((self.grid.harmonic_grid.mode_lengths / ctf) ** 2)", "            0.5 * slp * jnp.log1p((self.grid.harmonic_grid.mode_lengths / ctf) ** 2)", "R28.2")
add("C28", "classic matern volume factor", "nifty/cl/library/correlated_fields.py", "        vol1[1:] = totvol**0.5", "        vol1[1:] = totvol", "R28.2")
add("C28", "classic matern cutoff power", "nifty/cl/library/correlated_fields.py", "cutoff = VdotOperator(k_squared).adjoint @ cutoff.power(-2.)", "cutoff = VdotOperator(k_squared).adjoint @ cutoff.power(-1.)", "R28.2")
LIP = "nifty/re/likelihood_impl.py"
add("C12", "poisson transformation factor", LIP, "        return 2.0 * primals**0.5", "        return primals**0.5", "R12.5")
add("C12", "poisson metric not inverse", LIP, "    def metric(self, primals, tangents):\n        return tangents / primals\n", "    def metric(self, primals, tangents):\n        return tangents * primals\n", "R12.5")
add("C12", "student-t metric constant", LIP, "        return self.noise_cov_inv((self.dof + 1) / (self.dof + 3) * tangents)", "        return self.noise_cov_inv((self.dof + 1) / (self.dof + 2) * tangents)", None)
add("C12", "gaussian residual not whitened", LIP, "    def normalized_residual(self, primals):\n        return self.noise_std_inv(self.data - primals)", "    def normalized_residual(self, primals):\n        return self.noise_cov_inv(self.data - primals)", "R12.5")
add("C12", "poisson energy sign", LIP, "        return sum(primals) - vdot(tree_map(jnp.log, primals), self.data)", "        return sum(primals) + vdot(tree_map(jnp.log, primals), self.data)", "R12.5")
add("C16", "sy cache written symmetrically", "nifty/cl/minimization/descent_minimizers.py", "            self.sy[kmi, k1] = self.s[kmi].s_vdot(self.y[k1])", "            self.sy[kmi, k1] = self.sy[k1, kmi] = self.s[kmi].s_vdot(self.y[k1])", "R16.3")
add("C29", "generic generator applies the transposed amplitude", GMP, "    in_ax = (None if len(diffamp.shape) == 2 else 0, 0)\n    res = vmap(jnp.matmul, in_ax, 0)(diffamp, xi)\n",
    "    if len(diffamp.shape) == 2:\n        res = jnp.matmul(xi, diffamp)\n    else:\n        res = vmap(jnp.matmul, (0, 0), 0)(diffamp, xi)\n", "R29.4")
add("C29", "wiener sigma pulled out of the running sum", GMP, "    amp = jnp.sqrt(dt) * sigma\n    return jnp.cumsum(jnp.concatenate((jnp.atleast_1d(x0).flatten(), amp * xi)))",
    "    x0 = jnp.atleast_1d(x0).flatten()\n    walk = sigma * jnp.cumsum(jnp.sqrt(dt) * xi)\n    return jnp.concatenate((x0, x0 + walk))", "R29.1")
add("C29", "OU small-step branch with half the variance", GMP, "    amp = sigma * jnp.sqrt(1.0 - drift**2)", "    amp = sigma * jnp.sqrt(jnp.where(gamma * dt < 1e-3, gamma * dt, 1.0 - drift**2))", "R29.2")
add("C35", "LOS stride uses the wrong extent", "nifty/cl/library/los_response.py", "        inc[i] = inc[i+1]*shp[i+1]", "        inc[i] = inc[i+1]*shp[i]", "R35.5")
add("C30", "uniform shortcut for every unit-width interval", SDP, "        and a_min == 0.0\n        and a_max == 1.0\n", "        and a_max - a_min == 1.0\n", "R30.1")
add("C30", "inverse gamma prior class drops loc", "nifty/re/prior.py", "call = invgamma_prior(self.a, self.scale, self.loc, self.step)", "call = invgamma_prior(self.a, self.scale, step=self.step)", "R30.1")
add("C28", "matern power kind without the square root", "nifty/re/correlated_field.py", '        if self.kind.lower() == "power":\n            spectrum = jnp.sqrt(spectrum)\n', "", "R28.2")
add("C28", "fourier mode lengths wrap with the first axis", "nifty/re/correlated_field.py", "tmp = np.minimum(tmp, shape[i] - tmp) * mspc_distances[i]", "tmp = np.minimum(tmp, shape[0] - tmp) * mspc_distances[i]", "R28.4")
add("C28", "classic total fluctuation drops mixed terms", "nifty/cl/library/correlated_fields.py",
    "        q = 1.\n        for a in self._a:\n            fl = a.fluctuation_amplitude/self.azm\n            q = q*(1 + fl**2)\n        return (q - 1).sqrt()*self.azm",
    "        q = 0.\n        for a in self._a:\n            fl = a.fluctuation_amplitude/self.azm\n            q = q + fl**2\n        return q.sqrt()*self.azm", "R28.3")
add("C28", "classic slice fluctuation treats own space like the others", "nifty/cl/library/correlated_fields.py", "            if j == space:\n                q = q*fl**2\n", "            if j == space:\n                q = q*(1 + fl**2)\n", "R28.3")
add("C31", "scaled open grid coord2index without padding extent", "nifty/re/multi_grid/grid_impl.py", "        coord = coord / ((self.shape + 2 * self.shifts) * self.distances)[bc]", "        coord = coord / (self.shape * self.distances)[bc]", "R31.4")
add("C34", "resume projects the unshifted metric", "nifty/re/evidence_lower_bound.py", "            projector = _Projector(eigenvectors)\n            projected_metric = _ProjectedMetric(solver_metric, projector)\n\n        for batch in batches:",
    "            projector = _Projector(eigenvectors)\n            projected_metric = _ProjectedMetric(metric, projector)\n\n        for batch in batches:", "R34.4")
add("C34", "exact trace of the inverse without the data-space shift", "nifty/re/evidence_lower_bound.py", "        inv_eigs = 1.0 / (eigenvalues + float(use_data_space))", "        inv_eigs = 1.0 / eigenvalues", "R34.4")
add("C20", "data-space branch sees the unconjugated transpose", "nifty/re/evi.py", "    forward_lin_T = _functional_conj(forward_lin_T)\n\n    if signal_space:\n", "\n    if signal_space:\n        forward_lin_T = _functional_conj(forward_lin_T)\n", "R20.1")
add("C20", "linearised data without the R(position) term", "nifty/re/evi.py", "        data = data - likelihood.forward(position) + forward_lin(position)", "        data = data - likelihood.forward(position)", "R20.1")
add("C20", "sampling uses the inversion controller", "nifty/cl/library/wiener_filter_curvature.py", "op = SamplingEnabler(M, Sinv, iteration_controller_sampling, Sinv)", "op = SamplingEnabler(M, Sinv, iteration_controller, Sinv)", "R20.3")
add("C01", "mul_conj fast path without the shape guard", OPS + "diagonal_operator.py", "        if a.device_id == -1 and a.shape == b.shape:\n            return AnyArray(mul_conj(a.val, b.val))", "        if a.device_id == -1:\n            return AnyArray(mul_conj(a.val, b.val))", "R01.6")
add("C10", "div_conj fast path without the shape guard", OPS + "diagonal_operator.py", "        if a.device_id == -1 and a.shape == b.shape:\n            return AnyArray(div_conj(a.val, b.val))", "        if a.device_id == -1:\n            return AnyArray(div_conj(a.val, b.val))", "R10.10")
add("C03", "vdot Jacobian through the receiver not conjugated", "nifty/cl/linearization.py", "                VdotOperator(other)(self._jac).conjugate())", "                VdotOperator(other)(self._jac))", "R03.11")
add("C03", "outer Jacobian applies the Jacobian to the value", "nifty/cl/linearization.py", "            return DiagonalOperator(oval, tgt, spc) @ bc @ self._jac", "            return DiagonalOperator(oval, tgt, spc) @ bc @ makeOp(self._jac(self._val))", "R03.12")
add("C03", "clip helper refuses None again", "nifty/cl/pointwise.py", "    if not all(a is None or isinstance(a, (float, int) + ALLOWED_WRAPPEES)\n               for a in (a_min, a_max)):", "    if not isinstance(a_min, (float, int) + ALLOWED_WRAPPEES):", "R03.13")
add("C03", "metric branch returns before the offset is added", "nifty/cl/operators/energy_operators.py", "        if self._offset != 0.:\n            res = res + self._offset\n        if not x.want_metric or self._ic_samp is None:\n            return res\n", "        if not x.want_metric or self._ic_samp is None:\n            if self._offset != 0.:\n                res = res + self._offset\n            return res\n", "R03.9")
add("C01", "merged block-diagonal factors composed in swapped order", "nifty/cl/operators/block_diagonal_operator.py", "(v1 if v2 is None else v1(v2))", "(v1 if v2 is None else v2(v1))", "R01.7")
add("C12", "complex log-term factor 2 in the local transformation", "nifty/re/likelihood_impl.py", "        fct = jnp.sqrt(2) ** self.iscomplex\n", "        fct = 1 + self.iscomplex\n", "R12.8")
add("C12", "categorical normalisation summed tree-wide", "nifty/re/likelihood_impl.py", "        return preds * tangents - preds * norm_term", "        return preds * tangents - preds * sum(norm_term)", "R12.11")
add("C12", "sqrtm jvp divisor on one eigen index", "nifty/re/tree_math/util.py", "dM / (vsq[:, jnp.newaxis] + vsq[jnp.newaxis, :])", "dM / (2.0 * vsq[:, jnp.newaxis])", "R12.10")
add("C12", "poisson left sqrt clamps the rate", "nifty/re/likelihood_impl.py", "        return tangents / primals**0.5", "        return tangents / jnp.maximum(primals, 1e-6)**0.5", "R12.4")
add("C12", "one complex flag for the whole tree", "nifty/re/likelihood_impl.py", "        self.iscomplex = tree_map(\n            lambda x: jnp.issubdtype(x.dtype, jnp.complexfloating), data\n        )", "        self.iscomplex = bool(jnp.issubdtype(result_type(data), jnp.complexfloating))", "R12.9")
add("C13", "block-diagonal dtype table over the given operators only", "nifty/cl/operators/block_diagonal_operator.py", "        self._dtype = {kk: getattr(operators.get(kk), \"sampling_dtype\", None)\n                       for kk in domain.keys()}", "        self._dtype = {kk: getattr(oo, \"sampling_dtype\", None)\n                       for kk, oo in operators.items()}", "R13.9")
add("C13", "identity block refusal tests presence only", "nifty/cl/operators/block_diagonal_operator.py", "if self._dtype is None or self._dtype.get(key) is None:", "if self._dtype is None or key not in self._dtype:", "R13.9")
add("C18", "failed inversion refusal built but not raised", "nifty/re/evi.py", "        raise ValueError(\"S: failed to invert map\")", "        ValueError(\"S: failed to invert map\")", "R18.6")
add("C20", "type refusal returned", "nifty/re/evi.py", "        raise TypeError(msg)", "        return TypeError(msg)", "R20.4")
add("C17", "missing function refusal dropped", "nifty/re/optimize.py", "            raise ValueError(\"no function specified\")", "            ValueError(\"no function specified\")", "R17.9")
add("C27", "boolean parse refusal dropped", "nifty/cl/minimization/config/optimize_kl_config.py", "                        raise ValueError(f\"{tmp[1]} is not boolean\")", "                        ValueError(f\"{tmp[1]} is not boolean\")", "R27.12")
add("C26", "pseudo-variance for complex samples", "nifty/cl/probing.py", "            self._M2 = self._M2 + (delta.conjugate()*delta2).real", "            self._M2 = self._M2 + delta*delta2", "R26.11")
add("C26", "shareRange start without the min", "nifty/cl/utilities.py", "    lo = myshare*nbase + min(myshare, additional)", "    lo = myshare*nbase + additional if myshare >= additional else myshare", "R26.9")
add("C22", "shareRange end ignores the extra item", "nifty/cl/utilities.py", "    hi = lo + nbase + int(myshare < additional)", "    hi = lo + nbase + int(myshare <= additional)", "R22.9")
add("C04", "constant operator returns no metric", "nifty/cl/operators/simplify_for_const.py", "            return x.new(self._output, jac, met)\n        return self._output\n\n    def __repr__(self):\n        tgt", "            return x.new(self._output, jac)\n        return self._output\n\n    def __repr__(self):\n        tgt", "R04.8")
add("C04", "offset only on the metric-free return", "nifty/cl/operators/energy_operators.py", "        if self._offset != 0.:\n            res = res + self._offset\n        if not x.want_metric or self._ic_samp is None:\n            return res\n", "        if not x.want_metric or self._ic_samp is None:\n            return res if self._offset == 0. else res + self._offset\n", "R04.7")
add("C04", "optional transformation dereferenced unguarded", "nifty/cl/operators/jax_operator.py", "        trafo = None\n        if self._trafo is not None:\n            _, trafo = self._trafo.simplify_for_constant_input(c_inp)\n", "        _, trafo = self._trafo.simplify_for_constant_input(c_inp)\n", "R04.9")
add("C32", "reflected U-turn index without the lower bound", "nifty/re/hmc.py", "| is_euclidean_uturn(tree_index_get(S, k), z),", "| is_euclidean_uturn(tree_index_get(S, i_max_incl - k), z),", "R32.7")
add("C32", "turning sub-tree merged at the depth limit", "nifty/re/hmc.py", "            pred=new_subtree.turning | new_subtree.diverging,", "            pred=(new_subtree.turning & (current_tree.depth < max_tree_depth)) | new_subtree.diverging,", "R32.6")
add("C32", "NaN weight difference accepted", "nifty/re/hmc.py", "        transition_probability = jnp.minimum(\n            1.0, jnp.exp(new_subtree.logweight - current_subtree.logweight)\n        )", "        transition_probability = jnp.where(new_subtree.logweight - current_subtree.logweight < 0.0, jnp.exp(new_subtree.logweight - current_subtree.logweight), 1.0)", "R32.8")
add("C09", "scipy transform overwrites its input", "nifty/cl/ducc_dispatch.py", "    return AnyArray(scipy.fft.ifftn(a._val, axes=axes, workers=_nthreads))", "    return AnyArray(scipy.fft.ifftn(a._val, axes=axes, workers=_nthreads, overwrite_x=True))", "R09.10")
add("C09", "codomain refused only if every axis mismatches", "nifty/cl/domains/rg_space.py", "        if not np.all(abs(np.array(self.shape) *\n                          np.array(self.distances) *\n                          np.array(codomain.distances)-1) < 1e-7):", "        if np.all(abs(np.array(self.shape) *\n                          np.array(self.distances) *\n                          np.array(codomain.distances)-1) >= 1e-7):", "R09.11")
add("C33", "unstack counts along the first axis", "nifty/re/tree_math/forest_math.py", "    element_count = tree_leaves(stack)[0].shape[axis]", "    element_count = tree_leaves(stack)[0].shape[0]", "R33.5")
add("C33", "where ignores the condition's structure", "nifty/re/tree_math/vector_math.py", "    ts_max = (ts_c, ts_x, ts_y)[\n        np.argmax([ts_c.num_nodes, ts_x.num_nodes, ts_y.num_nodes])\n    ]", "    ts_max = ts_x if ts_x.num_nodes >= ts_y.num_nodes else ts_y", "R33.6")
add("C33", "mean_and_std squares without the modulus", "nifty/re/tree_math/forest_math.py", "    std = scl * tree_map(jnp.sqrt, mean_of_sq - abs(m) ** 2)", "    std = scl * tree_map(jnp.sqrt, mean_of_sq - m**2)", "R33.7")
add("C33", "None axis specification flattened itself", "nifty/re/custom_map.py", "        out_axes = tree_map(lambda el: None, y)\n        out_axes, out_axes_td = tree_flatten(out_axes, is_leaf=_int_or_none)\n    elif isinstance(out_axes, int):", "        out_axes, out_axes_td = tree_flatten(out_axes)\n    if isinstance(out_axes, int):", "R33.8")
add("C13", "inverse-draw refusal of a sum built but not raised", "nifty/cl/operators/sum_operator.py", "            raise NotImplementedError(\n                \"cannot draw from inverse of this operator\")", "            NotImplementedError(\n                \"cannot draw from inverse of this operator\")", "R13.10")
add("C16", "L-BFGS history reset only at construction", "nifty/cl/minimization/descent_minimizers.py", "    def __call__(self, energy):\n        self.reset()\n        return super(L_BFGS, self).__call__(energy)\n", "    def __call__(self, energy):\n        return super(L_BFGS, self).__call__(energy)\n", "R16.5")
add("C13", "per-key device dict leaves the lookup table unbound", "nifty/cl/multi_field.py", "            _device_id = defaultdict(lambda: device_id)\n        else:\n            _device_id = device_id\n", "            _device_id = defaultdict(lambda: device_id)\n", "R13.11")
add("C34", "classic prior term from the prior energy", "nifty/cl/evidence_lower_bound.py", "        prior_mean_sq = float(np.real(samples.mean.s_vdot(samples.mean)))", "        prior_mean_sq = float(np.real(hamiltonian.prior_energy(samples.mean).asnumpy()))", "R34.8")
add("C34", "empirical mean preferred over the stored position", "nifty/re/evidence_lower_bound.py", "        if samples.pos is not None:\n            mean = samples.pos\n        elif len(samples) > 0:\n            mean = tree_map(lambda x: jnp.mean(x, axis=0), samples.samples)\n", "        if len(samples) > 0:\n            mean = tree_map(lambda x: jnp.mean(x, axis=0), samples.samples)\n        elif samples.pos is not None:\n            mean = samples.pos\n", "R34.8")
add("C30", "log1p spelled out in the JAX moment matching", "nifty/re/num/stats_distributions.py", "    logstd = sqrt(log1p((std / mean) ** 2))", "    logstd = sqrt(log(1.0 + (std / mean) ** 2))", "R30.5")
add("C30", "length-one arrays no longer fill", "nifty/cl/utilities.py", "    if x.shape in [(), (1, )]:", "    if x.ndim == 0:", "R30.6")
add("C30", "uniform inverse clamps its argument", "nifty/cl/library/special_distributions.py", "        res = norm._ppf((field.val - self._loc) / self._scale)", "        res = norm._ppf(np.clip((field.val - self._loc) / self._scale, 1e-10, 1 - 1e-10))", "R30.7")
add("C30", "shift inside the log-space table", "nifty/re/num/stats_distributions.py", "        s2i = lambda x: invgamma.ppf(norm._cdf(x), a=a, scale=scale)\n", "        s2i = lambda x: invgamma.ppf(norm._cdf(x), a=a, loc=loc, scale=scale)\n", "R30.8")
add("C28", "Matern fluctuation integrates the zero mode", "nifty/cl/library/correlated_fields.py", "        self._fluc = (vol1*op).power(2).integrate().sqrt().scale(totvol**-0.5)\n        op = vol0 + vol1*op\n", "        op = vol0 + vol1*op\n        self._fluc = op.power(2).integrate().sqrt().scale(totvol**-0.5)\n", "R28.10")
add("C28", "spherical mode lengths transformed for the Matern model only", "nifty/re/correlated_field.py", "            mode_lengths=m_length,\n            relative_log_mode_lengths=um,\n            log_volume=log_vol,\n        )\n        grid = HEALPixGrid(", "            mode_lengths=np.sqrt(m_length * (m_length + 1.0)),\n            relative_log_mode_lengths=um,\n            log_volume=log_vol,\n        )\n        grid = HEALPixGrid(", "R28.9")
add("C18", "KL samples drawn from the Hamiltonian reduced by the wrong key list", "nifty/cl/minimization/kl_energies.py", "    _, ham_sampling = _reduce_by_keys(position, hamiltonian, point_estimates)", "    _, ham_sampling = _reduce_by_keys(position, hamiltonian, invariant)", "R18.7")
add("C18", "geoVI prior noise with a literal dtype", "nifty/cl/minimization/kl_energies.py", "                              ScalingOperator(fl.domain, 1., prior_dtype),", "                              ScalingOperator(fl.domain, 1., float),", "R18.8")
add("C18", "likelihood white noise straight from random_like", "nifty/re/evi.py", "    white_sample = _white_noise_like(key, lh.left_sqrt_metric_tangents_shape)", "    white_sample = random_like(key, lh.left_sqrt_metric_tangents_shape)", "R18.11")
add("C29", "sigma outside the time-axis expansion", "nifty/re/gauss_markov.py", "    res = (sigma * jnp.sqrt(dt))[:, jnp.newaxis] * xi", "    res = sigma * jnp.sqrt(dt)[:, jnp.newaxis] * xi", "R29.6")
add("C05", "chain grouping key from the first operator alone", "nifty/cl/operator_tree_optimiser.py", "                        write_to_dic(leaf, leaf_op_id)", "                        write_to_dic(leaf, str(id(i)))", "R05.4")
add("C36", "normalised residual operator remembered on the likelihood", "nifty/cl/operators/energy_operators.py", "        return (self._sqrt_data_metric_at(x) @ self._res).force(x)", "        if getattr(self, \"_nres\", None) is None:\n            self._nres = self._sqrt_data_metric_at(x) @ self._res\n        return self._nres.force(x)", "R36.7")
add("C36", "prefix operators zipped with all summands", "nifty/cl/operators/energy_operators.py", "                                for pp, oo in zip(prep, data_ops)))", "                                for pp, oo in zip(prep, ops)))", "R36.8")
add("C31", "flat grid re-derives level shapes by a running product", "nifty/re/multi_grid/grid.py", "                shapes.append(atlvl.shape)", "                shapes.append(tuple(np.asarray(self.grid.shape0) * 2**lvl))", "R31.8")
add("C31", "log-grid volume in Jacobian form", "nifty/re/multi_grid/grid_impl.py", "        return jnp.prod(coords[1] - coords[0], axis=0, keepdims=True)", "        return jnp.prod(self.index2coord(index) * self.coord_scale * super().index2volume(index), axis=0, keepdims=True)", "R31.9")
add("C35", "interpolation order not handed to the integrator", "nifty/re/extra/sampling_los.py", "            order=interpolation_order,\n", "", "R35.8")
add("C35", "truncated ray end computed but not used", "nifty/cl/library/los_response.py", "        pixel_ends = real_ends/dist + 0.5", "        pixel_ends = ends/dist + 0.5", "R35.9")
add("C35", "single line of sight mapped over its coordinates", "nifty/re/extra/sampling_los.py", "        if self.start.ndim == 1 and self.end.ndim == 1:\n            # A single line of sight: nothing to map over\n            return self._los(x, self.start, self.end)\n", "", "R35.11")
add("C30", "scalar-target branch bypasses value_reshaper", "nifty/cl/operators/normal_operators.py", "        mean, sigma = (float(value_reshaper(param, 0)) for param in (mean, sigma))", "        mean, sigma = np.asarray(mean, dtype=float), np.asarray(sigma, dtype=float)", "R30.9")
add("C12", "non-callable std_inv called before it is wrapped", "nifty/re/likelihood_impl.py", "        if not callable(si):\n            si = Partial(operator.mul, si)\n", "", "R12.13")
add("C01", "None blocks composed as operators", "nifty/cl/operators/block_diagonal_operator.py", "            if v1 is None and v2 is None:\n                continue\n            res[key] = v2 if v1 is None else (v1 if v2 is None else v1(v2))", "            res[key] = v1(v2)", "R01.8")
add("C14", "relative change evaluated between two vanishing energies", "nifty/cl/minimization/iteration_controllers.py", "            rel = abs(self._Eold-Eval)/denom if denom > 0 else 0.", "            rel = abs(self._Eold-Eval)/denom", "R14.7")
add("C27", "output globals set only when a directory is given", "nifty/cl/minimization/optimize_kl.py", "    _output_directory = output_directory\n    _save_strategy = save_strategy\n    if output_directory is not None:\n", "    if output_directory is not None:\n        _output_directory = output_directory\n        _save_strategy = save_strategy\n", "R27.13")
add("C27", "dry run keeps the initial sample list", "nifty/cl/minimization/optimize_kl.py", "            sl = _single_value_sample_list(mean, comm(iglobal))\n            pop_sseq()\n            continue\n", "            pop_sseq()\n            continue\n", "R27.14")
add("C01", "partial diagonal reshaped without the axis permutation", "nifty/cl/operators/diagonal_operator.py", "            if perm != tuple(range(len(perm))):\n                self._ldiag = np.transpose(self._ldiag, perm)\n", "", "R01.9")
add("C02", "mean-removing wrapper uses one formula for both modes", "nifty/cl/operators/convolution_operators.py", "        if mode == self.TIMES:\n            mean = x.s_mean()\n            return mean + self._op.apply(x - mean, mode)\n", "        mean = x.s_mean()\n        return mean + self._op.apply(x - mean, mode)\n", "R02.14")
add("C22", "communicator passed in the mirror_samples slot", "nifty/cl/minimization/energy_adapter.py", "                                            n_samples, self._mirror_samples,\n                                            comm=self._comm, nanisinf=self._nanisinf)", "                                            n_samples, self._comm)", "R22.10")
VARIANTS = V
add("C05", "domain refresh stops at an already refreshed ancestor", "nifty/cl/operator_tree_optimiser.py", "            index = nodes[index][1]\n            cond = type(index) is int\n", "            if index in _seen:\n                break\n            _seen.add(index)\n            index = nodes[index][1]\n            cond = type(index) is int\n", "R05.5")
add("C12", "eigenvalue cut-off at the dtype's machine epsilon", "nifty/re/tree_math/util.py", "def _check(v, cut=1e-16):\n    return v > cut", "def _check(v, cut=None):\n    cut = jnp.finfo(v.dtype).eps if cut is None else cut\n    return v > cut", "R12.14")
add("C05", "shared chain object cut once per parent", "nifty/cl/operator_tree_optimiser.py", "                    if id(leaf_op) in truncated:\n", "                    if False:\n", "R05.6")
add("C05", "cut objects not remembered", "nifty/cl/operator_tree_optimiser.py", "                        truncated.add(id(leaf_op))\n", "", "R05.6")
add("C05", "nodes registered from every chain position", "nifty/cl/operator_tree_optimiser.py", "            if isnode(op._ops[-1]):\n                nodes.append((op._ops[-1], active_node, left))\n                isleaf = False\n", "            for i in range(len(op._ops)):\n                if isnode(op._ops[i]):\n                    nodes.append((op._ops[i], active_node, left))\n                    isleaf = False\n", "R05.7")
add("C18", "complexity of the white noise decided for the whole tree", "nifty/re/evi.py", "    return tree_map(\n        lambda x: jnp.sqrt(2.0) * x if jnp.iscomplexobj(x) else x, white\n    )\n", "    if not any(jnp.iscomplexobj(x) for x in jax.tree_util.tree_leaves(white)):\n        return white\n    return tree_map(lambda x: jnp.sqrt(2.0) * x, white)\n", "R18.11")
add("C26", "file name base interpolated into the pattern as it stands", "nifty/cl/minimization/sample_list.py", "re.fullmatch(re.escape(base_file) + r\"\\.[0-9]+\\.pickle\", ff)", "re.match(f\"{base_file}.[0-9]+.pickle\", ff)", "R26.12")
add("C26", "escaped base but open end", "nifty/cl/minimization/sample_list.py", "re.fullmatch(re.escape(base_file) + r\"\\.[0-9]+\\.pickle\", ff)", "re.match(re.escape(base_file) + r\"\\.[0-9]+\\.pickle\", ff)", "R26.12")
