#!/bin/sh
# runs every claimed check (quick tier by default) against /repo; prints one summary line each
TIER=${1:-quick}
cd /verif
rc=0
for p in $(/venv/bin/python -S -c "import json;print(' '.join(c['property_id'] for c in json.load(open('MANIFEST.json'))['checks']))"); do
  ./vcheck $p --tier $TIER | grep -E "^\[|VIOLATION|ANALYSIS-ERROR|KNOWN" | sed -e 's/^KNOWN-FINDING: \(.\{90\}\).*/KNOWN-FINDING: \1.../'
  [ ${PIPESTATUS:-0} -ne 0 ] && rc=1
done
exit $rc
