#!/bin/sh
# usage: seedcheck.sh <dir with patch.diff> <PROP> [more PROPs]  -- applies the seeded change to /repo, runs the checks, undoes it
d=$1; shift
git -C /repo apply --check "$d/patch.diff" || { echo "PATCH DOES NOT APPLY: $d"; exit 3; }
git -C /repo apply "$d/patch.diff"
for p in "$@"; do
  /verif/vcheck $p --tier quick --no-evidence | grep -E "^  rule|^\[|ANALYSIS" | cut -c1-400
done
git -C /repo apply -R "$d/patch.diff"
