#!/usr/bin/env python3
"""Runs every kept seeded change against the current checks (scratch worktree, --repo, no evidence written) and prints a table."""
import json, os, subprocess, sys, tempfile
SEED = "/verif/seeded"
def sh(cmd, cwd=None):
    p = subprocess.run(cmd, shell=True, cwd=cwd, capture_output=True, text=True)
    return p.returncode, p.stdout + p.stderr
wt = tempfile.mkdtemp(prefix="seedeval_", dir="/tmp"); os.rmdir(wt)
rc, out = sh(f"git -C /repo worktree add --detach {wt} HEAD"); assert rc == 0, out
rows = []
try:
    for sid in sorted(os.listdir(SEED)):
        d = os.path.join(SEED, sid)
        if not os.path.isdir(d) or not os.path.exists(os.path.join(d, "patch.diff")):
            continue
        meta = json.load(open(os.path.join(d, "meta.json")))
        props = sorted(set([meta.get("property", sid.split("-")[0])] + list(meta.get("also_check", []))))
        rc, out = sh(f"git apply {d}/patch.diff", cwd=wt)
        if rc != 0:
            rows.append((sid, "PATCH DOES NOT APPLY", ""))
            continue
        res = []
        for p in props:
            rc, out = sh(f"/verif/vcheck {p} --tier quick --repo {wt} --no-evidence")
            rules = sorted({l.split()[1] for l in out.splitlines() if l.startswith("  rule ")})
            res.append(f"{p}: exit {rc} {','.join(rules)}")
        sh("git checkout -- . && git clean -fdq", cwd=wt)
        rows.append((sid, "; ".join(res), meta.get("needs_to_manifest", "")[:100]))
finally:
    sh(f"git -C /repo worktree remove --force {wt}")
print("| seeded change | current checks |")
print("|---|---|")
for r in rows:
    print(f"| {r[0]} | {r[1]} |")
