#!/usr/bin/env python3
"""Confirm a seeded change: in a scratch worktree of /repo HEAD the demo must fail with the patch and pass without it;
then run the registered quick checks for the given properties with the patch applied to /repo (and undo it).
usage: seedverify.py <srcdir> <seed id> <PROP>[,<PROP>...] [--tests "<pytest args>"]"""
import json, os, shutil, subprocess, sys, tempfile, time

def sh(cmd, cwd=None, env=None, timeout=3000):
    p = subprocess.run(cmd, shell=True, cwd=cwd, env=env, capture_output=True, text=True, timeout=timeout)
    return p.returncode, (p.stdout + p.stderr)

def main():
    srcdir, sid, props = sys.argv[1], sys.argv[2], sys.argv[3].split(",")
    tests = None
    if "--tests" in sys.argv:
        tests = sys.argv[sys.argv.index("--tests") + 1]
    patch = os.path.join(srcdir, "patch.diff")
    demo = [f for f in os.listdir(srcdir) if f.startswith(("demo", "test_demo")) and f.endswith(".py")][0]
    wt = tempfile.mkdtemp(prefix="seedwt_", dir="/tmp")
    os.rmdir(wt)
    rc, out = sh(f"git -C /repo worktree add --detach {wt} HEAD")
    assert rc == 0, out
    log = {}
    caught = {}
    try:
        env = dict(os.environ, PYTHONPATH=wt, JAX_PLATFORMS="cpu")
        stub = "/tmp/scratch/stub"
        envs = dict(env, PYTHONPATH=f"{stub}:{wt}")
        runner = "/venv/bin/python -m pytest -q -p no:cacheprovider -x" if demo.startswith("test_") else "/venv/bin/python"
        rc0, out0 = sh(f"{runner} {os.path.join(srcdir, demo)}", cwd=wt, env=env)
        if rc0 != 0:  # maybe it needs the MPI stub
            rc0, out0 = sh(f"{runner} {os.path.join(srcdir, demo)}", cwd=wt, env=envs)
            env = envs
        log["demo_clean_rc"] = rc0
        rc, out = sh(f"git apply {patch}", cwd=wt)
        assert rc == 0, out
        rc1, out1 = sh(f"{runner} {os.path.join(srcdir, demo)}", cwd=wt, env=env)
        log["demo_patched_rc"] = rc1
        log["demo_patched_tail"] = out1[-600:]
        rc, out = sh("/venv/bin/python -c 'import nifty.cl, nifty.re'", cwd=wt, env=env)
        log["imports_rc"] = rc
        for p in props:
            rc, out = sh(f"/verif/vcheck {p} --tier quick --repo {wt} --no-evidence")
            caught[p] = {"exit": rc, "rules": sorted({l.split()[1] for l in out.splitlines() if l.startswith("  rule ")}),
                         "first": next((l.strip()[:300] for l in out.splitlines() if l.startswith("  rule ")), None)}
        if tests:
            for attempt in range(2):  # the xdist run occasionally hangs with idle workers on a loaded machine: bounded, one retry
                rc, out = sh(f"timeout -k 10 1800 /venv/bin/python -m pytest -q -rf -p no:cacheprovider {tests}", cwd=wt, env=envs, timeout=2000)
                if rc != 124:
                    break
            log["tests_cmd"] = tests
            log["tests_rc"] = rc
            log["tests_tail"] = out.strip().splitlines()[-1] if out.strip() else ""
            failed = [l.split(" - ")[0] for l in out.splitlines() if l.startswith("FAILED ")]
            if failed:
                log["tests_failed"] = failed
                log["tests_tail"] += " | failed: " + ", ".join(f.replace("FAILED ", "") for f in failed)[:400]
    finally:
        sh(f"git -C /repo worktree remove --force {wt}")
    ok = log.get("demo_clean_rc") == 0 and log.get("demo_patched_rc") not in (0, None) and log.get("imports_rc") == 0
    log["confirmed"] = ok
    log["checks"] = caught
    print(json.dumps(log, indent=1))
    if ok:
        dst = f"/verif/seeded/{sid}"
        os.makedirs(dst, exist_ok=True)
        shutil.copy(patch, dst)
        shutil.copy(os.path.join(srcdir, demo), dst)
        meta = {}
        try:
            meta = json.load(open(os.path.join(srcdir, "meta.json")))
        except Exception:
            pass
        meta.update({"seed_id": sid, "confirmed_by_me": {"demo_on_clean_tree_exit": log["demo_clean_rc"],
                                                          "demo_with_patch_exit": log["demo_patched_rc"],
                                                          "tests_cmd": log.get("tests_cmd"), "tests_result": log.get("tests_tail"),
                                                          "date": time.strftime("%Y-%m-%d")},
                     "static_checks": caught})
        json.dump(meta, open(os.path.join(dst, "meta.json"), "w"), indent=1)

main()
